#!/bin/bash
# setup (offline): build the fact-extraction driver and pre-build the workspace dependencies
# into /verif/.cache/target so that each check only re-analyses the five workspace crates.
set -e
cd "$(dirname "$0")"
export CARGO_NET_OFFLINE=true
(cd engine/compassfacts && cargo build --offline 2>&1 | tail -2)
python3 - <<'PY'
import sys
sys.path.insert(0, "engine/rules")
import run
fdir, st = run.extract("dev")
print("facts:", fdir, st)
PY
