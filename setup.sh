#!/bin/bash
# setup (offline): build the fact-extraction driver and pre-build the workspace dependencies
# into /verif/.cache/target so that each check only re-analyses the five workspace crates.
set -e
cd "$(dirname "$0")"
export CARGO_NET_OFFLINE=true
(cd engine/compassfacts && cargo build --offline 2>&1 | tail -2)
python3 - <<'PY'
import sys
sys.path.insert(0, "engine/rules")
import run
fdir, st = run.extract("dev")
print("facts:", fdir, st)
PY
# warm-up for the thorough tier (not needed by quick; failures here are not fatal: the thorough commands
# build what they need themselves, only slower the first time)
python3 - <<'PY' || true
import sys
sys.path.insert(0, "engine/rules")
import run
fdir, st = run.extract("release")
print("facts (release):", fdir, st)
PY
(cd engine/witness && cp /repo/rust/Cargo.lock . && CARGO_TARGET_DIR=/verif/.cache/target-witness cargo +nightly test --doc --offline --no-run 2>&1 | tail -1) || true
