// compassfacts: rustc_private fact extractor for the routee-compass workspace.
//
// Invoked by cargo through RUSTC_WORKSPACE_WRAPPER:   compassfacts <rustc> <args...>
// For every workspace crate it runs the normal compiler pipeline up to analysis,
// then dumps the type-checked program (MIR at mir-opt-level 0 with resolved
// callees, ADT layouts, trait impls) as one JSON file
//   $COMPASSFACTS_OUT/<crate>-<kind>.json
// written with a single write call.  Nothing is executed.
#![feature(rustc_private)]
#![allow(clippy::all)]

extern crate rustc_abi;
extern crate rustc_driver;
extern crate rustc_hir;
extern crate rustc_interface;
extern crate rustc_middle;
extern crate rustc_session;
extern crate rustc_span;

use rustc_driver::Compilation;
use rustc_hir::def::DefKind;
use rustc_hir::def_id::{DefId, LocalDefId};
use rustc_middle::mir::{
    AggregateKind, AssertKind, BinOp, Body, BorrowKind, CastKind, Const as MirConst, Operand, Place,
    ProjectionElem, Rvalue, StatementKind, TerminatorKind, UnOp, UnwindAction,
};
use rustc_middle::mir::PlaceTy;
use rustc_middle::ty::print::PrintTraitRefExt;
use rustc_middle::ty::{self, Instance, Ty, TyCtxt, TyKind, TypingEnv};
use rustc_span::Span;
use std::collections::BTreeMap;
use std::fmt::Write as _;

// ---------------------------------------------------------------- JSON helpers

fn esc(s: &str) -> String {
    let mut o = String::with_capacity(s.len() + 2);
    o.push('"');
    for c in s.chars() {
        match c {
            '"' => o.push_str("\\\""),
            '\\' => o.push_str("\\\\"),
            '\n' => o.push_str("\\n"),
            '\r' => o.push_str("\\r"),
            '\t' => o.push_str("\\t"),
            c if (c as u32) < 0x20 => {
                let _ = write!(o, "\\u{:04x}", c as u32);
            }
            c => o.push(c),
        }
    }
    o.push('"');
    o
}

struct Obj(String);
impl Obj {
    fn new() -> Self {
        Obj(String::from("{"))
    }
    fn raw(&mut self, k: &str, v: &str) -> &mut Self {
        if self.0.len() > 1 {
            self.0.push(',');
        }
        self.0.push_str(&esc(k));
        self.0.push(':');
        self.0.push_str(v);
        self
    }
    fn s(&mut self, k: &str, v: &str) -> &mut Self {
        let e = esc(v);
        self.raw(k, &e)
    }
    fn n(&mut self, k: &str, v: i128) -> &mut Self {
        self.raw(k, &v.to_string())
    }
    fn b(&mut self, k: &str, v: bool) -> &mut Self {
        self.raw(k, if v { "true" } else { "false" })
    }
    fn done(&mut self) -> String {
        let mut s = std::mem::take(&mut self.0);
        s.push('}');
        s
    }
}
fn arr(items: &[String]) -> String {
    let mut s = String::from("[");
    for (i, it) in items.iter().enumerate() {
        if i > 0 {
            s.push(',');
        }
        s.push_str(it);
    }
    s.push(']');
    s
}

// ---------------------------------------------------------------- extraction

struct Cx<'tcx> {
    tcx: TyCtxt<'tcx>,
    adt_queue: Vec<DefId>,
    adt_seen: std::collections::HashSet<DefId>,
}

impl<'tcx> Cx<'tcx> {
    fn path(&self, d: DefId) -> String {
        let tcx = self.tcx;
        ty::print::with_no_visible_paths!(ty::print::with_no_trimmed_paths!(ty::print::with_resolve_crate_name!(tcx.def_path_str(d))))
    }

    fn span(&self, sp: Span, o: &mut Obj) {
        let sm = self.tcx.sess.source_map();
        let lo = sm.lookup_char_pos(sp.lo());
        let hi = sm.lookup_char_pos(sp.hi());
        let f = match &lo.file.name {
            rustc_span::FileName::Real(r) => match r.local_path() {
                Some(p) => p.to_string_lossy().to_string(),
                None => format!("{:?}", lo.file.name),
            },
            other => format!("{:?}", other),
        };
        o.s("file", &f);
        o.n("line", lo.line as i128);
        o.n("col", lo.col.0 as i128 + 1);
        o.n("line_hi", hi.line as i128);
        o.b("exp", sp.from_expansion());
    }

    fn ty_str(&self, t: Ty<'tcx>) -> String {
        ty::print::with_no_visible_paths!(ty::print::with_no_trimmed_paths!(ty::print::with_resolve_crate_name!(format!("{}", t))))
    }

    // structured type tree
    fn ty_tree(&mut self, t: Ty<'tcx>, depth: usize) -> String {
        let mut o = Obj::new();
        if depth > 6 {
            o.s("k", "deep");
            o.s("s", &self.ty_str(t));
            return o.done();
        }
        match t.kind() {
            TyKind::Adt(def, args) => {
                o.s("k", "adt");
                o.s("path", &self.path(def.did()));
                if self.adt_seen.insert(def.did()) {
                    self.adt_queue.push(def.did());
                }
                let mut a = vec![];
                for ga in args.iter() {
                    if let Some(t2) = ga.as_type() {
                        a.push(self.ty_tree(t2, depth + 1));
                    }
                }
                o.raw("args", &arr(&a));
            }
            TyKind::Ref(_, t2, m) => {
                o.s("k", "ref");
                o.b("mut", m.is_mut());
                let x = self.ty_tree(*t2, depth + 1);
                o.raw("t", &x);
            }
            TyKind::RawPtr(t2, m) => {
                o.s("k", "ptr");
                o.b("mut", m.is_mut());
                let x = self.ty_tree(*t2, depth + 1);
                o.raw("t", &x);
            }
            TyKind::Slice(t2) => {
                o.s("k", "slice");
                let x = self.ty_tree(*t2, depth + 1);
                o.raw("t", &x);
            }
            TyKind::Array(t2, _) => {
                o.s("k", "array");
                let x = self.ty_tree(*t2, depth + 1);
                o.raw("t", &x);
            }
            TyKind::Tuple(ts) => {
                o.s("k", "tuple");
                let mut a = vec![];
                for t2 in ts.iter() {
                    a.push(self.ty_tree(t2, depth + 1));
                }
                o.raw("args", &arr(&a));
            }
            TyKind::Dynamic(preds, _) => {
                o.s("k", "dyn");
                let mut a = vec![];
                for p in preds.iter() {
                    match p.skip_binder() {
                        ty::ExistentialPredicate::Trait(tr) => a.push(esc(&self.path(tr.def_id))),
                        ty::ExistentialPredicate::AutoTrait(d) => a.push(esc(&self.path(d))),
                        _ => {}
                    }
                }
                o.raw("traits", &arr(&a));
            }
            TyKind::Param(p) => {
                o.s("k", "param");
                o.s("name", p.name.as_str());
            }
            TyKind::Closure(d, _) => {
                o.s("k", "closure");
                o.s("path", &self.path(*d));
            }
            TyKind::FnDef(d, _) => {
                o.s("k", "fndef");
                o.s("path", &self.path(*d));
            }
            TyKind::Bool | TyKind::Char | TyKind::Int(_) | TyKind::Uint(_) | TyKind::Float(_) | TyKind::Str | TyKind::Never => {
                o.s("k", "prim");
                o.s("s", &self.ty_str(t));
            }
            _ => {
                o.s("k", "other");
                o.s("s", &self.ty_str(t));
            }
        }
        o.done()
    }

    fn place(&self, body: &Body<'tcx>, p: &Place<'tcx>) -> String {
        let tcx = self.tcx;
        let mut o = Obj::new();
        o.n("l", p.local.as_u32() as i128);
        let mut pty = PlaceTy::from_ty(body.local_decls[p.local].ty);
        let mut elems = vec![];
        for elem in p.projection.iter() {
            let mut e = Obj::new();
            match elem {
                ProjectionElem::Deref => {
                    e.s("k", "deref");
                }
                ProjectionElem::Field(f, _) => {
                    e.s("k", "field");
                    e.n("i", f.as_u32() as i128);
                    if let TyKind::Adt(def, _) = pty.ty.kind() {
                        let v = match pty.variant_index {
                            Some(v) => Some(v),
                            None => {
                                if def.is_enum() {
                                    None
                                } else {
                                    Some(rustc_abi::FIRST_VARIANT)
                                }
                            }
                        };
                        if let Some(v) = v {
                            let vd = def.variant(v);
                            if let Some(fd) = vd.fields.get(f) {
                                e.s("name", fd.name.as_str());
                            }
                            e.s("adt", &self.path(def.did()));
                        }
                    }
                }
                ProjectionElem::Index(l) => {
                    e.s("k", "index");
                    e.n("l", l.as_u32() as i128);
                }
                ProjectionElem::ConstantIndex { offset, from_end, .. } => {
                    e.s("k", "cindex");
                    e.n("off", offset as i128);
                    e.b("from_end", from_end);
                }
                ProjectionElem::Subslice { from, to, from_end } => {
                    e.s("k", "subslice");
                    e.n("from", from as i128);
                    e.n("to", to as i128);
                    e.b("from_end", from_end);
                }
                ProjectionElem::Downcast(name, v) => {
                    e.s("k", "downcast");
                    e.n("v", v.as_u32() as i128);
                    if let Some(n) = name {
                        e.s("name", n.as_str());
                    } else if let TyKind::Adt(def, _) = pty.ty.kind() {
                        e.s("name", def.variant(v).name.as_str());
                    }
                }
                _ => {
                    e.s("k", "otherproj");
                }
            }
            elems.push(e.done());
            pty = pty.projection_ty(tcx, elem);
        }
        o.raw("p", &arr(&elems));
        o.done()
    }

    fn scalar_const(&self, c: &MirConst<'tcx>, owner: DefId, o: &mut Obj) {
        let tcx = self.tcx;
        let ty = c.ty();
        let env = TypingEnv::post_analysis(tcx, owner);
        match ty.kind() {
            TyKind::Bool | TyKind::Int(_) | TyKind::Uint(_) | TyKind::Float(_) | TyKind::Char => {
                if let Some(si) = c.try_eval_scalar_int(tcx, env) {
                    let size = si.size();
                    let bits = si.to_bits(size);
                    match ty.kind() {
                        TyKind::Bool => {
                            o.b("bool", bits != 0);
                            o.n("int", bits as i128);
                        }
                        TyKind::Int(_) => {
                            let v = size.sign_extend(bits) as i128;
                            o.n("int", v);
                        }
                        TyKind::Uint(_) | TyKind::Char => {
                            if bits <= i128::MAX as u128 {
                                o.n("int", bits as i128);
                            } else {
                                o.s("bigint", &bits.to_string());
                            }
                        }
                        TyKind::Float(ft) => {
                            let v = match ft.bit_width() {
                                32 => f32::from_bits(bits as u32) as f64,
                                64 => f64::from_bits(bits as u64),
                                _ => f64::NAN,
                            };
                            if ft.bit_width() == 32 {
                                o.s("float", &format!("{:?}", f32::from_bits(bits as u32)));
                            } else {
                                o.s("float", &format!("{:?}", v));
                            }
                        }
                        _ => {}
                    }
                }
            }
            _ => {}
        }
    }

    fn operand(&mut self, body: &Body<'tcx>, owner: DefId, op: &Operand<'tcx>) -> String {
        let mut o = Obj::new();
        match op {
            Operand::Copy(p) => {
                o.s("k", "copy");
                let x = self.place(body, p);
                o.raw("place", &x);
                let t = p.ty(&body.local_decls, self.tcx).ty;
                o.s("ty", &self.ty_str(t));
            }
            Operand::Move(p) => {
                o.s("k", "move");
                let x = self.place(body, p);
                o.raw("place", &x);
                let t = p.ty(&body.local_decls, self.tcx).ty;
                o.s("ty", &self.ty_str(t));
            }
            Operand::Constant(c) => {
                o.s("k", "const");
                let ty = c.const_.ty();
                o.s("ty", &self.ty_str(ty));
                match ty.kind() {
                    TyKind::FnDef(d, _) => {
                        o.s("fn", &self.path(*d));
                    }
                    TyKind::Adt(def, _) => {
                        o.s("adt", &self.path(def.did()));
                    }
                    _ => {}
                }
                match c.const_ {
                    MirConst::Unevaluated(u, _) => {
                        o.s("item", &self.path(u.def));
                        if let Some(pi) = u.promoted {
                            o.b("promoted", true);
                            o.n("promoted_idx", pi.as_u32() as i128);
                        }
                    }
                    _ => {}
                }
                self.scalar_const(&c.const_, owner, &mut o);
                o.s("s", &ty::print::with_no_visible_paths!(ty::print::with_no_trimmed_paths!(format!("{}", c.const_))));
            }
            #[allow(unreachable_patterns)]
            _ => {
                o.s("k", "otherop");
            }
        }
        o.done()
    }

    fn rvalue(&mut self, body: &Body<'tcx>, owner: DefId, rv: &Rvalue<'tcx>) -> String {
        let mut o = Obj::new();
        match rv {
            Rvalue::Use(op, ..) => {
                o.s("k", "use");
                let x = self.operand(body, owner, op);
                o.raw("op", &x);
            }
            Rvalue::Repeat(op, _) => {
                o.s("k", "repeat");
                let x = self.operand(body, owner, op);
                o.raw("op", &x);
            }
            Rvalue::Ref(_, bk, p) => {
                o.s("k", "ref");
                o.b("mut", matches!(bk, BorrowKind::Mut { .. }));
                let x = self.place(body, p);
                o.raw("place", &x);
            }
            Rvalue::RawPtr(_, p) => {
                o.s("k", "rawptr");
                let x = self.place(body, p);
                o.raw("place", &x);
            }
            Rvalue::Cast(kind, op, ty) => {
                o.s("k", "cast");
                let ks = match kind {
                    CastKind::IntToInt => "IntToInt",
                    CastKind::FloatToInt => "FloatToInt",
                    CastKind::FloatToFloat => "FloatToFloat",
                    CastKind::IntToFloat => "IntToFloat",
                    CastKind::PtrToPtr => "PtrToPtr",
                    CastKind::FnPtrToPtr => "FnPtrToPtr",
                    CastKind::Transmute => "Transmute",
                    CastKind::PointerCoercion(..) => "PointerCoercion",
                    _ => "Other",
                };
                o.s("kind", ks);
                let x = self.operand(body, owner, op);
                o.raw("op", &x);
                o.s("ty", &self.ty_str(*ty));
            }
            Rvalue::BinaryOp(op, ab) => {
                o.s("k", "bin");
                o.s("op", &format!("{:?}", op));
                let _: &BinOp = op;
                let a = self.operand(body, owner, &ab.0);
                let b = self.operand(body, owner, &ab.1);
                o.raw("a", &a);
                o.raw("b", &b);
            }
            Rvalue::UnaryOp(op, a) => {
                o.s("k", "un");
                o.s("op", &format!("{:?}", op));
                let _: &UnOp = op;
                let a = self.operand(body, owner, a);
                o.raw("a", &a);
            }
            Rvalue::Discriminant(p) => {
                o.s("k", "discr");
                let x = self.place(body, p);
                o.raw("place", &x);
                let pty = p.ty(&body.local_decls, self.tcx).ty;
                if let TyKind::Adt(def, _) = pty.kind() {
                    o.s("adt", &self.path(def.did()));
                    if def.is_enum() {
                        let mut vs = vec![];
                        for (vi, d) in def.discriminants(self.tcx) {
                            let mut v = Obj::new();
                            v.s("name", def.variant(vi).name.as_str());
                            if d.val <= i128::MAX as u128 {
                                v.n("val", d.val as i128);
                            } else {
                                v.s("bigval", &d.val.to_string());
                            }
                            v.n("idx", vi.as_u32() as i128);
                            vs.push(v.done());
                        }
                        o.raw("variants", &arr(&vs));
                    }
                }
            }
            Rvalue::Aggregate(kind, fields) => {
                o.s("k", "agg");
                match &**kind {
                    AggregateKind::Adt(did, vi, _, _, _) => {
                        let def = self.tcx.adt_def(*did);
                        o.s("agg", "adt");
                        o.s("adt", &self.path(*did));
                        let vd = def.variant(*vi);
                        o.s("variant", vd.name.as_str());
                        let names: Vec<String> = vd.fields.iter().map(|f| esc(f.name.as_str())).collect();
                        o.raw("fnames", &arr(&names));
                    }
                    AggregateKind::Tuple => {
                        o.s("agg", "tuple");
                    }
                    AggregateKind::Array(_) => {
                        o.s("agg", "array");
                    }
                    AggregateKind::Closure(d, _) => {
                        o.s("agg", "closure");
                        o.s("closure", &self.path(*d));
                    }
                    _ => {
                        o.s("agg", "other");
                    }
                }
                let mut fs = vec![];
                for f in fields.iter() {
                    fs.push(self.operand(body, owner, f));
                }
                o.raw("fields", &arr(&fs));
            }
            Rvalue::CopyForDeref(p) => {
                o.s("k", "use");
                let mut oo = Obj::new();
                oo.s("k", "copy");
                let x = self.place(body, p);
                oo.raw("place", &x);
                o.raw("op", &oo.done());
            }
            Rvalue::ThreadLocalRef(d) => {
                o.s("k", "tlsref");
                o.s("item", &self.path(*d));
            }
            _ => {
                o.s("k", "otherrv");
                o.s("s", &format!("{:?}", rv));
            }
        }
        o.done()
    }

    fn callee(&mut self, body: &Body<'tcx>, owner: DefId, func: &Operand<'tcx>, o: &mut Obj) {
        let tcx = self.tcx;
        let fty = func.ty(&body.local_decls, tcx);
        match fty.kind() {
            TyKind::FnDef(did, args) => {
                o.s("def", &self.path(*did));
                let mut targs = vec![];
                for ga in args.iter() {
                    if let Some(t) = ga.as_type() {
                        targs.push(esc(&self.ty_str(t)));
                    }
                }
                o.raw("targs", &arr(&targs));
                if let Some(tr) = tcx.trait_of_assoc(*did) {
                    o.s("trait", &self.path(tr));
                    o.s("method", tcx.item_name(*did).as_str());
                    if let Some(st) = args.types().next() {
                        o.s("self_ty", &self.ty_str(st));
                        let peeled = st.peel_refs();
                        if let TyKind::Adt(ad, _) = peeled.kind() {
                            o.s("self_adt", &self.path(ad.did()));
                        }
                        if let TyKind::Dynamic(..) = peeled.kind() {
                            o.b("dyn", true);
                        }
                        if let TyKind::Closure(cd, _) = peeled.kind() {
                            o.s("self_closure", &self.path(*cd));
                        }
                    }
                } else if let Some(imp) = tcx.impl_of_assoc(*did) {
                    let st = tcx.type_of(imp).instantiate_identity().skip_norm_wip();
                    o.s("impl_self", &self.ty_str(st));
                    if let TyKind::Adt(ad, _) = st.kind() {
                        o.s("self_adt", &self.path(ad.did()));
                    }
                    o.s("method", tcx.item_name(*did).as_str());
                }
                let env = TypingEnv::post_analysis(tcx, owner);
                let res = std::panic::catch_unwind(std::panic::AssertUnwindSafe(|| Instance::try_resolve(tcx, env, *did, args)));
                if let Ok(Ok(Some(inst))) = res {
                    let rd = inst.def_id();
                    o.s("resolved", &self.path(rd));
                    o.b("resolved_local", rd.is_local());
                    match inst.def {
                        ty::InstanceKind::Virtual(..) => {
                            o.b("virtual", true);
                        }
                        ty::InstanceKind::Item(_) => {}
                        _ => {
                            o.s("shim", &format!("{:?}", inst.def).chars().take(60).collect::<String>());
                        }
                    }
                    if let Some(imp) = tcx.impl_of_assoc(rd) {
                        let st = tcx.type_of(imp).instantiate_identity().skip_norm_wip();
                        o.s("resolved_impl_self", &self.ty_str(st));
                    }
                }
            }
            TyKind::FnPtr(..) => {
                o.s("def", "<fnptr>");
            }
            _ => {
                o.s("def", "<indirect>");
                o.s("ty", &self.ty_str(fty));
            }
        }
    }

    fn body(&mut self, did: LocalDefId, body: &Body<'tcx>, kind: &str) -> String {
        let tcx = self.tcx;
        let owner = did.to_def_id();
        let mut o = Obj::new();
        o.s("path", &self.path(owner));
        o.s("kind", kind);
        self.span(body.span, &mut o);
        o.n("argc", body.arg_count as i128);
        let dk = tcx.def_kind(owner);
        if matches!(dk, DefKind::Fn | DefKind::AssocFn) {
            o.s("vis", &format!("{:?}", tcx.visibility(owner)));
        }
        if matches!(dk, DefKind::Closure) {
            let parent = tcx.typeck_root_def_id(owner);
            o.s("parent", &self.path(parent));
            let immediate = tcx.parent(owner);
            o.s("lexical_parent", &self.path(immediate));
        }
        if matches!(dk, DefKind::AssocFn | DefKind::AssocConst { .. }) {
            if let Some(imp) = tcx.impl_of_assoc(owner) {
                let st = tcx.type_of(imp).instantiate_identity().skip_norm_wip();
                o.s("impl_self", &self.ty_str(st));
                if let TyKind::Adt(ad, _) = st.kind() {
                    o.s("impl_self_adt", &self.path(ad.did()));
                }
                if let Some(tr) = tcx.impl_opt_trait_ref(imp) {
                    let tr = tr.instantiate_identity().skip_norm_wip();
                    o.s("impl_trait", &self.path(tr.def_id));
                    o.s("impl_trait_full", &ty::print::with_no_visible_paths!(ty::print::with_no_trimmed_paths!(format!("{}", tr.print_only_trait_path()))));
                }
                o.s("name", tcx.item_name(owner).as_str());
                o.b("auto_derived", tcx.is_automatically_derived(imp));
            } else if let Some(tr) = tcx.trait_of_assoc(owner) {
                o.s("trait_default_of", &self.path(tr));
                o.s("name", tcx.item_name(owner).as_str());
            }
        }
        // locals
        let mut locals = vec![];
        for (_l, decl) in body.local_decls.iter_enumerated() {
            let mut lo = Obj::new();
            lo.s("ty", &self.ty_str(decl.ty));
            let peeled = decl.ty.peel_refs();
            if let TyKind::Adt(ad, _) = peeled.kind() {
                lo.s("adt", &self.path(ad.did()));
            }
            if let TyKind::Closure(cd, _) = peeled.kind() {
                lo.s("closure", &self.path(*cd));
            }
            locals.push(lo.done());
        }
        o.raw("locals", &arr(&locals));
        // debug names
        let mut dbg = vec![];
        for vdi in body.var_debug_info.iter() {
            let mut d = Obj::new();
            d.s("name", vdi.name.as_str());
            match &vdi.value {
                rustc_middle::mir::VarDebugInfoContents::Place(p) => {
                    let x = self.place(body, p);
                    d.raw("place", &x);
                }
                rustc_middle::mir::VarDebugInfoContents::Const(_) => {
                    d.b("const", true);
                }
            }
            if let Some(a) = vdi.argument_index {
                d.n("arg", a as i128);
            }
            dbg.push(d.done());
        }
        o.raw("debug", &arr(&dbg));
        // blocks
        let sm = tcx.sess.source_map();
        let mut blocks = vec![];
        for (_bb, data) in body.basic_blocks.iter_enumerated() {
            let mut bo = Obj::new();
            bo.b("cleanup", data.is_cleanup);
            let mut stmts = vec![];
            for st in data.statements.iter() {
                let line = sm.lookup_char_pos(st.source_info.span.lo()).line as i128;
                match &st.kind {
                    StatementKind::Assign(b) => {
                        let (p, rv) = &**b;
                        let mut so = Obj::new();
                        so.s("k", "assign");
                        let x = self.place(body, p);
                        so.raw("place", &x);
                        let r = self.rvalue(body, owner, rv);
                        so.raw("rv", &r);
                        so.n("line", line);
                        so.b("exp", st.source_info.span.from_expansion());
                        stmts.push(so.done());
                    }
                    StatementKind::SetDiscriminant { place, variant_index } => {
                        let mut so = Obj::new();
                        so.s("k", "setdiscr");
                        let x = self.place(body, place);
                        so.raw("place", &x);
                        so.n("v", variant_index.as_u32() as i128);
                        so.n("line", line);
                        stmts.push(so.done());
                    }
                    _ => {}
                }
            }
            bo.raw("stmts", &arr(&stmts));
            let term = data.terminator();
            let mut to = Obj::new();
            let tline = sm.lookup_char_pos(term.source_info.span.lo()).line as i128;
            to.n("line", tline);
            to.b("exp", term.source_info.span.from_expansion());
            match &term.kind {
                TerminatorKind::Goto { target } => {
                    to.s("k", "goto");
                    to.n("target", target.as_u32() as i128);
                }
                TerminatorKind::SwitchInt { discr, targets } => {
                    to.s("k", "switch");
                    let d = self.operand(body, owner, discr);
                    to.raw("discr", &d);
                    to.s("discr_ty", &self.ty_str(discr.ty(&body.local_decls, tcx)));
                    let mut ts = vec![];
                    for (v, t) in targets.iter() {
                        let vs = if v <= i128::MAX as u128 { v.to_string() } else { esc(&v.to_string()) };
                        ts.push(format!("[{},{}]", vs, t.as_u32()));
                    }
                    to.raw("targets", &arr(&ts));
                    to.n("otherwise", targets.otherwise().as_u32() as i128);
                }
                TerminatorKind::UnwindResume => {
                    to.s("k", "resume");
                }
                TerminatorKind::UnwindTerminate(_) => {
                    to.s("k", "abort");
                }
                TerminatorKind::Return => {
                    to.s("k", "return");
                }
                TerminatorKind::Unreachable => {
                    to.s("k", "unreachable");
                }
                TerminatorKind::Drop { place, target, unwind, .. } => {
                    to.s("k", "drop");
                    let x = self.place(body, place);
                    to.raw("place", &x);
                    to.n("target", target.as_u32() as i128);
                    if let UnwindAction::Cleanup(u) = unwind {
                        to.n("unwind", u.as_u32() as i128);
                    }
                }
                TerminatorKind::Call { func, args, destination, target, unwind, fn_span, .. } => {
                    to.s("k", "call");
                    let mut co = Obj::new();
                    self.callee(body, owner, func, &mut co);
                    if !matches!(func, Operand::Constant(_)) {
                        let f = self.operand(body, owner, func);
                        co.raw("op", &f);
                    }
                    to.raw("func", &co.done());
                    let mut av = vec![];
                    for a in args.iter() {
                        av.push(self.operand(body, owner, &a.node));
                    }
                    to.raw("args", &arr(&av));
                    let x = self.place(body, destination);
                    to.raw("dest", &x);
                    if let Some(t) = target {
                        to.n("target", t.as_u32() as i128);
                    }
                    if let UnwindAction::Cleanup(u) = unwind {
                        to.n("unwind", u.as_u32() as i128);
                    }
                    to.b("fn_exp", fn_span.from_expansion());
                    to.n("fn_line", sm.lookup_char_pos(fn_span.lo()).line as i128);
                }
                TerminatorKind::Assert { cond, expected, msg, target, unwind } => {
                    to.s("k", "assert");
                    let c = self.operand(body, owner, cond);
                    to.raw("cond", &c);
                    to.b("expected", *expected);
                    let (mk, extra): (&str, String) = match &**msg {
                        AssertKind::BoundsCheck { .. } => ("BoundsCheck", String::new()),
                        AssertKind::Overflow(op, ..) => ("Overflow", format!("{:?}", op)),
                        AssertKind::OverflowNeg(_) => ("OverflowNeg", String::new()),
                        AssertKind::DivisionByZero(_) => ("DivisionByZero", String::new()),
                        AssertKind::RemainderByZero(_) => ("RemainderByZero", String::new()),
                        AssertKind::MisalignedPointerDereference { .. } => ("Misaligned", String::new()),
                        AssertKind::NullPointerDereference => ("NullDeref", String::new()),
                        _ => ("Other", String::new()),
                    };
                    to.s("msg", mk);
                    if !extra.is_empty() {
                        to.s("op", &extra);
                    }
                    if let AssertKind::BoundsCheck { len, index } = &**msg {
                        let l = self.operand(body, owner, len);
                        let i = self.operand(body, owner, index);
                        to.raw("len", &l);
                        to.raw("index", &i);
                    }
                    if let AssertKind::Overflow(_, a, b) = &**msg {
                        let l = self.operand(body, owner, a);
                        let i = self.operand(body, owner, b);
                        to.raw("a", &l);
                        to.raw("b", &i);
                    }
                    to.n("target", target.as_u32() as i128);
                    if let UnwindAction::Cleanup(u) = unwind {
                        to.n("unwind", u.as_u32() as i128);
                    }
                }
                TerminatorKind::FalseEdge { real_target, .. } => {
                    to.s("k", "goto");
                    to.n("target", real_target.as_u32() as i128);
                }
                TerminatorKind::FalseUnwind { real_target, .. } => {
                    to.s("k", "goto");
                    to.n("target", real_target.as_u32() as i128);
                }
                other => {
                    to.s("k", "otherterm");
                    to.s("s", &format!("{:?}", other).chars().take(80).collect::<String>());
                }
            }
            bo.raw("term", &to.done());
            blocks.push(bo.done());
        }
        o.raw("blocks", &arr(&blocks));
        o.done()
    }

    fn adt(&mut self, did: DefId) -> String {
        let tcx = self.tcx;
        let def = tcx.adt_def(did);
        let mut o = Obj::new();
        o.s("path", &self.path(did));
        o.b("local", did.is_local());
        o.s("kind", if def.is_enum() { "enum" } else if def.is_union() { "union" } else { "struct" });
        o.s("crate", tcx.crate_name(did.krate).as_str());
        if Some(did) == tcx.lang_items().unsafe_cell_type() {
            o.b("unsafe_cell", true);
        }
        let mut vs = vec![];
        for v in def.variants().iter() {
            let mut vo = Obj::new();
            vo.s("name", v.name.as_str());
            let mut fs = vec![];
            for f in v.fields.iter() {
                let mut fo = Obj::new();
                fo.s("name", f.name.as_str());
                fo.s("vis", &format!("{:?}", f.vis));
                let fty = tcx.type_of(f.did).instantiate_identity().skip_norm_wip();
                fo.s("ty", &self.ty_str(fty));
                let tt = self.ty_tree(fty, 0);
                fo.raw("tree", &tt);
                fs.push(fo.done());
            }
            vo.raw("fields", &arr(&fs));
            vs.push(vo.done());
        }
        o.raw("variants", &arr(&vs));
        o.done()
    }
}

struct Cb;

impl rustc_driver::Callbacks for Cb {
    fn after_analysis<'tcx>(&mut self, _c: &rustc_interface::interface::Compiler, tcx: TyCtxt<'tcx>) -> Compilation {
        let out_dir = match std::env::var("COMPASSFACTS_OUT") {
            Ok(d) => d,
            Err(_) => return Compilation::Continue,
        };
        let krate = tcx.crate_name(rustc_hir::def_id::LOCAL_CRATE).to_string();
        let ctype = format!("{:?}", tcx.crate_types().first());
        let is_test = tcx.sess.opts.test;
        let kind = if is_test {
            "test".to_string()
        } else if ctype.contains("Executable") {
            "bin".to_string()
        } else if ctype.contains("ProcMacro") {
            "procmacro".to_string()
        } else {
            "lib".to_string()
        };
        let mut cx = Cx { tcx, adt_queue: vec![], adt_seen: std::collections::HashSet::new() };
        let mut bodies = vec![];
        let mut consts = vec![];
        for &did in tcx.mir_keys(()).iter() {
            let dk = tcx.def_kind(did.to_def_id());
            match dk {
                DefKind::Fn | DefKind::AssocFn | DefKind::Closure => {
                    if tcx.is_coroutine(did.to_def_id()) {
                        continue;
                    }
                    let body = tcx.optimized_mir(did.to_def_id());
                    let k = match dk {
                        DefKind::Fn => "fn",
                        DefKind::AssocFn => "assocfn",
                        _ => "closure",
                    };
                    bodies.push(cx.body(did, body, k));
                    let proms = tcx.promoted_mir(did.to_def_id());
                    for (pi, pb) in proms.iter_enumerated() {
                        let mut pj = cx.body(did, pb, "promoted");
                        // tag with the promoted index: insert after the opening brace
                        pj.insert_str(1, &format!("\"promoted_idx\":{},", pi.as_u32()));
                        bodies.push(pj);
                    }
                }
                DefKind::Const { .. } | DefKind::AssocConst { .. } | DefKind::Static { .. } => {
                    let mut o = Obj::new();
                    o.s("path", &cx.path(did.to_def_id()));
                    o.s("kind", &format!("{:?}", dk));
                    let ty = tcx.type_of(did.to_def_id()).instantiate_identity().skip_norm_wip();
                    o.s("ty", &cx.ty_str(ty));
                    let tt = cx.ty_tree(ty, 0);
                    o.raw("tree", &tt);
                    if let DefKind::Static { mutability, .. } = dk {
                        o.b("mut", mutability.is_mut());
                    }
                    cx.span(tcx.def_span(did.to_def_id()), &mut o);
                    // try to evaluate scalar-valued consts (newtype wrappers over f64/ints are scalars)
                    if !matches!(dk, DefKind::Static { .. }) && !tcx.generics_of(did.to_def_id()).requires_monomorphization(tcx) {
                        let r = std::panic::catch_unwind(std::panic::AssertUnwindSafe(|| tcx.const_eval_poly(did.to_def_id())));
                        if let Ok(Ok(val)) = r {
                            if let Some(si) = val.try_to_scalar_int() {
                                let size = si.size();
                                let bits = si.to_bits(size);
                                o.s("bits", &bits.to_string());
                                o.n("size", size.bytes() as i128);
                                if size.bytes() == 8 {
                                    o.s("as_f64", &format!("{:?}", f64::from_bits(bits as u64)));
                                }
                            }
                        }
                    }
                    consts.push(o.done());
                    // const bodies (for aggregate consts) via mir_for_ctfe
                    if !matches!(dk, DefKind::Static { .. }) {
                        let r = std::panic::catch_unwind(std::panic::AssertUnwindSafe(|| tcx.mir_for_ctfe(did.to_def_id())));
                        if let Ok(body) = r {
                            bodies.push(cx.body(did, body, "const"));
                        }
                    }
                }
                _ => {}
            }
        }
        // local ADTs
        let mut adts = vec![];
        for id in tcx.hir_free_items() {
            let did = id.owner_id.to_def_id();
            if matches!(tcx.def_kind(did), DefKind::Struct | DefKind::Enum | DefKind::Union) {
                if cx.adt_seen.insert(did) {
                    cx.adt_queue.push(did);
                }
            }
        }
        while let Some(d) = cx.adt_queue.pop() {
            let a = cx.adt(d);
            adts.push(a);
        }
        // impls of traits (local impls)
        let mut impls = vec![];
        for id in tcx.hir_free_items() {
            let did = id.owner_id.to_def_id();
            if let DefKind::Impl { of_trait } = tcx.def_kind(did) {
                let mut o = Obj::new();
                let st = tcx.type_of(did).instantiate_identity().skip_norm_wip();
                o.s("self_ty", &cx.ty_str(st));
                if let TyKind::Adt(ad, _) = st.kind() {
                    o.s("self_adt", &cx.path(ad.did()));
                }
                if of_trait {
                    if let Some(tr) = tcx.impl_opt_trait_ref(did) {
                        let tr = tr.instantiate_identity().skip_norm_wip();
                        o.s("trait", &cx.path(tr.def_id));
                        o.s("trait_full", &ty::print::with_no_visible_paths!(ty::print::with_no_trimmed_paths!(format!("{}", tr.print_only_trait_path()))));
                    }
                }
                o.b("auto_derived", tcx.is_automatically_derived(did));
                let mut items = vec![];
                for it in tcx.associated_items(did).in_definition_order() {
                    let mut io = Obj::new();
                    io.s("name", it.name().as_str());
                    io.s("path", &cx.path(it.def_id));
                    if let Some(t) = it.trait_item_def_id() {
                        io.s("trait_item", &cx.path(t));
                    }
                    items.push(io.done());
                }
                o.raw("items", &arr(&items));
                cx.span(tcx.def_span(did), &mut o);
                impls.push(o.done());
            }
        }
        // traits (local) with their method list
        let mut traits = vec![];
        for id in tcx.hir_free_items() {
            let did = id.owner_id.to_def_id();
            if let DefKind::Trait = tcx.def_kind(did) {
                let mut o = Obj::new();
                o.s("path", &cx.path(did));
                let mut items = vec![];
                for it in tcx.associated_items(did).in_definition_order() {
                    items.push(esc(it.name().as_str()));
                }
                o.raw("items", &arr(&items));
                traits.push(o.done());
            }
        }
        let mut root = Obj::new();
        root.s("crate", &krate);
        root.s("kind", &kind);
        root.s("nonce", &std::env::var("COMPASSFACTS_NONCE").unwrap_or_default());
        root.b("debug_assertions", tcx.sess.opts.debug_assertions);
        root.raw("bodies", &arr(&bodies));
        root.raw("consts", &arr(&consts));
        root.raw("adts", &arr(&adts));
        root.raw("impls", &arr(&impls));
        root.raw("traits", &arr(&traits));
        let s = root.done();
        let fname = format!("{}/{}-{}.json", out_dir, krate, kind);
        let tmp = format!("{}.tmp{}", fname, std::process::id());
        std::fs::write(&tmp, s.as_bytes()).expect("write facts");
        std::fs::rename(&tmp, &fname).expect("rename facts");
        let _ = BTreeMap::<u8, u8>::new();
        Compilation::Continue
    }
}

fn main() {
    let mut args: Vec<String> = std::env::args().collect();
    // RUSTC_WORKSPACE_WRAPPER: argv[1] is the real rustc path
    if args.len() > 1 && (args[1].ends_with("rustc") || args[1].contains("/rustc")) {
        args.remove(1);
    }
    args[0] = "rustc".to_string();
    let mut cb = Cb;
    rustc_driver::run_compiler(&args, &mut cb);
}
