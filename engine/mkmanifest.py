#!/usr/bin/env python3
"""regenerate /verif/MANIFEST.json from the property modules that exist"""
import json, os, sys
HERE = os.path.dirname(os.path.abspath(__file__))
VERIF = os.path.dirname(HERE)
sys.path.insert(0, os.path.join(HERE, "rules"))
props = [json.loads(l) for l in open(os.path.join(VERIF, "properties.jsonl"))]
NA = json.load(open(os.path.join(HERE, "not_applicable.json"))) if os.path.exists(os.path.join(HERE, "not_applicable.json")) else {}
LEVELS = json.load(open(os.path.join(HERE, "levels.json")))
checks, na = [], []
for p in props:
    pid = p["id"]
    mod = os.path.join(HERE, "rules", "props", pid + ".py")
    if os.path.exists(mod) and pid in LEVELS:
        lv = LEVELS[pid]
        checks.append({
            "property_id": pid,
            "quick_cmd": "./check %s quick" % pid,
            "thorough_cmd": "./check %s thorough" % pid,
            "evidence_file": "/verif/evidence/%s.json" % pid,
            "replay_cmd_template": "cat {path}",
            "engine": "compass-static",
            "level_claimed": {"category": "other", "text": lv["text"], "design_ref": "DESIGN.md section 4 (%s) and section 8" % pid},
            "level_note": lv["note"],
            "technique": lv["technique"],
        })
    else:
        na.append({"property_id": pid, "reason": NA.get(pid, "check not built yet (framework under construction; DESIGN.md section 4 lists the planned static rules)")})
m = {
    "version": 1,
    "setup_cmd": "./setup.sh",
    "hooks": {
        "guard": "nrel_routee_compass_verif",
        "enable": "no hooks: the checks are static; they read /repo's working tree through a rustc_private driver injected with RUSTC_WORKSPACE_WRAPPER under `cargo +nightly check`",
        "baseline_off_cmd": "cd /repo/rust && cargo test --workspace --no-fail-fast --offline",
        "source_commits": [],
        "add_only": True,
    },
    "engines": [
        {"name": "compass-static", "path": "/verif/engine", "serves_properties": [c["property_id"] for c in checks],
         "kind_free_text": "static analysis: rustc MIR/type fact extraction (engine/compassfacts, rustc_private) + repository-specific rules over resolved callees (engine/rules): value-flow terms, dominance/must-pass-through, trace-partitioned decision tables, exact rational evaluation of arithmetic, one-iteration loop transfer functions, unit typestate, who-may-call / interior-mutability / panic-site inventories; thorough tier additionally: the same rules on the release-profile MIR, rustdoc compile_fail witnesses with error codes (engine/witness), and a self-test that re-analyses seeded variants of the current tree in a scratch copy. routee-compass is never executed to decide a property and no solver is used."},
    ],
    "checks": checks,
    "notes": "Every property is claimed only through the structural clauses listed in DESIGN.md section 4/5; the checks decide those clauses (necessary conditions visible in the code on every path), not the runtime behaviour as a whole. Genuine defects found are in known_findings.json (findings + fixed). Seeded breaking changes used to test the checks are under seeded/.",
    "not_applicable": na,
}
json.dump(m, open(os.path.join(VERIF, "MANIFEST.json"), "w"), indent=1)
print("checks:", [c["property_id"] for c in checks], "n/a:", [x["property_id"] for x in na])
