//! E3 — type-level witnesses for NREL/routee-compass.
//!
//! Each witness is a pair: a `compile_fail,E…` doc test showing that a program which would violate a
//! structural clause of a property does not type-check (with the *expected* error code, so that a
//! merely wrong path cannot pass as "fails to compile"), and a compiling twin that differs only by the
//! offending line. The module names carry the property id so `cargo test --doc -- c14` selects them.

/// C14.R4 (who may construct): the interpolators can only be built by their validating constructors;
/// a struct literal from outside the module is rejected because of the private `_phantom` field.
///
/// ```compile_fail,E0451
/// use routee_compass_powertrain::routee::prediction::interpolation::interp::Interp2D;
/// let _i = Interp2D { x: vec![0.0, 1.0], y: vec![0.0, 1.0], f_xy: vec![vec![0.0, 1.0], vec![1.0, 2.0]], _phantom: std::marker::PhantomData };
/// ```
///
/// twin (compiles and validates):
/// ```
/// use routee_compass_powertrain::routee::prediction::interpolation::interp::Interp2D;
/// let i = Interp2D::new(vec![0.0, 1.0], vec![0.0, 1.0], vec![vec![0.0, 1.0], vec![1.0, 2.0]]);
/// assert!(i.is_ok());
/// let unsorted = Interp2D::new(vec![1.0, 0.0], vec![0.0, 1.0], vec![vec![0.0, 1.0], vec![1.0, 2.0]]);
/// assert!(unsorted.is_err());
/// ```
pub mod c14_interp_only_built_by_validating_constructor {}

/// C14.R4, 1-D and 3-D siblings of the witness above.
///
/// ```compile_fail,E0451
/// use routee_compass_powertrain::routee::prediction::interpolation::interp::Interp1D;
/// let _i = Interp1D { x: vec![0.0, 1.0], f_x: vec![0.0, 1.0], _phantom: std::marker::PhantomData };
/// ```
/// ```compile_fail,E0451
/// use routee_compass_powertrain::routee::prediction::interpolation::interp::Interp3D;
/// let _i = Interp3D { x: vec![], y: vec![], z: vec![], f_xyz: vec![], _phantom: std::marker::PhantomData };
/// ```
/// ```
/// use routee_compass_powertrain::routee::prediction::interpolation::interp::Interp1D;
/// assert!(Interp1D::new(vec![0.0, 1.0], vec![0.0, 1.0]).is_ok());
/// ```
pub mod c14_interp_1d_3d_only_built_by_validating_constructor {}

/// C09 / C03 / C08 (kind discipline of quantities): quantities of different kinds cannot be combined or
/// converted with the unit of another kind — the unit typestate rules (same kind, different unit) are the
/// remaining, non-type-level part and are decided by the MIR rules.
///
/// ```compile_fail,E0308
/// use routee_compass_core::model::unit::{Distance, Time};
/// let _x = Distance::new(1.0) + Time::new(1.0);
/// ```
/// ```compile_fail,E0308
/// use routee_compass_core::model::unit::{DistanceUnit, Time};
/// let _x = DistanceUnit::Meters.convert(&Time::new(1.0), &DistanceUnit::Miles);
/// ```
/// ```compile_fail,E0308
/// use routee_compass_core::model::unit::{DistanceUnit, TimeUnit, Distance};
/// let _x = DistanceUnit::Meters.convert(&Distance::new(1.0), &TimeUnit::Seconds);
/// ```
/// twin:
/// ```
/// use routee_compass_core::model::unit::{Distance, DistanceUnit};
/// let d = Distance::new(1.0) + Distance::new(2.0);
/// let _m = DistanceUnit::Kilometers.convert(&d, &DistanceUnit::Meters);
/// ```
pub mod c09_quantity_kinds_do_not_mix {}

/// C06.R1 (shared state is synchronised): everything the worker pool shares is `Sync`, i.e. the compiler has
/// checked that any interior mutability reachable from the application object is a synchronised cell; an
/// unsynchronised cell could not be shared (`Cell` witness).
///
/// ```
/// fn assert_sync<T: Sync + Send>() {}
/// assert_sync::<routee_compass::app::compass::compass_app::CompassApp>();
/// assert_sync::<routee_compass::app::search::search_app::SearchApp>();
/// assert_sync::<routee_compass::app::compass::response::response_sink::ResponseSink>();
/// ```
/// ```compile_fail,E0277
/// fn assert_sync<T: Sync>() {}
/// struct WithCell { _n: std::cell::Cell<u64>, _app: std::sync::Arc<routee_compass::app::search::search_app::SearchApp> }
/// assert_sync::<WithCell>();
/// ```
pub mod c06_shared_state_is_sync {}

/// C06.R3 (per-query instance is not shared by accident): `SearchInstance` is not `Clone`; each query builds its
/// own from the services.
///
/// ```compile_fail,E0277
/// fn assert_clone<T: Clone>() {}
/// assert_clone::<routee_compass_core::algorithm::search::search_instance::SearchInstance>();
/// ```
/// ```
/// fn assert_send<T: Send>() {}
/// assert_send::<routee_compass_core::algorithm::search::search_instance::SearchInstance>();
/// ```
pub mod c06_search_instance_not_clone {}

/// C11 / C03 (who may write the slot table): the feature→slot map of a `StateModel` is private; after
/// construction it can only grow through `extend`, which returns a new model.
///
/// ```compile_fail,E0616
/// use routee_compass_core::model::state::state_model::StateModel;
/// let m = StateModel::empty();
/// let _inner = &m.0;
/// ```
/// ```
/// use routee_compass_core::model::state::state_model::StateModel;
/// let m = StateModel::empty();
/// assert_eq!(m.len(), 0);
/// ```
pub mod c11_state_model_map_is_private {}

/// C19.R2 (the file can only be reached through its lock): the sink's file handle lives in an
/// `Arc<Mutex<File>>`; writing without taking the lock does not type-check.
///
/// ```compile_fail,E0599
/// use std::io::Write;
/// use std::sync::{Arc, Mutex};
/// let f: Arc<Mutex<std::fs::File>> = Arc::new(Mutex::new(std::fs::File::create(std::env::temp_dir().join("w")).unwrap()));
/// f.write_all(b"row\n").unwrap();
/// ```
/// ```
/// use routee_compass::app::compass::response::response_sink::ResponseSink;
/// fn field_types(s: &ResponseSink) {
///     if let ResponseSink::File { file, iterations, .. } = s {
///         let _f: &std::sync::Arc<std::sync::Mutex<std::fs::File>> = file;
///         let _i: &std::sync::Arc<std::sync::Mutex<u64>> = iterations;
///     }
/// }
/// let _ = field_types;
/// ```
pub mod c19_file_behind_mutex {}
