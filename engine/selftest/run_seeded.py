#!/usr/bin/env python3
"""run_seeded.py [ids...] : apply each seeded change under /verif/seeded to /repo, run the checks,
revert, and record which checks fire.  Writes seeded/RESULTS.json and updates each meta.json."""
import json, os, subprocess, sys, re
VERIF = "/verif"
SEED = os.path.join(VERIF, "seeded")
manifest = json.load(open(os.path.join(VERIF, "MANIFEST.json")))
claimed = [c["property_id"] for c in manifest["checks"]]
ids = sys.argv[1:] or sorted(os.listdir(SEED))
ids = [i for i in ids if os.path.isdir(os.path.join(SEED, i))]
all_checks = os.environ.get("ALL_CHECKS") == "1"
results = {}
try:
    results = json.load(open(os.path.join(SEED, "RESULTS.json")))
except Exception:
    pass
assert subprocess.run("git -C /repo status --short", shell=True, capture_output=True, text=True).stdout.strip() == "", "repo dirty"
for sid in ids:
    d = os.path.join(SEED, sid)
    meta = json.load(open(os.path.join(d, "meta.json")))
    prop = meta["property"]
    r = subprocess.run("git -C /repo apply %s/patch.diff" % d, shell=True, capture_output=True, text=True)
    if r.returncode != 0:
        results[sid] = {"applies": False, "error": r.stderr[-300:]}
        print(sid, "PATCH DOES NOT APPLY", r.stderr[-200:])
        continue
    try:
        checks = claimed if all_checks else ([prop] if prop in claimed else [])
        fired = {}
        for c in checks:
            p = subprocess.run("./check %s quick" % c, shell=True, cwd=VERIF, capture_output=True, text=True)
            viol = [l.strip() for l in p.stdout.splitlines() if l.startswith("  [")]
            if p.returncode == 1 and "VIOLATION property=" in p.stdout:
                fired[c] = viol[:4]
            elif p.returncode not in (0, 1):
                fired[c] = ["CHECK ERROR exit %d: %s" % (p.returncode, p.stdout[-300:])]
        results[sid] = {"applies": True, "property": prop, "own_check_built": prop in claimed, "detected_by": sorted(fired), "reports": fired}
        meta["detected_by"] = sorted(fired)
        json.dump(meta, open(os.path.join(d, "meta.json"), "w"), indent=1)
        print(sid, "own-check:", ("FIRED" if prop in fired else ("missed" if prop in claimed else "n/a")), "| fired:", sorted(fired))
    finally:
        subprocess.run("git -C /repo checkout -- .", shell=True)
json.dump(results, open(os.path.join(SEED, "RESULTS.json"), "w"), indent=1, sort_keys=True)
