#!/usr/bin/env python3
"""run_seeded.py [-j N] [ids...] : developer tool (never a registered command).
Applies each seeded change under /verif/seeded to a *scratch copy* of /repo (under /tmp, removed at the end), runs the checks
against that copy (VERIF_REPO / VERIF_CACHE / VERIF_EVIDENCE redirected, so /repo, /verif/.cache and /verif/evidence are not
touched) and records which checks fire in seeded/RESULTS.json and in each meta.json.
ALL_CHECKS=1 runs all claimed checks per change, otherwise only the change's own property."""
import json, os, subprocess, sys, shutil
from concurrent.futures import ThreadPoolExecutor

VERIF = os.path.abspath(os.path.join(os.path.dirname(os.path.abspath(__file__)), "..", ".."))   # /verif, or a snapshot of it (vp run)
SEED = os.path.join(VERIF, "seeded")
ROOT = "/tmp/verif-seedrun-%d" % os.getpid()
BASE = os.path.join(ROOT, "base")   # pristine export of /repo's HEAD: immune to a patch being tried on /repo meanwhile
manifest = json.load(open(os.path.join(VERIF, "MANIFEST.json")))
claimed = [c["property_id"] for c in manifest["checks"]]
args = sys.argv[1:]
jobs = 4
if args and args[0] == "-j":
    jobs = int(args[1]); args = args[2:]
ids = args or sorted(os.listdir(SEED))
ids = [i for i in ids if os.path.isdir(os.path.join(SEED, i)) and os.path.exists(os.path.join(SEED, i, "meta.json"))]
all_checks = os.environ.get("ALL_CHECKS") == "1"
results = {}
try:
    results = json.load(open(os.path.join(SEED, "RESULTS.json")))
except Exception:
    pass


def sh(cmd, **kw):
    return subprocess.run(cmd, shell=True, capture_output=True, text=True, **kw)


def worker(slot, todo):
    base = os.path.join(ROOT, "w%d" % slot)
    repo = os.path.join(base, "repo")
    env = dict(os.environ, VERIF_REPO=repo, VERIF_CACHE=os.path.join(base, "cache"), VERIF_EVIDENCE=os.path.join(base, "evidence"))
    os.makedirs(repo, exist_ok=True)
    out = {}
    for sid in todo:
        d = os.path.join(SEED, sid)
        meta = json.load(open(os.path.join(d, "meta.json")))
        prop = meta["property"]
        kind = meta.get("kind", "breaking")
        sh("rsync -a --delete --exclude target --exclude .git %s/rust/ %s/rust/" % (BASE, repo))
        r = sh("cd %s && git apply --unsafe-paths %s/patch.diff" % (repo, d))
        if r.returncode != 0:
            out[sid] = {"applies": False, "error": r.stderr[-300:]}
            print(sid, "PATCH DOES NOT APPLY", r.stderr[-200:], flush=True)
            continue
        checks = claimed if all_checks else ([prop] if prop in claimed else [])
        fired = {}
        if all_checks:
            # all properties in one process (facts extracted and loaded once)
            p = subprocess.run("python3 engine/selftest/matrix.py", shell=True, cwd=VERIF, capture_output=True, text=True, env=env)
            line = [l for l in p.stdout.splitlines() if l.startswith("MATRIX ")]
            if not line:
                fired = {"*": ["MATRIX ERROR exit %d: %s" % (p.returncode, (p.stdout + p.stderr)[-300:])]}
            else:
                m = json.loads(line[-1][7:])
                fired = {c: v[:4] for c, v in m.items() if v}
            checks = []
        for c in checks:
            p = subprocess.run("./check %s quick" % c, shell=True, cwd=VERIF, capture_output=True, text=True, env=env)
            viol = [l.strip()[:300] for l in p.stdout.splitlines() if l.startswith("  [")]
            if p.returncode == 1 and "VIOLATION property=" in p.stdout:
                fired[c] = viol[:4]
            elif p.returncode not in (0, 1):
                fired[c] = ["CHECK ERROR exit %d: %s" % (p.returncode, p.stdout[-300:])]
        out[sid] = {"applies": True, "property": prop, "kind": kind, "detected_by": sorted(fired), "reports": fired}
        meta["detected_by"] = sorted(fired)
        json.dump(meta, open(os.path.join(d, "meta.json"), "w"), indent=1)
        tag = ("FIRED" if prop in fired else "missed") if kind == "breaking" else ("silent" if not fired else "ALARM")
        print(sid, kind, "own-check:", tag, "| fired:", sorted(fired), flush=True)
        try:
            json.dump(out, open(os.path.join(base, "partial.json"), "w"))
        except Exception:
            pass
    return out


os.makedirs(BASE, exist_ok=True)
# the committed state of /repo (working-tree edits such as a patch being tried are not picked up)
r0 = sh("git -C /repo archive HEAD rust | tar -x -C %s" % BASE)
if r0.returncode != 0:
    print("cannot export /repo HEAD:", r0.stderr[-300:])
    sys.exit(2)
chunks = [ids[i::jobs] for i in range(jobs)]
try:
    with ThreadPoolExecutor(max_workers=jobs) as ex:
        for res in ex.map(lambda a: worker(*a), list(enumerate(chunks))):
            results.update(res)
finally:
    shutil.rmtree(ROOT, ignore_errors=True)
json.dump(results, open(os.path.join(SEED, "RESULTS.json"), "w"), indent=1, sort_keys=True)
