#!/bin/bash
# trypatch.sh <patch.diff> <Cxx> [Cyy ...] : apply a patch to /repo, run the given checks, always revert
P=$1; shift
cd /repo && git status --short | grep -q . && { echo "repo dirty"; exit 2; }
git -C /repo apply "$P" || { echo "patch does not apply"; exit 2; }
for c in "$@"; do (cd /verif && ./check $c quick 2>&1 | tail -12; echo "exit=${PIPESTATUS[0]}"); done
git -C /repo checkout -- . 
