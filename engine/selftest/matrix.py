#!/usr/bin/env python3
"""matrix.py [Cxx ...]: developer tool. Extracts the fact base of VERIF_REPO once and evaluates the quick-tier rules of the given
properties (default: all claimed) in one process; prints one JSON object {property: [violation lines not covered by
known_findings.json]}.  Same rule evaluation and same known-finding matching as ./check, without rewriting evidence."""
import json, os, sys, importlib
HERE = os.path.dirname(os.path.abspath(__file__))
sys.path.insert(0, os.path.join(HERE, "..", "rules"))
import run, core

def main():
    manifest = json.load(open(os.path.join(run.VERIF, "MANIFEST.json")))
    pids = sys.argv[1:] or [c["property_id"] for c in manifest["checks"]]
    fdir, st = run.extract("dev")
    F = core.Facts(fdir)
    known = {}
    for k in json.load(open(os.path.join(run.VERIF, "known_findings.json"))).get("findings", []):
        known.setdefault(k.get("property"), set()).add(k["key"])
    out = {}
    for pid in pids:
        try:
            ctx = run.run_rules(pid, "quick", F)
            new = [v for v in ctx.violations if v["key"] not in known.get(pid, set())]
            out[pid] = ["[%s] %s @ %s: %s" % (v["rule"], v["instance"], v["where"], v["message"][:220]) for v in new]
        except Exception as e:
            out[pid] = ["CHECK ERROR %s: %s" % (type(e).__name__, str(e)[:200])]
    print("MATRIX " + json.dumps(out))

if __name__ == "__main__":
    main()
