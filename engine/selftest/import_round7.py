#!/usr/bin/env python3
"""import_round5.py Cxx : copy the verified round-5 deliverables of /tmp/wt7/Cxx-out (a1 -> Cxx-f1 breaking; n1 -> Cxx-v1 neutral) into /verif/seeded"""
import json, os, re, shutil, sys
pid = sys.argv[1]
base = "/tmp/wt7/%s-out" % pid
log = open(os.path.join(base, "verify.log")).read()
res = dict(re.findall(r"^RESULT (\w+) (.*)$", log, re.M))
for m in ("a1", "n1"):
    src = os.path.join(base, m)
    if not os.path.exists(os.path.join(src, "patch.diff")):
        print(pid, m, "missing"); continue
    r = res.get(m, "")
    if m.startswith("a"):
        ok = r.startswith("tests_exit=0") and "demo_without_patch_exit=0" in r and "demo_with_patch_exit=0" not in r and "demo_with_patch_exit=99" not in r
    else:
        ok = r.startswith("tests_exit=0")
    if not ok:
        print(pid, m, "NOT VERIFIED:", r); continue
    new_id = {"a1": "f1", "n1": "v1"}[m]
    dst = "/verif/seeded/%s-%s" % (pid, new_id)
    if os.path.exists(dst):
        shutil.rmtree(dst)
    os.makedirs(dst)
    shutil.copy(os.path.join(src, "patch.diff"), dst)
    if os.path.exists(os.path.join(src, "README.md")):
        shutil.copy(os.path.join(src, "README.md"), dst)
    if os.path.isdir(os.path.join(src, "demo")):
        shutil.copytree(os.path.join(src, "demo"), os.path.join(dst, "demo"), ignore=shutil.ignore_patterns("target", "Cargo.lock"))
    readme = open(os.path.join(dst, "README.md")).read() if os.path.exists(os.path.join(dst, "README.md")) else ""
    first = [l.strip() for l in readme.splitlines() if l.strip()][:1]
    meta = {
        "property": pid,
        "id": "%s-%s" % (pid, new_id),
        "kind": "breaking" if m.startswith("a") else "neutral",
        "round": 7,
        "summary": first[0][:300] if first else "",
        "origin": "written by a fresh sub-agent given only the property text and a scratch worktree (/tmp/wt7/%s, HEAD 996c404 incl. the fix commits)" % pid,
        "confirmed": {"how": "verify7.sh in the scratch worktree: git apply; cargo test --workspace --offline; (breaking: run demo; git checkout; run demo)", "result": r},
        "detected_by": [],
    }
    if m.startswith("a"):
        meta["demo_note"] = "demo/Cargo.toml path-depends on /tmp/wt7/%s/rust/...; to re-run, point it at a checkout with the patch applied and copy rust/Cargo.lock next to it" % pid
    else:
        meta["expectation"] = "behaviour-preserving refactoring: every check must stay silent"
    json.dump(meta, open(os.path.join(dst, "meta.json"), "w"), indent=1)
    print("imported", dst, meta["kind"])
