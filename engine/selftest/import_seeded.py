#!/usr/bin/env python3
"""import_seeded.py Cxx mK "<site>" "<breaks>" "<needs>" : copy a verified seeded change from /tmp/wt into /verif/seeded"""
import json, os, re, shutil, sys
pid, m, site, breaks, needs = sys.argv[1:6]
src = "/tmp/wt/%s-out/%s" % (pid, m)
dst = "/verif/seeded/%s-%s" % (pid, m)
log = open(os.path.join(src, "verify.log")).read()
res = re.findall(r"^RESULT (.*)$", log, re.M)[-1]
assert res == "tests_exit=0 demo_with_patch_exit=1 demo_without_patch_exit=0" or "demo_with_patch_exit=101" in res, res
if os.path.exists(dst):
    shutil.rmtree(dst)
os.makedirs(dst)
shutil.copy(os.path.join(src, "patch.diff"), dst)
shutil.copy(os.path.join(src, "README.md"), dst)
if os.path.isdir(os.path.join(src, "demo")):
    shutil.copytree(os.path.join(src, "demo"), os.path.join(dst, "demo"), ignore=shutil.ignore_patterns("target", "Cargo.lock"))
# demos path-depend on the generating worktree; record that so they can be re-pointed
meta = {
    "property": pid,
    "id": "%s-%s" % (pid, m),
    "site": site,
    "breaks": breaks,
    "needs_to_manifest": needs,
    "origin": "written by a fresh sub-agent given only the property text and a scratch worktree (/tmp/wt/%s)" % pid,
    "confirmed": {
        "how": "engine/selftest verify: in the scratch worktree: git apply patch; cargo test --workspace --offline; run demo; git checkout; run demo",
        "result": res,
        "tests_pass_with_patch": True,
        "demo_fails_with_patch": True,
        "demo_passes_without_patch": True,
    },
    "demo_note": "demo/Cargo.toml path-depends on /tmp/wt/%s/rust/...; to re-run, replace that prefix by a checkout with the patch applied and copy rust/Cargo.lock next to it" % pid,
    "detected_by": [],
}
json.dump(meta, open(os.path.join(dst, "meta.json"), "w"), indent=1)
print("imported", dst)
