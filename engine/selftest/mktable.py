#!/usr/bin/env python3
"""mktable.py: regenerate the table of DESIGN.md section 8.6 from seeded/RESULTS.json (developer tool)."""
import json, os, re
V = "/verif"
res = json.load(open(os.path.join(V, "seeded", "RESULTS.json")))
rows = []
stats = {"breaking": [0, 0], "neutral": [0, 0]}
for sid in sorted(res):
    r = res[sid]
    if not r.get("applies"):
        rows.append("| %s | – | patch no longer applies | – | – |" % sid)
        continue
    meta = json.load(open(os.path.join(V, "seeded", sid, "meta.json")))
    kind = r.get("kind", "breaking")
    summ = (meta.get("summary") or "").strip().splitlines()[0] if meta.get("summary") else ""
    summ = re.sub(r"^#\s*", "", summ)
    summ = re.sub(r"^C\d\d\s*/\s*\w+\s*[—–-]+\s*", "", summ)[:110].replace("|", "/")
    if not summ:
        try:
            rd = open(os.path.join(V, "seeded", sid, "README.md")).read().strip().splitlines()
            summ = re.sub(r"^#\s*", "", rd[0])[:110].replace("|", "/") if rd else ""
        except Exception:
            summ = ""
    det = r.get("detected_by", [])
    own = r["property"] in det
    others = [d for d in det if d != r["property"]]
    first = ""
    if det:
        rep = r.get("reports", {}).get(r["property"] if own else det[0], [])
        m = re.match(r"\[(C\d\d\.\w+)\] (\S+)", rep[0]) if rep else None
        first = "%s %s" % (m.group(1), m.group(2)) if m else ""
    stats[kind][1] += 1
    if kind == "breaking":
        stats[kind][0] += 1 if own else 0
        rows.append("| %s | breaking | %s | %s%s | %s |" % (sid, summ, "**own**" if own else "MISSED by own check", (" + " + ",".join(others)) if others else "", first[:70]))
    else:
        stats[kind][0] += 0 if det else 1
        rows.append("| %s | neutral | %s | %s | %s |" % (sid, summ, "silent (all 20 checks)" if not det else "FALSE ALARM: " + ",".join(det), first[:70]))
hdr = ["| change | kind | what it does | checks that fire | first report |", "|---|---|---|---|---|"]
text = "\n".join(["<!-- SEEDED_TABLE_BEGIN -->", "Breaking changes caught by their own property's check: **%d / %d**. Behaviour-preserving refactorings on which all 20 checks stay silent: **%d / %d**." % (stats["breaking"][0], stats["breaking"][1], stats["neutral"][0], stats["neutral"][1]), ""] + hdr + rows + ["<!-- SEEDED_TABLE_END -->"])
p = os.path.join(V, "DESIGN.md")
s = open(p).read()
if "SEEDED_TABLE_PLACEHOLDER" in s:
    s = s.replace("SEEDED_TABLE_PLACEHOLDER", text)
else:
    s = re.sub(r"<!-- SEEDED_TABLE_BEGIN -->.*?<!-- SEEDED_TABLE_END -->", lambda m: text, s, flags=re.S)
open(p, "w").write(s)
print(stats)
