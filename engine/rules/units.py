"""Unit typestate: every quantity term carries the term of the unit it is expressed in.

An obligation arises wherever the code pairs a quantity with a unit: two adjacent call
arguments (value: Q, unit: QUnit), a `(value, unit)` tuple, or the receiver of
`QUnit::convert(value, target)` (the value must be expressed in the receiver unit).
The check compares the *origin term* of the unit with the tag inferred for the value.
Nothing is executed; tags are syntactic value-flow terms."""
import re

from core import *

U = "routee_compass_core::model::unit::"
Q2U = {
    U + "distance::Distance": U + "distance_unit::DistanceUnit",
    U + "time::Time": U + "time_unit::TimeUnit",
    U + "speed::Speed": U + "speed_unit::SpeedUnit",
    U + "energy::Energy": U + "energy_unit::EnergyUnit",
    U + "energy_rate::EnergyRate": U + "energy_rate_unit::EnergyRateUnit",
    U + "grade::Grade": U + "grade_unit::GradeUnit",
    U + "weight::Weight": U + "weight_unit::WeightUnit",
}
UNITS = set(Q2U.values())
ANY = ("anyunit",)

# fields whose unit is fixed by the data format / by construction (checked separately where noted)
DECLARED_FIELDS = {
    ("routee_compass_core::model::network::edge::Edge", "distance"): ("item", U + "builders::BASE_DISTANCE_UNIT"),
}
# struct fields expressed in a sibling field's unit: (adt suffix, field) -> sibling unit field
SIBLING_FIELDS = {
    ("speed_traversal_engine::SpeedTraversalEngine", "max_speed"): "speed_unit",
    ("speed_traversal_engine::SpeedTraversalEngine", "speed_table"): "speed_unit",
    ("bev::BEV", "battery_capacity"): "battery_energy_unit",
    ("bev::BEV", "starting_battery_energy"): "battery_energy_unit",
    ("phev::PHEV", "battery_capacity"): "battery_energy_unit",
    ("phev::PHEV", "starting_battery_energy"): "battery_energy_unit",
    ("prediction_model_record::PredictionModelRecord", "ideal_energy_rate"): "energy_rate_unit",
}


SIBLING_VARIANT_FIELDS = {
    ("turn_delay_model::TurnDelayModel", "TabularDiscrete", "table"): "time_unit",
}


def peel(ty):
    ty = ty.strip()
    changed = True
    while changed:
        changed = False
        while ty.startswith("&"):
            ty = ty[1:].strip()
            if ty.startswith("mut "):
                ty = ty[4:].strip()
            if ty.startswith("'"):
                ty = ty.split(" ", 1)[1] if " " in ty else ty
            changed = True
        m = re.match(r"^std::(?:sync::Arc|boxed::Box|rc::Rc)<(.*)>$", ty)
        if m and "," not in _top(m.group(1)):
            ty = m.group(1).strip()
            changed = True
    return ty


def _top(s):
    """s with bracketed parts blanked (to look for top-level commas)"""
    out, depth = "", 0
    for ch in s:
        if ch in "<([":
            depth += 1
        elif ch in ">)]":
            depth -= 1
        elif depth == 0:
            out += ch
    return out


def op_ty(op):
    return peel(op.get("ty", "")) if isinstance(op, dict) else ""


class UnitTags:
    def __init__(self, F, body, summaries=None, depth=0):
        self.F = F
        self.body = body
        self.tm = Terms(body)
        self.summaries = summaries if summaries is not None else {}
        self.depth = depth
        self.types = {}
        self._collect_types()

    # -- normalisation ---------------------------------------------------------
    def norm(self, t):
        t = nosite(deep_strip(t))

        def item(x):
            if x[0] == "item":
                b = self.F.bodies.get("const " + x[1])
                if b is not None:
                    v = nosite(deep_strip(Terms(b).return_term()))
                    if v[0] == "agg" and v[1] in UNITS:
                        return v
            return None

        t = rewrite(t, item)
        for _ in range(4):
            t2 = self._norm_calls(t)
            if t2 == t:
                break
            t = t2
        return t

    def _norm_calls(self, t):
        F = self.F

        def f(x):
            if x[0] == "call":
                name, args = x[1], x[2]
                # unit a state feature is stored in
                if re.search(r"state_feature::StateFeature::get_(distance|time|energy)_unit$", name) and len(args) == 1:
                    a = args[0]
                    if a[0] == "call" and a[1].endswith("state_model::StateModel::get_feature") and len(a[2]) == 2:
                        return ("stored", self._norm_calls(a[2][0]), self._norm_calls(a[2][1]))
                # associated-unit tables on constant units
                if re.search(r"_unit::\w+Unit::associated_\w+_unit$", name) and len(args) == 1:
                    a = self._norm_calls(args[0])
                    if a[0] == "agg" and a[1] in UNITS and name in F.bodies:
                        tab = assoc_table(F, name)
                        if a[2] in tab:
                            return tab[a[2]]
                    if a != args[0]:
                        return ("call", name, (a,))
            if x[0] == "field" and x[1][0] == "call" and x[1][1] in F.bodies and self.depth < 3 and x[2].isdigit():
                # projection of a tuple returned by a workspace function: inline the component
                comp = self.ret_component(x[1][1], int(x[2]))
                if comp is not None:
                    return self._norm_calls(subst_args(comp, x[1][2]))
            return None

        return rewrite(t, f)

    def ret_component(self, name, idx):
        key = (name, idx)
        if key in self.summaries:
            return self.summaries[key]
        self.summaries[key] = None
        b = self.F.bodies[name]
        if len(b.blocks) > 400:
            return None
        ut = UnitTags(self.F, b, self.summaries, self.depth + 1)
        rt = ut.norm(ut.tm.return_term())
        alts = rt[1] if rt[0] == "phi" else [rt]
        comps = set()
        for a in alts:
            if is_err_value(a):
                continue
            if result_variant(a) in ("Ok", "Some"):
                a = agg_payload(a)
            if a[0] == "tuple" and idx < len(a[1]):
                comps.add(a[1][idx])
            elif a[0] == "call" and a[1] in self.F.bodies and self.depth < 3:
                inner = ut.ret_component(a[1], idx)
                comps.add(ut._norm_calls(subst_args(inner, a[2])) if inner is not None else None)
            else:
                comps.add(None)
        res = None
        if len(comps) == 1:
            res = next(iter(comps))
            # only unit-valued components are inlined (a quantity component keeps its call identity)
            if res is not None and not (res[0] in ("agg", "arg", "field", "call", "stored") and not contains(res, lambda s: s[0] in ("loop", "undef", "phi"))):
                res = None
        self.summaries[key] = res
        return res

    def _collect_types(self):
        b = self.body
        for i, l in enumerate(b.locals):
            pass
        for bb, blk in enumerate(b.blocks):
            if blk["cleanup"]:
                continue
            for pos, s in enumerate(blk["stmts"]):
                if s["k"] != "assign":
                    continue
                rv = s["rv"]
                ops = []
                if rv["k"] in ("use", "cast", "repeat"):
                    ops.append(rv.get("op"))
                elif rv["k"] == "un":
                    ops.append(rv.get("a"))
                elif rv["k"] == "bin":
                    ops += [rv["a"], rv["b"]]
                elif rv["k"] == "agg":
                    ops += rv["fields"]
                for op in ops:
                    if op and op["k"] in ("copy", "move") and "ty" in op:
                        self.types[self.norm(self.tm.operand(op, bb, pos))] = peel(op["ty"])
            t = blk["term"]
            if t["k"] == "call":
                for op in t["args"]:
                    if op["k"] in ("copy", "move") and "ty" in op:
                        self.types[self.norm(self.tm.operand(op, bb))] = peel(op["ty"])

    def arg_type(self, i):
        return peel(self.body.locals[i]["ty"])

    # -- tags ------------------------------------------------------------------
    def tag(self, t, seen=0):
        """unit term of quantity term t, ANY for unit-free constants, None if unknown"""
        if seen > 12:
            return None
        t = self.norm(t)
        h = t[0]
        if h == "phi":
            tags = [self.tag(x, seen + 1) for x in t[1]]
            real = [x for x in tags if x != ANY]
            if any(x is None for x in tags):
                return None
            if not real:
                return ANY
            return real[0] if all(x == real[0] for x in real) else ("conflict", tuple(sorted(map(repr, real))))
        if h == "item":
            if re.search(r"::(ZERO)$", t[1]):
                return ANY
            return None
        if h == "const":
            return None
        if h == "arg":
            i = t[1]
            ty = self.arg_type(i)
            if ty in Q2U and i + 1 <= self.body.argc and self.arg_type(i + 1) == Q2U[ty]:
                return ("arg", i + 1)
            if self.depth > 0 and ty not in Q2U:
                return ("tagof", ("arg", i))  # resolved at the call site
            return None
        if h == "field":
            base, name = t[1], t[2]
            # (value, unit) tuples
            if name == "0":
                bt = self.types.get(base) or self.term_type(base)
                if bt and bt.startswith("(") and "," in bt:
                    parts = split_tuple(bt)
                    if len(parts) == 2 and parts[0] in Q2U and parts[1] == Q2U[parts[0]]:
                        return self.norm(mk_field(base, "1", 1))
                # newtype unwrap `.0` of a quantity keeps the tag
                ty = self.types.get(base) or self.term_type(base)
                if ty in Q2U or ty == U + "internal_float::InternalFloat":
                    return self.tag(base, seen + 1)
            if name in ("pointer", "0"):
                bt0 = self.types.get(base) or self.term_type(base)
                if not (bt0 and bt0.startswith("(")):
                    r = self.tag(base, seen + 1)
                    if r is not None:
                        return r
            if base[0] == "variant":
                vt = self.types.get(base[1]) or self.term_type(base[1])
                for (adt, var, fld), sib in SIBLING_VARIANT_FIELDS.items():
                    if vt and vt.endswith(adt) and base[2] == var and name == fld:
                        return self.norm(("field", base, sib))
            bt = self.types.get(base) or self.term_type(base)
            if bt:
                for (adt, fld), unit in DECLARED_FIELDS.items():
                    if bt == adt and name == fld:
                        return self.norm(unit)
                for (adt, fld), sib in SIBLING_FIELDS.items():
                    if bt.endswith(adt) and name == fld:
                        return self.norm(("field", base, sib))
            return None
        if h == "index":
            return self.tag(t[1], seen + 1)
        if h == "agg":
            if t[1] in Q2U or t[1] == U + "internal_float::InternalFloat" or t[1] == "ordered_float::OrderedFloat":
                return self.tag(t[3][0][1], seen + 1)
            return None
        if h == "cast":
            return self.tag(t[2], seen + 1)
        if h == "bin":
            return self.arith_tag(t[1][:3], [t[2], t[3]], seen)
        if h == "un" and t[1] == "Neg":
            return self.tag(t[2], seen + 1)
        if h == "call":
            name, args = t[1], t[2]
            m = _OPS_RE.search(name)
            if m:
                return self.arith_tag(m.group(1), list(args), seen)
            if re.search(r"_unit::\w+Unit::convert$", name) and len(args) == 3:
                return self.norm(args[2])
            if name.endswith("haversine::coord_distance") and len(args) == 3:
                return self.norm(args[2])
            if name.endswith("haversine::coord_distance_meters") or name.endswith("haversine::haversine_distance_meters"):
                return ("agg", U + "distance_unit::DistanceUnit", "Meters", ())
            if re.search(r"(builders::create_time|time::Time::create|builders::create_speed|speed::Speed::create)$", name) and len(args) == 5:
                return self.norm(args[4])
            if re.search(r"state_model::StateModel::get_(distance|time|energy)$", name) and len(args) == 4:
                return self.norm(args[3])
            if name.endswith("state_model::StateModel::get_state_variable") and len(args) == 3:
                return ("stored", args[0], args[2])
            d = self.derived(name, args, seen)
            if d is not None:
                return d
            if _IDENT_CALL_RE.search(name) and len(args) == 1:
                return self.tag(args[0], seen + 1)
            if re.search(r"(slice::<impl \[T\]>::get|Vec::<T, A>::get|HashMap::<K, V, S, A>::get|f64::(max|min|clamp|abs))$", name):
                return self.tag(args[0], seen + 1)
            if re.search(r"Option::<T>::unwrap_or(_else|_default)?$", name):
                return self.tag(args[0], seen + 1)
            if name in self.F.bodies and self.depth < 3:
                s = self.summary(name)
                if s is not None:
                    r = self.norm(subst_args(s, args))
                    if r[0] == "tagof":
                        return self.tag(r[1], seen + 1)
                    return r
            return None
        return None

    def derived(self, name, args, seen):
        """units of Time::from((d,s)), Speed::from((d,t)), Energy::from((rate,d))"""
        m = re.search(r"::(?:into|from)\{.*?(time::Time|speed::Speed|energy::Energy)\}$", name)
        if not m:
            # the same conversion named by its impl: <Energy as From<(EnergyRate, Distance)>>::from
            m = re.match(r"^<\S*?(time::Time|speed::Speed|energy::Energy) as std::convert::From<\(", name)
        if not m or len(args) != 1 or args[0][0] != "tuple" or len(args[0][1]) != 2:
            return None
        a, b = args[0][1]
        ta, tb = self.tag(a, seen + 1), self.tag(b, seen + 1)
        if ta is None or tb is None or ANY in (ta, tb):
            return None
        SU, RU = U + "speed_unit::SpeedUnit::", U + "energy_rate_unit::EnergyRateUnit::"
        ad = lambda u: self._norm_calls(("call", SU + "associated_distance_unit", (u,)))
        at = lambda u: self._norm_calls(("call", SU + "associated_time_unit", (u,)))
        kind = m.group(1)
        if kind == "time::Time":  # (distance, speed)
            return at(tb) if ta == ad(tb) else ("conflict", (repr(ta), repr(ad(tb))))
        if kind == "speed::Speed":  # (distance, time): the speed unit whose associated units are (ta, tb)
            a_ = self.F.adts.get(U + "speed_unit::SpeedUnit")
            for v in a_["variants"] if a_ else []:
                su = ("agg", U + "speed_unit::SpeedUnit", v["name"], ())
                if ad(su) == ta and at(su) == tb:
                    return su
            for cand in (ta, tb):
                if cand[0] == "call" and len(cand[2]) == 1:
                    su = cand[2][0]
                    if ad(su) == ta and at(su) == tb:
                        return su
            return ("conflict", (repr(ta), repr(tb)))
        if kind == "energy::Energy":  # (rate, distance)
            rd = self._norm_calls(("call", RU + "associated_distance_unit", (ta,)))
            return self._norm_calls(("call", RU + "associated_energy_unit", (ta,))) if tb == rd else ("conflict", (repr(tb), repr(rd)))
        return None

    def arith_tag(self, op, args, seen):
        tags = [self.tag(a, seen + 1) for a in args]
        real = [x for x in tags if x is not None and x != ANY]
        if op in ("Add", "Sub"):
            if any(x is None for x in tags):
                return None
            if not real:
                return ANY
            return real[0] if all(x == real[0] for x in real) else ("conflict", tuple(sorted(map(repr, real))))
        if op == "Mul" or op == "Div" or op == "Neg":
            # scaling by a unit-free number keeps the tag; two tagged operands make a derived quantity
            if len(real) == 1 and (len(args) == 1 or op != "Div" or tags[0] is not None):
                return real[0]
            return None
        return None

    def term_type(self, t):
        if t[0] == "arg":
            return self.arg_type(t[1])
        if t[0] == "field":
            bt = self.types.get(t[1]) or self.term_type(t[1])
            if bt:
                a = self.F.adts.get(re.sub(r"<.*$", "", bt))
                if a and a["kind"] == "struct":
                    for f in a["variants"][0]["fields"]:
                        if f["name"] == t[2]:
                            return peel(f["ty"])
                if bt.startswith("("):
                    parts = split_tuple(bt)
                    if t[2].isdigit() and int(t[2]) < len(parts):
                        return parts[int(t[2])]
                m = re.match(r"^std::sync::Arc<(.*)>$", bt)
                if m:
                    a = self.F.adts.get(re.sub(r"<.*$", "", m.group(1)))
                    if a and a["kind"] == "struct":
                        for f in a["variants"][0]["fields"]:
                            if f["name"] == t[2]:
                                return peel(f["ty"])
        if t[0] == "variant":
            return self.types.get(t[1]) or self.term_type(t[1])
        return None

    def summary(self, name):
        """tag of the (Ok payload of the) return value of a workspace function, over its own args"""
        if name in self.summaries:
            return self.summaries[name]
        self.summaries[name] = None  # cycle guard
        b = self.F.bodies[name]
        if len(b.blocks) > 400:
            return None
        ut = UnitTags(self.F, b, self.summaries, self.depth + 1)
        rt = ut.norm(ut.tm.return_term())
        cands = []
        alts = rt[1] if rt[0] == "phi" else [rt]
        for a in alts:
            if is_err_value(a):
                continue
            if result_variant(a) in ("Ok", "Some"):
                a = agg_payload(a)
            cands.append(a)
        tags = [ut.tag(c) for c in cands]
        real = [x for x in tags if x is not None and x != ANY]
        s = None
        if real and all(x == real[0] for x in real) and not any(x is None for x in tags):
            s = real[0]
        self.summaries[name] = s
        return s

    # -- obligations -----------------------------------------------------------
    def obligations(self):
        """yields dict(kind, value, unit, tag, where, callee)"""
        b = self.body
        out = []
        for bb, blk in enumerate(b.blocks):
            if blk["cleanup"]:
                continue
            for pos, s in enumerate(blk["stmts"]):
                if s["k"] == "assign" and s["rv"]["k"] == "agg" and s["rv"].get("agg") == "tuple" and len(s["rv"]["fields"]) == 2:
                    f0, f1 = s["rv"]["fields"]
                    t0, t1 = op_ty(f0), op_ty(f1)
                    if f0["k"] == "const":
                        t0 = peel(f0.get("ty", ""))
                    if f1["k"] == "const":
                        t1 = peel(f1.get("ty", ""))
                    if t0 in Q2U and t1 == Q2U[t0]:
                        v = self.tm.operand(f0, bb, pos)
                        u = self.tm.operand(f1, bb, pos)
                        out.append(self._ob("tuple", v, u, b.where(line=s["line"]), "(value, unit)"))
            t = blk["term"]
            if t["k"] != "call":
                continue
            args = t["args"]
            callee = callee_key(t["func"]) or ""
            tys = [peel(a.get("ty", "")) for a in args]
            if re.search(r"_unit::\w+Unit::convert$", callee) and len(args) == 3:
                v = self.tm.operand(args[1], bb)
                u = self.tm.operand(args[0], bb)
                out.append(self._ob("convert-from", v, u, b.where(line=t.get("fn_line") or t["line"]), callee.split("::")[-2] + "::convert"))
                continue
            if callee.endswith("state_model::StateModel::update_state") and len(args) == 5:
                v = self.tm.operand(args[3], bb)
                tg = self.tag(v)
                if tg is not None and (tg[0] == "stored" or tg[0] in ("call", "agg", "field", "arg", "conflict")):
                    u = ("stored", self.norm(self.tm.operand(args[0], bb)), self.norm(self.tm.operand(args[2], bb)))
                    o = self._ob("state-write", v, ("const", "unit", "x"), b.where(line=t.get("fn_line") or t["line"]), "update_state")
                    o["unit"] = u
                    out.append(o)
                continue
            for i in range(len(args) - 1):
                if tys[i] in Q2U and tys[i + 1] == Q2U[tys[i]]:
                    v = self.tm.operand(args[i], bb)
                    u = self.tm.operand(args[i + 1], bb)
                    out.append(self._ob("call-pair", v, u, b.where(line=t.get("fn_line") or t["line"]), "%s#%d" % (re.sub(r"<[^<>]*>", "", callee).split("::")[-1], i)))
        return out

    def _ob(self, kind, v, u, where, callee):
        tag = self.tag(v)
        unit = self.norm(u)
        return {"kind": kind, "value": self.norm(v), "unit": unit, "tag": tag, "where": where, "callee": callee, "fn": self.body.path}


from core import _OPS_RE, _IDENT_CALL_RE  # noqa: E402


_ASSOC = {}


def assoc_table(F, name):
    """variant -> constant unit aggregate, for `match self {V => Unit::X}` helpers"""
    if name in _ASSOC:
        return _ASSOC[name]
    out = {}
    b = F.bodies[name]
    for r in table(b):
        if r.end != "return":
            continue
        v = r.sel.get(("arg", 1))
        if isinstance(v, str) and r.ret[0] == "agg":
            out[v] = r.ret
    _ASSOC[name] = out
    return out


def split_tuple(ty):
    """split "(A, B<C, D>, E)" at top-level commas"""
    ty = ty.strip()
    if not (ty.startswith("(") and ty.endswith(")")):
        return [ty]
    s = ty[1:-1]
    parts, depth, cur = [], 0, ""
    for ch in s:
        if ch in "<([":
            depth += 1
        elif ch in ">)]":
            depth -= 1
        if ch == "," and depth == 0:
            parts.append(cur.strip())
            cur = ""
        else:
            cur += ch
    if cur.strip():
        parts.append(cur.strip())
    return [peel(p) for p in parts]


def subst_args(t, args):
    def f(x):
        if x[0] == "arg":
            i = x[1] - 1
            if 0 <= i < len(args):
                return args[i]
        return None

    return rewrite(t, f)


def status(ob):
    """'ok' | 'mismatch' | 'unknown'"""
    tag = ob["tag"]
    if tag is None:
        return "unknown"
    if tag == ANY:
        return "ok"
    if tag[0] == "conflict":
        return "mismatch"
    return "ok" if tag == ob["unit"] else "mismatch"
