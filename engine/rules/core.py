"""Core of the rule library (E2): fact base access, CFG utilities, the term
(Herbrand) value-flow domain with trace partitioning, and small helpers.

Everything here works on the JSON fact base written by engine/compassfacts from
rustc's type-checked MIR.  Nothing executes routee-compass code and no solver is
involved: terms are syntactic value-flow trees, compared structurally.
"""
import json
import os
import re
import sys
from collections import defaultdict
from fractions import Fraction

sys.setrecursionlimit(20000)

# --------------------------------------------------------------------------
# fact base
# --------------------------------------------------------------------------


_NORM = [
    (re.compile(r"(?<![A-Za-z0-9_])(?:core|alloc)::"), "std::"),
    (re.compile(r"std::ops::(?:arith|deref|try_trait|function|index|range|bit|control_flow|drop)::"), "std::ops::"),
    (re.compile(r"std::iter::traits::\w+::"), "std::iter::"),
    (re.compile(r"std::iter::adapters::\w+::"), "std::iter::"),
    (re.compile(r"std::iter::sources::\w+::"), "std::iter::"),
    (re.compile(r"std::collections::hash::(?:map|set)::"), "std::collections::"),
    (re.compile(r"std::collections::(?:btree::(?:map|set)|vec_deque|binary_heap|linked_list)::"), "std::collections::"),
    (re.compile(r"std::slice::iter::"), "std::slice::"),
    (re.compile(r"std::str::(?:traits|iter|pattern)::"), "std::str::"),
    (re.compile(r"std::sync::(?:poison::)?(?:mutex|rwlock|once|condvar)::"), "std::sync::"),
    (re.compile(r"std::sync::poison::"), "std::sync::"),
    (re.compile(r"std::boxed::iter::"), "std::boxed::"),
    (re.compile(r"std::vec::(?:into_iter|drain|spec_\w+)::"), "std::vec::"),
    (re.compile(r"std::num::(?:nonzero)::"), "std::num::"),
    (re.compile(r"std::f64::<impl f64>::"), "f64::"),
]


def normalise_paths(text):
    """rustc prints definition paths (core::ops::arith::Mul); fold the private std module
    structure into the familiar public names so rules can say std::ops::Mul"""
    for rx, rep in _NORM:
        text = rx.sub(rep, text)
    return text


class Facts:
    EXPECTED = [
        ("routee_compass_core", "lib"),
        ("routee_compass_powertrain", "lib"),
        ("routee_compass", "lib"),
        ("routee_compass", "bin"),
        ("routee_compass_py", "lib"),
    ]

    def __init__(self, directory):
        self.dir = directory
        self.crates = {}
        self.bodies = {}
        self.promoted = {}
        self.adts = {}
        self.impls = []
        self.consts = {}
        self.traits = {}
        texts = []
        for fn in sorted(os.listdir(directory)):
            if not fn.endswith(".json") or fn == "STAMP.json":
                continue
            with open(os.path.join(directory, fn)) as fh:
                texts.append(normalise_paths(fh.read()))
        parsed = [json.loads(t) for t in texts]
        # a known (anchored) function that was merely renamed or moved is given its reference name back before anything looks
        self.renamed = {}
        # (types first: the paths of their methods and every signature that mentions them follow)
        for detect in (_detect_adt_renames, _detect_renames):
            try:
                ren = detect(parsed)
            except Exception:
                ren = {}
            if ren:
                self.renamed.update(ren)
                for new_, old_ in sorted(((n, o) for o, n in ren.items()), key=lambda x: -len(x[0])):
                    pat = re.compile(r"(?<![A-Za-z0-9_])" + re.escape(new_) + r"(?![A-Za-z0-9_])")
                    texts = [pat.sub(lambda m_, old_=old_: old_, t) for t in texts]
                parsed = [json.loads(t) for t in texts]
        for d in parsed:
            key = (d["crate"], d["kind"])
            self.crates[key] = {
                "nonce": d.get("nonce"),
                "bodies": len(d["bodies"]),
                "debug_assertions": d.get("debug_assertions"),
            }
            if d["kind"] in ("procmacro",):
                continue
            for b in d["bodies"]:
                body = Body(b, d["crate"], self)
                if b["kind"] == "promoted":
                    self.promoted[(b["path"], b["promoted_idx"])] = body
                elif b["kind"] == "const":
                    self.bodies.setdefault("const " + b["path"], body)
                else:
                    self.bodies[b["path"]] = body
            for a in d["adts"]:
                if a["path"] not in self.adts or a.get("local"):
                    self.adts[a["path"]] = a
            for i in d["impls"]:
                i["crate"] = d["crate"]
                self.impls.append(i)
            for c in d["consts"]:
                self.consts[c["path"]] = c
            for t in d["traits"]:
                self.traits[t["path"]] = t
        self._callers = None
        self.inlined = {}
        if os.environ.get("VERIF_NO_MIR_INLINE") != "1":
            try:
                _inline_new_helpers(self)
            except Exception as e:  # fail towards the un-inlined program (rules then see the helper calls as before)
                self.inlined = {"error": "%s: %s" % (type(e).__name__, e)}

    # -- lookups ------------------------------------------------------------
    def body(self, path):
        return self.bodies.get(path)

    def need(self, path):
        b = self.bodies.get(path)
        if b is None:
            b = getattr(self, "inlined_bodies", {}).get(path)  # a helper whose calls were all inlined: still readable by name
        if b is None:
            raise AnchorMissing(path)
        return b

    def original(self, path):
        """the body as written (before new helpers were inlined into it) — for the few rules that look for a helper *as a
        function* (e.g. the row counter that graph_from_files calls) rather than through it"""
        b = getattr(self, "original_bodies", {}).get(path)
        return b if b is not None else self.need(path)

    def find(self, suffix):
        """bodies whose path ends with `suffix` (on a '::' boundary)."""
        out = []
        for p, b in self.bodies.items():
            if p == suffix or p.endswith("::" + suffix) or p.endswith(suffix) and suffix.startswith("<"):
                out.append(b)
        return out

    def one(self, suffix):
        r = self.find(suffix)
        if len(r) != 1:
            raise AnchorMissing("%s (matches: %d)" % (suffix, len(r)))
        return r[0]

    def closures_of(self, parent_path):
        return [b for b in self.bodies.values() if b.kind == "closure" and b.raw.get("parent") == parent_path]

    def impls_of_trait(self, trait_path):
        return [i for i in self.impls if i.get("trait") == trait_path]

    def trait_method_impls(self, trait_path, method):
        out = []
        for i in self.impls_of_trait(trait_path):
            for it in i["items"]:
                if it["name"] == method and it["path"] in self.bodies:
                    out.append(self.bodies[it["path"]])
        return out

    def local_bodies(self):
        return [b for b in self.bodies.values() if b.kind in ("fn", "assocfn", "closure")]

    # -- call graph ---------------------------------------------------------
    def callees_of(self, body):
        """resolved workspace callees of a body: static calls, dyn trait calls
        expanded to all workspace impls, closures created in the body."""
        out = set()
        for cs in body.calls():
            f = cs.func
            r = f.get("resolved") or f.get("def")
            if f.get("virtual") or (f.get("dyn") and f.get("trait")) or (r and r == f.get("def") and f.get("trait") and r not in self.bodies):
                tr = f.get("trait")
                if tr and tr in self.traits:
                    for ib in self.trait_method_impls(tr, f.get("method")):
                        out.add(ib.path)
                    # default method body
                    if f.get("def") in self.bodies:
                        out.add(f["def"])
                    continue
            if r in self.bodies:
                out.add(r)
            elif f.get("def") in self.bodies:
                out.add(f["def"])
        for c in body.closures_created():
            if c in self.bodies:
                out.add(c)
        return out

    def reachable_from(self, roots):
        seen = set()
        work = [r for r in roots]
        while work:
            p = work.pop()
            if p in seen or p not in self.bodies:
                continue
            seen.add(p)
            for c in self.callees_of(self.bodies[p]):
                if c not in seen:
                    work.append(c)
        return seen

    def callers_index(self):
        if self._callers is None:
            idx = defaultdict(set)
            for b in self.local_bodies():
                for c in self.callees_of(b):
                    idx[c].add(b.path)
            self._callers = idx
        return self._callers


class AnchorMissing(Exception):
    pass


# --------------------------------------------------------------------------
# bodies and CFG
# --------------------------------------------------------------------------


class CallSite:
    __slots__ = ("body", "bb", "term", "func", "args", "dest")

    def __init__(self, body, bb, term):
        self.body = body
        self.bb = bb
        self.term = term
        self.func = term["func"]
        self.args = term["args"]
        self.dest = term["dest"]

    @property
    def callee(self):
        return self.func.get("resolved") or self.func.get("def")

    @property
    def line(self):
        return self.term.get("fn_line") or self.term.get("line")

    def is_method(self, trait=None, method=None, adt=None):
        f = self.func
        if method is not None and f.get("method") != method:
            return False
        if trait is not None and f.get("trait") != trait:
            return False
        if adt is not None and f.get("self_adt") != adt:
            return False
        return True

    def named(self, *names):
        """callee def path or resolved path equals / ends with one of names"""
        for cand in (self.func.get("def"), self.func.get("resolved")):
            if not cand:
                continue
            for n in names:
                if cand == n or cand.endswith("::" + n):
                    return True
        return False

    def where(self):
        return "%s:%s" % (self.body.file, self.line)

    def __repr__(self):
        return "<call bb%d %s @%s>" % (self.bb, self.callee, self.line)


class VirtualCallSite(CallSite):
    """A call that sits inside a *new* helper function (one not in known_functions.txt, e.g. extracted by a refactoring),
    presented as if it were made at the helper's call site in the caller: `bb` is the caller's block, argument operands are
    pre-computed terms of the helper's arguments with the caller's actuals substituted."""
    __slots__ = ("via", "inner")

    def __init__(self, outer, inner, arg_terms, call_term):
        self.inner = inner
        self.body = outer.body
        self.bb = outer.bb
        self.term = {"k": "call", "func": inner.func, "args": [{"k": "vterm", "t": t} for t in arg_terms], "dest": outer.dest, "vterm": call_term, "line": outer.term.get("line"), "target": outer.term.get("target")}
        self.func = inner.func
        self.args = self.term["args"]
        self.dest = outer.dest
        self.via = outer


class Body:
    def __init__(self, raw, crate, facts):
        self.raw = raw
        self.crate = crate
        self.facts = facts
        self.path = raw["path"]
        self.kind = raw["kind"]
        self.file = raw.get("file")
        self.line = raw.get("line")
        self.blocks = raw["blocks"]
        self.locals = raw["locals"]
        self.argc = raw["argc"]
        self._succ = None
        self._pred = None
        self._dom = None
        self._pdom = None
        self._defs = None
        self._calls = None
        self._mutborrowed = None
        self._names = None

    def __repr__(self):
        return "<Body %s>" % self.path

    # -- cfg ---------------------------------------------------------------
    def term_succ(self, bb, unwind=False):
        t = self.blocks[bb]["term"]
        k = t["k"]
        out = []
        if k == "goto":
            out = [t["target"]]
        elif k == "switch":
            out = [x[1] for x in t["targets"]] + [t["otherwise"]]
        elif k in ("call", "drop", "assert"):
            if "target" in t:
                out = [t["target"]]
            if unwind and "unwind" in t:
                out.append(t["unwind"])
        return out

    @property
    def succ(self):
        if self._succ is None:
            self._succ = [self.term_succ(i) for i in range(len(self.blocks))]
        return self._succ

    @property
    def pred(self):
        if self._pred is None:
            p = [[] for _ in self.blocks]
            for i, ss in enumerate(self.succ):
                for s in ss:
                    if i not in p[s]:
                        p[s].append(i)
            self._pred = p
        return self._pred

    def reachable(self, start=0, removed_edges=(), removed_blocks=(), succ=None):
        succ = succ or self.succ
        seen = set()
        work = [start]
        rb = set(removed_blocks)
        re_ = set(removed_edges)
        while work:
            b = work.pop()
            if b in seen or b in rb:
                continue
            seen.add(b)
            for s in succ[b]:
                if (b, s) in re_:
                    continue
                work.append(s)
        return seen

    def reach_from_succs(self, bb, removed_blocks=(), removed_edges=()):
        """blocks reachable by taking at least one edge from bb"""
        seen = set()
        rb = set(removed_blocks)
        re_ = set(removed_edges)
        work = [s for s in self.succ[bb] if (bb, s) not in re_]
        while work:
            b = work.pop()
            if b in seen or b in rb:
                continue
            seen.add(b)
            for s in self.succ[b]:
                if (b, s) in re_:
                    continue
                work.append(s)
        return seen

    @property
    def dom(self):
        """dominator sets (bb -> set of dominators) over normal edges from bb0"""
        if self._dom is None:
            self._dom = _dominators(len(self.blocks), self.succ, self.pred, [0])
        return self._dom

    @property
    def pdom(self):
        """post-dominator sets over normal edges; exits = return blocks"""
        if self._pdom is None:
            n = len(self.blocks)
            exits = [i for i in range(n) if self.blocks[i]["term"]["k"] == "return"]
            self._pdom = _dominators(n, self.pred, self.succ, exits)
        return self._pdom

    def dominates(self, a, b):
        return a in self.dom.get(b, ())

    def return_blocks(self):
        return [i for i, b in enumerate(self.blocks) if b["term"]["k"] == "return"]

    def back_edges(self):
        out = []
        reach = self.reachable()
        for a in reach:
            for s in self.succ[a]:
                if s in self.dom.get(a, ()):  # s dominates a
                    out.append((a, s))
        return out

    def natural_loops(self):
        """list of (header, set(blocks))"""
        loops = {}
        for a, h in self.back_edges():
            body = loops.setdefault(h, {h})
            work = [a]
            while work:
                x = work.pop()
                if x in body:
                    continue
                body.add(x)
                work.extend(self.pred[x])
        return sorted(loops.items())

    # -- statements --------------------------------------------------------
    def calls(self):
        if self._calls is None:
            self._calls = [CallSite(self, i, b["term"]) for i, b in enumerate(self.blocks) if b["term"]["k"] == "call" and not b["cleanup"]]
        return self._calls

    def calls_deep(self, depth=0, loops=False):
        """calls() plus the calls made inside new helper functions (see VirtualCallSite); known functions are not entered.
        Helpers that contain loops are entered only with loops=True (a site inside a helper's loop is then shown once although
        it may run many times: only for rules that look at the helper's loop themselves)."""
        if loops:
            return self._calls_deep_loops(depth)
        if getattr(self, "_calls_deep", None) is not None and depth == 0:
            return self._calls_deep
        known = known_functions()
        out = []
        tm = None
        for cs in self.calls():
            out.append(cs)
            k = cs.callee
            if known and k is not None and "{closure" in k and k in self.facts.bodies and depth <= 1:
                # a closure called directly where it is defined: its calls are shown at the call site
                tm = tm or Terms(self)
                cc = closure_call_parts(cs.func, tuple(tm.operand(a, cs.bb) for a in cs.args))
                hb = self.facts.bodies[k]
                if cc is not None and len(hb.blocks) <= 80 and not hb.natural_loops():
                    htm = Terms(hb)
                    for inner in hb.calls_deep(depth + 1):
                        at = [substitute_closure(htm.operand(a, inner.bb), cc[1], cc[2]) for a in inner.args] if not isinstance(inner, VirtualCallSite) else [substitute_closure(a["t"], cc[1], cc[2]) for a in inner.args]
                        ct = substitute_closure(htm.call_term(inner.term, inner.bb), cc[1], cc[2])
                        out.append(VirtualCallSite(cs, inner, at, ct))
                continue
            if known and k is not None and depth <= 1 and len(cs.args) == 2 and re.search(r"(Option::<T>|Result::<T, E>)::(map|and_then)$", k.split("{")[0]):
                # `opt.map(f)` with a small loop-free closure f: the calls f makes are shown at the adaptor's site, with the
                # closure's parameter standing for the payload of the receiver
                tm = tm or Terms(self)
                ct_ = tm.operand(cs.args[1], cs.bb)
                while ct_[0] in ("mut", "ref"):
                    ct_ = ct_[1]
                if ct_[0] == "closure" and ct_[1] in self.facts.bodies:
                    hb = self.facts.bodies[ct_[1]]
                    if len(hb.blocks) <= 80 and not hb.natural_loops():
                        htm = Terms(hb)
                        params = (tm.operand(cs.args[0], cs.bb),)
                        for inner in hb.calls_deep(depth + 1):
                            at = [substitute_closure(htm.operand(a, inner.bb), ct_[2], params) for a in inner.args] if not isinstance(inner, VirtualCallSite) else [substitute_closure(a["t"], ct_[2], params) for a in inner.args]
                            ctm = substitute_closure(htm.call_term(inner.term, inner.bb), ct_[2], params)
                            out.append(VirtualCallSite(cs, inner, at, ctm))
                continue
            if not known or k is None or k in known or k not in self.facts.bodies or depth > 1:
                continue
            # (a helper taking &mut arguments cannot be inlined as a value, but the calls it makes can still be shown)
            if inline_value(self.facts, k) is None and not _helper_shape_ok(self.facts, k, allow_mut_args=True):
                continue
            hb = self.facts.bodies[k]
            tm = tm or Terms(self)
            htm = Terms(hb)
            actuals = tuple(tm.operand(a, cs.bb) for a in cs.args)
            for inner in hb.calls_deep(depth + 1):
                at = [substitute_args(htm.operand(a, inner.bb), actuals) for a in inner.args] if not isinstance(inner, VirtualCallSite) else [substitute_args(a["t"], actuals) for a in inner.args]
                ct = substitute_args(htm.call_term(inner.term, inner.bb), actuals)
                out.append(VirtualCallSite(cs, inner, at, ct))
        if depth == 0:
            self._calls_deep = out
        return out

    def _calls_deep_loops(self, depth=0):
        known = known_functions()
        out = []
        tm = None
        for cs in self.calls():
            out.append(cs)
            k = cs.callee
            if not known or k is None or k in known or k not in self.facts.bodies or depth > 1 or "{closure" in k:
                continue
            hb = self.facts.bodies[k]
            if hb.raw.get("kind") not in ("fn", "assocfn") or hb.raw.get("impl_trait") or len(hb.blocks) > 200:
                continue
            tm = tm or Terms(self)
            htm = Terms(hb)
            actuals = tuple(tm.operand(a, cs.bb) for a in cs.args)
            for inner in hb._calls_deep_loops(depth + 1):
                at = [substitute_args(htm.operand(a, inner.bb), actuals) for a in inner.args] if not isinstance(inner, VirtualCallSite) else [substitute_args(a["t"], actuals) for a in inner.args]
                ct = substitute_args(htm.call_term(inner.term, inner.bb), actuals)
                out.append(VirtualCallSite(cs, inner, at, ct))
        return out

    def calls_to(self, *names, **kw):
        out = []
        for cs in self.calls():
            if names and not cs.named(*names):
                continue
            if kw and not cs.is_method(**kw):
                continue
            out.append(cs)
        return out

    def closures_created(self):
        out = []
        for b in self.blocks:
            for s in b["stmts"]:
                if s["k"] == "assign" and s["rv"]["k"] == "agg" and s["rv"].get("agg") == "closure":
                    out.append(s["rv"]["closure"])
        return out

    @property
    def defs(self):
        """local -> list of (bb, stmt_index or 'term', projection) definition sites"""
        if self._defs is None:
            d = defaultdict(list)
            for i, b in enumerate(self.blocks):
                if b["cleanup"]:
                    continue
                for j, s in enumerate(b["stmts"]):
                    if s["k"] in ("assign", "setdiscr"):
                        d[s["place"]["l"]].append((i, j, s["place"]["p"]))
                t = b["term"]
                if t["k"] == "call":
                    d[t["dest"]["l"]].append((i, "term", t["dest"]["p"]))
            self._defs = d
        return self._defs

    @property
    def mut_borrowed(self):
        """locals whose address is taken mutably (their value may change through calls)"""
        if self._mutborrowed is None:
            m = set()
            for b in self.blocks:
                for s in b["stmts"]:
                    if s["k"] == "assign" and s["rv"]["k"] in ("ref", "rawptr") and s["rv"].get("mut", True):
                        pl = s["rv"]["place"]
                        if not any(e["k"] == "deref" for e in pl["p"]):
                            m.add(pl["l"])
            self._mutborrowed = m
        return self._mutborrowed

    @property
    def mutators(self):
        """local -> sorted tuple of callee names that receive a `&mut` borrow of it
        (the value of such a local may change through those calls)"""
        if getattr(self, "_mutators", None) is None:
            temps = {}  # temp local -> base local
            changed = True
            borrow_stmts = []
            for b in self.blocks:
                if b["cleanup"]:
                    continue
                for s in b["stmts"]:
                    if s["k"] == "assign" and s["rv"]["k"] in ("ref", "rawptr") and s["rv"].get("mut", True) and not s["place"]["p"]:
                        borrow_stmts.append((s["place"]["l"], s["rv"]["place"]))
                    elif s["k"] == "assign" and s["rv"]["k"] == "use" and s["rv"]["op"]["k"] in ("move", "copy") and not s["place"]["p"] and not s["rv"]["op"]["place"]["p"]:
                        borrow_stmts.append((s["place"]["l"], {"l": s["rv"]["op"]["place"]["l"], "p": [{"k": "alias"}]}))
            while changed:
                changed = False
                for dst, pl in borrow_stmts:
                    if dst in temps:
                        continue
                    base = pl["l"]
                    if pl["p"] and pl["p"][0]["k"] == "alias":
                        if base in temps:
                            temps[dst] = temps[base]
                            changed = True
                        continue
                    derefs = [e for e in pl["p"] if e["k"] == "deref"]
                    if not derefs:
                        temps[dst] = base
                        changed = True
                    elif base in temps:
                        temps[dst] = temps[base]
                        changed = True
            m = defaultdict(set)
            for b in self.blocks:
                if b["cleanup"]:
                    continue
                t = b["term"]
                if t["k"] != "call":
                    continue
                for a in t["args"]:
                    if a["k"] in ("move", "copy") and not a["place"]["p"] and a["place"]["l"] in temps:
                        name = callee_key(t["func"]) or "?"
                        if (t["func"].get("trait"), t["func"].get("method")) in TRANSPARENT_CALLS:
                            continue
                        if re.search(r"std::iter::(Iterator|DoubleEndedIterator|ExactSizeIterator|IntoIterator|Peekable)|Iterator(<.*>)?>::|::next$|std::fmt::|std::ops::Try|FromResidual", name):
                            continue
                        m[temps[a["place"]["l"]]].add(name)
            self._mutators = {k: tuple(sorted(v)) for k, v in m.items()}
        return self._mutators

    def local_name(self, l):
        if self._names is None:
            self._names = {}
            for d in self.raw.get("debug", []):
                pl = d.get("place")
                if pl and not pl["p"]:
                    self._names.setdefault(pl["l"], d["name"])
        return self._names.get(l)

    def where(self, bb=None, line=None):
        if line is None and bb is not None:
            line = self.blocks[bb]["term"].get("line")
        return "%s:%s" % (self.file, line if line is not None else self.line)


def _dominators(n, succ, pred, entries):
    """iterative set-based dominators; unreachable nodes get no entry"""
    reach = set()
    work = list(entries)
    while work:
        b = work.pop()
        if b in reach:
            continue
        reach.add(b)
        work.extend(succ[b])
    # reverse post order
    order = []
    seen = set()

    def dfs(root):
        stack = [(root, iter(succ[root]))]
        seen.add(root)
        while stack:
            node, it = stack[-1]
            adv = False
            for s in it:
                if s not in seen:
                    seen.add(s)
                    stack.append((s, iter(succ[s])))
                    adv = True
                    break
            if not adv:
                order.append(node)
                stack.pop()

    multi = len(entries) > 1
    for e in entries:
        if e not in seen:
            dfs(e)
    order.reverse()
    full = set(reach)
    dom = {b: set(full) for b in reach}
    for e in entries:
        dom[e] = {e}
    changed = True
    while changed:
        changed = False
        for b in order:
            if b in entries:
                continue
            ps = [p for p in pred[b] if p in reach]
            if not ps:
                continue
            new = set.intersection(*[dom[p] for p in ps]) | {b}
            if new != dom[b]:
                dom[b] = new
                changed = True
    return dom


# --------------------------------------------------------------------------
# the term domain
# --------------------------------------------------------------------------
# Terms are nested tuples:
#   ('arg', i)                      i-th parameter (1-based MIR local)
#   ('const', ty, value)            scalar literal (int / bool / float as Fraction string)
#   ('item', path)                  named const / static item
#   ('fn', path)                    function item
#   ('field', base, name)           field projection (name or index)
#   ('variant', base, name)         downcast to enum variant
#   ('index', base, idx)            indexing
#   ('call', callee, args, site)    result of a call (site = bb id, for identity)
#   ('bin', op, a, b) ('un', op, a) ('cast', kind, a, ty)
#   ('agg', adtpath, variant, ((fname, term), ...))
#   ('tuple', (terms...)) ('array', (terms...)) ('closure', path, (captures...))
#   ('discr', t) ('len', t)
#   ('phi', frozenset(terms))       join of several reaching definitions
#   ('loop', local)                 loop-carried / cyclic definition
#   ('undef', local)
# References and dereferences are erased (a reference has the term of its referent).

TRANSPARENT_CALLS = {
    ("std::ops::Deref", "deref"),
    ("std::ops::DerefMut", "deref_mut"),
    ("std::borrow::Borrow", "borrow"),
    ("std::borrow::BorrowMut", "borrow_mut"),
    ("std::convert::AsRef", "as_ref"),
    ("std::convert::AsMut", "as_mut"),
    ("std::clone::Clone", "clone"),
    ("std::borrow::ToOwned", "to_owned"),
}
TRANSPARENT_FNS = {
    "std::slice::<impl [T]>::to_vec",
    "std::sync::Arc::<T>::new",
    "std::boxed::Box::<T>::new",
    "std::option::Option::<T>::as_ref",
    "std::option::Option::<T>::as_mut",
    "std::option::Option::<T>::as_deref",
    "std::option::Option::<&T>::cloned",
    "std::option::Option::<&T>::copied",
    "std::option::Option::<&mut T>::cloned",
    "std::result::Result::<T, E>::as_ref",
    "std::sync::Arc::<T, A>::as_ref",
    "std::vec::Vec::<T, A>::as_slice",
    "std::vec::Vec::<T, A>::as_mut_slice",
    "std::string::String::as_str",
    "std::convert::identity",
    "std::result::Result::<&T, E>::cloned",
    "std::slice::<impl [T]>::into_vec",
    "std::vec::Vec::<T, A>::into_boxed_slice",
}


GENERIC_DISPATCH = {"into", "from", "try_into", "try_from", "default", "collect", "sum", "product", "from_iter", "parse", "from_str"}


def callee_key(func):
    return func.get("resolved") or func.get("def")


_POINTER_ADTS = {"std::boxed::Box", "std::ptr::Unique", "std::ptr::NonNull", "std::ptr::unique::Unique", "std::ptr::non_null::NonNull"}


_KNOWN_FNS = None
_INLINE_CACHE = {}
_INLINE_OFF = [0]  # >0: helper inlining disabled (partial evaluation wants the calls themselves)


class no_inline:
    """context manager: inside, calls to new helper functions are kept as calls (not replaced by their values)"""

    def __enter__(self):
        _INLINE_OFF[0] += 1

    def __exit__(self, *a):
        _INLINE_OFF[0] -= 1


def type_signature(body):
    """return type and parameter types of a function body, as one string"""
    return " | ".join(body.locals[i]["ty"] for i in range(0, body.argc + 1)) if hasattr(body, "locals") else " | ".join(body["locals"][i]["ty"] for i in range(0, body["argc"] + 1))


_KNOWN_SIGS = None


def known_signatures():
    global _KNOWN_SIGS
    if _KNOWN_SIGS is None:
        try:
            with open(os.path.join(os.path.dirname(os.path.abspath(__file__)), "known_signatures.json")) as fh:
                _KNOWN_SIGS = json.load(fh)
        except (OSError, ValueError):
            _KNOWN_SIGS = {}
    return _KNOWN_SIGS


def adt_signature(a):
    """kind, variant names and field (name, type) lists of a type definition, with the type's own path blanked out"""
    own = a["path"]
    return json.dumps([a["kind"], [[v["name"] if a["kind"] == "enum" else "", [[f["name"], (f.get("ty") or "").replace(own, "Self")] for f in v["fields"]]] for v in a["variants"]]], sort_keys=True)


_KNOWN_ADTS = None


def known_adts():
    global _KNOWN_ADTS
    if _KNOWN_ADTS is None:
        try:
            with open(os.path.join(os.path.dirname(os.path.abspath(__file__)), "known_adts.json")) as fh:
                _KNOWN_ADTS = json.load(fh)
        except (OSError, ValueError):
            _KNOWN_ADTS = {}
    return _KNOWN_ADTS


def _detect_adt_renames(parsed):
    """{reference path: current path} for workspace types that are gone while exactly one type that the reference does not
    know has the same definition (variants, field names and types) in the same module (renamed) or under the same name in
    another module (moved)"""
    ref = known_adts()
    if not ref:
        return {}
    present = {}
    for d in parsed:
        for a in d["adts"]:
            if a.get("local"):
                present.setdefault(a["path"], a)
    missing = [p for p in ref if p not in present]
    if not missing:
        return {}
    new = {p: adt_signature(a) for p, a in present.items() if p not in ref}
    out, taken = {}, set()
    for m in sorted(missing):
        mod, name = m.rsplit("::", 1) if "::" in m else ("", m)
        same_mod = [n for n, sg in new.items() if sg == ref[m] and (n.rsplit("::", 1)[0] if "::" in n else "") == mod and n not in taken]
        same_name = [n for n, sg in new.items() if sg == ref[m] and n.rsplit("::", 1)[-1] == name and n not in taken]
        pick = same_mod[0] if len(same_mod) == 1 else (same_name[0] if len(same_name) == 1 else None)
        if pick is not None:
            out[m] = pick
            taken.add(pick)
    return out


def _detect_renames(parsed):
    """{reference path: current path} for known functions that are gone while exactly one *new* function with the same type
    signature exists in the same module (renamed) or under the same name elsewhere in the workspace (moved)"""
    sigs = known_signatures()
    known = known_functions()
    if not sigs or not known:
        return {}
    present = {}
    for d in parsed:
        if d["kind"] in ("procmacro",):
            continue
        for b in d["bodies"]:
            if b["kind"] in ("fn", "assocfn") and "{closure" not in b["path"] and not b["path"].startswith("<"):
                present.setdefault(b["path"], b)
    missing = [p for p in sigs if p not in present]
    if not missing:
        return {}
    new = {p: type_signature(b) for p, b in present.items() if p not in known}
    out, taken = {}, set()
    for m in sorted(missing):
        mod, name = m.rsplit("::", 1) if "::" in m else ("", m)
        same_mod = [n for n, sg in new.items() if sg == sigs[m] and (n.rsplit("::", 1)[0] if "::" in n else "") == mod and n not in taken]
        same_name = [n for n, sg in new.items() if sg == sigs[m] and n.rsplit("::", 1)[-1] == name and n not in taken]
        pick = same_mod[0] if len(same_mod) == 1 else (same_name[0] if len(same_name) == 1 else None)
        if pick is not None:
            out[m] = pick
            taken.add(pick)
    return out


def known_functions():
    global _KNOWN_FNS
    if _KNOWN_FNS is None:
        _KNOWN_FNS = set()
        try:
            with open(os.path.join(os.path.dirname(os.path.abspath(__file__)), "known_functions.txt")) as fh:
                for line in fh:
                    line = line.rstrip("\n")
                    if line and not line.startswith("#"):
                        _KNOWN_FNS.add(line)
        except OSError:
            pass
    return _KNOWN_FNS


def inline_value(facts, key, depth=0, force=False):
    """Value of a *new* small helper function (one that did not exist when the rules were written, e.g. extracted by a
    refactoring): its return term over its own ('arg', i), with the convention of this library that the Ok/Some payload of x is
    reported as x — error alternatives are dropped, Ok/Some payloads unwrapped.  None when the function is not inlinable
    (known function, trait method, has loops or `&mut` parameters, too large, recursive)."""
    ck = (id(facts), key, force)
    if ck in _INLINE_CACHE:
        return _INLINE_CACHE[ck]
    _INLINE_CACHE[ck] = None  # recursion guard
    b = facts.bodies.get(key)
    known = known_functions()
    if b is None or depth > 2 or (not force and (not known or key in known)):
        return None
    r = b.raw
    if r.get("kind") not in ("fn", "assocfn") or r.get("impl_trait") or "{closure" in key:
        return None
    if len(b.blocks) > 80 or b.natural_loops():
        return None
    if any(b.locals[i]["ty"].startswith("&mut") for i in range(1, b.argc + 1)):
        return None
    tm = Terms(b)
    tm.inline_depth = depth + 1
    rt = tm.return_term()
    alts = list(rt[1]) if rt[0] == "phi" else [rt]
    kept = []
    for a in alts:
        a0 = a
        if is_err_value(a0) or result_variant(a0) in ("Err", "None") or a0[0] == "noreturn":
            continue
        if result_variant(a0) in ("Ok", "Some"):
            a0 = agg_payload(a0)
            if a0 is None:
                continue
        kept.append(a0)
    val = mk_phi(kept) if len(kept) > 1 else (kept[0] if kept else None)
    _INLINE_CACHE[ck] = val
    return val


def closure_value(facts, key, depth=0):
    """value returned by a small loop-free closure over its own args (('arg',1) = the environment, ('arg',2..) = parameters),
    in the payload convention of inline_value.  Used for closures that are called directly where they are defined
    (`let f = |x| ..; f(a)`), which is how a refactoring shares code between two call sites without a named helper."""
    ck = (id(facts), key, "closure")
    if ck in _INLINE_CACHE:
        return _INLINE_CACHE[ck]
    _INLINE_CACHE[ck] = None
    b = facts.bodies.get(key)
    if b is None or depth > 2 or b.kind != "closure" or len(b.blocks) > 80 or b.natural_loops():
        return None
    tm = Terms(b)
    tm.inline_depth = depth + 1
    rt = tm.return_term()
    alts = list(rt[1]) if rt[0] == "phi" else [rt]
    kept = []
    for a in alts:
        if is_err_value(a) or result_variant(a) in ("Err", "None") or a[0] == "noreturn":
            continue
        if result_variant(a) in ("Ok", "Some"):
            a = agg_payload(a)
            if a is None:
                continue
        kept.append(a)
    val = mk_phi(kept) if len(kept) > 1 else (kept[0] if kept else None)
    _INLINE_CACHE[ck] = val
    return val


def closure_call_parts(func, args):
    """for a direct call `f(a, b)` of a closure value (Fn::call(&f, (a, b))): (closure body path, captures, actual parameters),
    else None"""
    if func.get("method") not in ("call", "call_mut", "call_once") or func.get("trait") not in ("std::ops::Fn", "std::ops::FnMut", "std::ops::FnOnce") or len(args) != 2:
        return None
    c = args[0]
    while c[0] == "mut":
        c = unmut(c)
    c = strip_try(c) if c[0] != "closure" else c
    if c[0] != "closure":
        return None
    tup = args[1]
    if tup[0] != "tuple":
        return None
    return c[1], c[2], tup[1]


def substitute_closure(t, caps, params):
    def f(x):
        if x[0] == "field" and x[1] == ("arg", 1) and str(x[2]).isdigit() and int(x[2]) < len(caps):
            return caps[int(x[2])]
        if x[0] == "arg" and isinstance(x[1], int) and 2 <= x[1] <= len(params) + 1:
            return params[x[1] - 2]
        return None
    return rewrite(t, f)


def _helper_shape_ok(facts, key, allow_mut_args=False):
    b = facts.bodies.get(key)
    if b is None:
        return False
    r = b.raw
    if r.get("kind") not in ("fn", "assocfn") or r.get("impl_trait") or "{closure" in key:
        return False
    return len(b.blocks) <= 80 and not b.natural_loops() and (allow_mut_args or not any(b.locals[i]["ty"].startswith("&mut") for i in range(1, b.argc + 1)))


def substitute_args(t, args):
    def f(x):
        if x[0] == "arg" and isinstance(x[1], int) and 1 <= x[1] <= len(args):
            return args[x[1] - 1]
        return None
    return rewrite(t, f)


_DEAD_EDGE_BUSY = [0]


def _dead_variant_edges(body):
    cached = getattr(body, "_dead_variant_edges", None)
    if cached is not None:
        return cached
    dead = set()
    _DEAD_EDGE_BUSY[0] += 1
    try:
        tm0 = Terms(body)
        for bb, blk in enumerate(body.blocks):
            if blk["cleanup"] or blk["term"]["k"] != "switch":
                continue
            try:
                d, names = switch_discr_info(body, bb)
            except Exception:
                continue
            if not names:
                continue
            dt = tm0.operand(d, bb)
            if dt[0] != "discr" or dt[1][0] != "field":
                continue
            kv = _known_variant(nosite(dt[1]))
            if kv is not None and kv in names.values():
                keep = switch_target(blk["term"], names, kv)
                for tgt in [x[1] for x in blk["term"]["targets"]] + [blk["term"]["otherwise"]]:
                    if tgt != keep:
                        dead.add((bb, tgt))
    finally:
        _DEAD_EDGE_BUSY[0] -= 1
    try:
        body._dead_variant_edges = dead
    except AttributeError:
        pass
    return dead


class Terms:
    """Demand-driven value-flow (origin terms) for one body.

    `edge_ok(a, b)` optionally restricts the CFG (trace partitioning): only
    definitions reachable backwards through allowed edges are considered."""

    def __init__(self, body, edge_ok=None, keep_transparent=False):
        self.body = body
        if edge_ok is None and body.raw.get("inlined") and not _DEAD_EDGE_BUSY[0]:
            # a body that received inlined copies: arms of a match on a value built by a known constructor in the caller
            # (`opt.map(Side::Upstream)` handed to a helper that matches on the side) are dead; values are read without them
            dead = _dead_variant_edges(body)
            if dead:
                live = body.reachable(start=0, removed_edges=dead)
                edge_ok = lambda a, b_, dead=dead, live=live: (a, b_) not in dead and a in live
        self.edge_ok = edge_ok
        self.keep_transparent = keep_transparent
        self.track_mut = True
        self.inline_depth = 0
        self.memo = {}
        self.in_progress = set()

    # reaching definitions of local `l` at position (bb, idx) — idx = number of
    # statements already executed in bb (len(stmts) means "at the terminator").
    def reaching(self, l, bb, idx):
        body = self.body
        defs = body.defs.get(l, [])
        if not defs:
            return []
        by_block = defaultdict(list)
        for d in defs:
            by_block[d[0]].append(d)

        def pos_of(d):
            return len(body.blocks[d[0]]["stmts"]) if d[1] == "term" else d[1]

        def last_def(b, upto):
            # last definition in block b at a position < upto (None: whole block incl. terminator)
            best = None
            for d in by_block.get(b, ()):
                p = pos_of(d)
                if upto is not None and p >= upto:
                    continue
                if best is None or p > pos_of(best):
                    best = d
            return best

        d = last_def(bb, idx)
        if d is not None:
            return [d]
        out = []
        seen = set()
        work = [p for p in body.pred[bb] if self._edge(p, bb)]
        while work:
            b = work.pop()
            if b in seen:
                continue
            seen.add(b)
            d = last_def(b, None)
            if d is not None:
                if d not in out:
                    out.append(d)
                continue
            for p in body.pred[b]:
                if self._edge(p, b):
                    work.append(p)
        return out

    def _edge(self, a, b):
        return self.edge_ok is None or self.edge_ok(a, b)

    # -- public API ----------------------------------------------------------
    def operand(self, op, bb, idx=None):
        if idx is None:
            idx = len(self.body.blocks[bb]["stmts"])
        k = op["k"]
        if k in ("copy", "move"):
            return self.place(op["place"], bb, idx)
        if k == "const":
            return self.const(op)
        if k == "vterm":
            return op["t"]
        return ("unknown", k)

    def const(self, op):
        if "fn" in op:
            return ("fn", op["fn"])
        if op.get("promoted"):
            pb = self.body.facts.promoted.get((op["item"], op["promoted_idx"]))
            if pb is not None:
                t = Terms(pb).return_term()
                return t
            return ("item", op["item"] + "::promoted")
        if "item" in op:
            if op.get("ty") in ("&str", "&'static str"):
                cb = self.body.facts.bodies.get("const " + op["item"])
                if cb is not None and cb is not self.body:
                    v = Terms(cb).return_term()
                    if v[0] == "const" and isinstance(v[2], str):
                        return v
            return ("item", op["item"])
        if "bool" in op:
            return ("const", "bool", bool(op["bool"]))
        if "int" in op:
            return ("const", op["ty"], int(op["int"]))
        if "bigint" in op:
            return ("const", op["ty"], int(op["bigint"]))
        if "float" in op:
            return ("const", op["ty"], op["float"])
        sv = op.get("s")
        if op.get("ty") in ("&str", "&'static str") and isinstance(sv, str) and len(sv) >= 2 and sv[0] == '"' and sv[-1] == '"':
            sv = sv[1:-1]
        return ("const", op.get("ty"), sv)

    def place(self, pl, bb, idx):
        base = self.local(pl["l"], bb, idx)
        return self.project(base, pl["p"], bb, idx)

    def project(self, base, proj, bb, idx):
        t = base
        for e in proj:
            k = e["k"]
            if k == "deref":
                continue
            if k == "field":
                if e.get("adt") in _POINTER_ADTS:
                    continue  # Box<T> / Unique<T> / NonNull<T> internals: the place is the pointee
                t = mk_field(t, e.get("name", str(e["i"])), e["i"])
            elif k == "downcast":
                t = mk_variant(t, e.get("name", e["v"]))
            elif k == "index":
                t = ("index", t, self.local(e["l"], bb, idx))
            elif k == "cindex":
                t = ("index", t, ("const", "usize", (-(e["off"]) if e["from_end"] else e["off"])))
            else:
                t = ("proj", t, k)
        return t

    def local(self, l, bb, idx):
        body = self.body
        key = (l, bb, idx)
        # single-definition locals do not depend on position
        defs = body.defs.get(l, [])
        whole = [d for d in defs if not d[2]]
        if 1 <= l <= body.argc and not whole:
            return ("arg", l)
        if len(defs) == 1 and not defs[0][2]:
            key = (l, None, None)
        if key in self.memo:
            return self.memo[key]
        if key in self.in_progress:
            return ("loop", l)
        self.in_progress.add(key)
        try:
            if key[1] is None:
                rd = defs
            else:
                rd = self.reaching(l, bb, idx)
            # field-wise definitions (place with projection) are folded as updates
            terms = []
            for d in rd:
                terms.append(self.def_term(l, d))
            if 1 <= l <= body.argc and key[1] is not None:
                # argument possibly reassigned: include the incoming value if no def dominates
                if not rd:
                    terms.append(("arg", l))
            if not terms:
                t = ("arg", l) if 1 <= l <= body.argc else ("undef", l)
            elif len(terms) == 1:
                t = terms[0]
            else:
                t = mk_phi(terms)
        finally:
            self.in_progress.discard(key)
        if self.track_mut and t[0] != "mut":
            mu = body.mutators.get(l)
            if mu:
                t = ("mut", t, mu)
        self.memo[key] = t
        return t

    def def_term(self, l, d):
        bb, pos, proj = d
        body = self.body
        if pos == "term":
            t = body.blocks[bb]["term"]
            val = self.call_term(t, bb)
        else:
            s = body.blocks[bb]["stmts"][pos]
            if s["k"] == "setdiscr":
                return ("setdiscr", l, s["v"])
            val = self.rvalue(s["rv"], bb, pos)
        if proj:
            # partial definition: base value updated at a projection
            real = [e for e in proj if e["k"] != "deref"]
            if not real:
                return val
            prev = self.local(l, bb, pos if pos != "term" else len(body.blocks[bb]["stmts"]))
            return ("update", prev, tuple(e.get("name", str(e.get("i", e["k"]))) for e in real), val)
        return val

    def call_term(self, t, bb):
        if "vterm" in t:
            return t["vterm"]
        f = t["func"]
        n = len(self.body.blocks[bb]["stmts"])
        args = tuple(self.operand(a, bb, n) for a in t["args"])
        key = callee_key(f)
        if not self.keep_transparent:
            if (f.get("trait"), f.get("method")) in TRANSPARENT_CALLS and len(args) == 1:
                return args[0]
            if key in TRANSPARENT_FNS and len(args) == 1:
                return args[0]
            d = f.get("def")
            if d in TRANSPARENT_FNS and len(args) == 1:
                return args[0]
        if f.get("method") in GENERIC_DISPATCH and f.get("targs"):
            key = "%s{%s}" % (key, ",".join(f["targs"]))
        if key == "std::boxed::box_assume_init_into_vec_unsafe":
            # `vec![a, b, ..]`: the elements are stored as one array aggregate through the raw pointer
            # of the uninitialised box in the same block, just before this call
            stmts = self.body.blocks[bb]["stmts"]
            for pos in range(len(stmts) - 1, -1, -1):
                s = stmts[pos]
                if s["k"] == "assign" and s["place"]["p"] and s["place"]["p"][0]["k"] == "deref" and s["rv"]["k"] == "agg" and s["rv"].get("agg") == "array":
                    return ("call", "vec!", (self.rvalue(s["rv"], bb, pos),), bb)
        rk = f.get("resolved") or f.get("def")
        if not _INLINE_OFF[0] and rk in self.body.facts.bodies and rk not in known_functions() and known_functions():
            val = inline_value(self.body.facts, rk, self.inline_depth)
            if val is not None:
                return substitute_args(val, args)
        if not _INLINE_OFF[0] and known_functions():
            cc = closure_call_parts(f, args)
            if cc is not None and cc[0] in self.body.facts.bodies:
                val = closure_value(self.body.facts, cc[0], self.inline_depth)
                if val is not None:
                    return substitute_closure(val, cc[1], cc[2])
        if key == "<indirect>" or key == "<fnptr>" or key is None:
            fo = f.get("op")
            ft = self.operand(fo, bb, n) if fo else ("unknown", "fn")
            return ("callind", ft, args, t.get("site", bb))
        return ("call", key, args, t.get("site", bb))

    def rvalue(self, rv, bb, pos):
        k = rv["k"]
        if k == "use":
            return self.operand(rv["op"], bb, pos)
        if k in ("ref", "rawptr"):
            return self.place(rv["place"], bb, pos)
        if k == "bin":
            return ("bin", rv["op"], self.operand(rv["a"], bb, pos), self.operand(rv["b"], bb, pos))
        if k == "un":
            return ("un", rv["op"], self.operand(rv["a"], bb, pos))
        if k == "cast":
            inner = self.operand(rv["op"], bb, pos)
            if rv["kind"] in ("PointerCoercion", "PtrToPtr", "Transmute") and not self.keep_transparent:
                return inner
            return ("cast", rv["kind"], inner, rv["ty"])
        if k == "discr":
            return ("discr", self.place(rv["place"], bb, pos))
        if k == "agg":
            fields = tuple(self.operand(f, bb, pos) for f in rv["fields"])
            a = rv.get("agg")
            if a == "adt":
                names = rv.get("fnames") or []
                return ("agg", rv["adt"], rv["variant"], tuple((names[i] if i < len(names) else str(i), f) for i, f in enumerate(fields)))
            if a == "tuple":
                return ("tuple", fields)
            if a == "array":
                return ("array", fields)
            if a == "closure":
                return ("closure", rv["closure"], fields)
            return ("aggother", fields)
        if k == "repeat":
            return ("repeat", self.operand(rv["op"], bb, pos))
        if k == "tlsref":
            return ("item", rv["item"])
        return ("unknown", k, rv.get("s"))

    def return_term(self):
        body = self.body
        terms = []
        for rb in body.return_blocks():
            if self.edge_ok is not None and not self._block_reachable(rb):
                continue
            terms.append(self.local(0, rb, len(body.blocks[rb]["stmts"])))
        if not terms:
            return ("noreturn",)
        return mk_phi(terms) if len(terms) > 1 else terms[0]

    def _block_reachable(self, target):
        seen = set()
        work = [0]
        while work:
            b = work.pop()
            if b in seen:
                continue
            seen.add(b)
            if b == target:
                return True
            for s in self.body.succ[b]:
                if self._edge(b, s):
                    work.append(s)
        return False


def mk_phi(terms):
    flat = set()
    for t in terms:
        if isinstance(t, tuple) and t and t[0] == "phi":
            flat |= set(t[1])
        else:
            flat.add(t)
    if len(flat) == 1:
        return next(iter(flat))
    return ("phi", frozenset(flat))


def mk_field(t, name, idx):
    # projection through a known aggregate
    name = str(name) if isinstance(name, int) else name
    if t[0] == "bin" and t[1].endswith("WithOverflow") and name == "0":
        # `(a op b).0` of a checked operation is the plain result: debug and release MIR then give the same term
        return ("bin", t[1][: -len("WithOverflow")], t[2], t[3])
    if t[0] == "agg":
        for n, v in t[3]:
            if str(n) == name:
                return v
        if isinstance(idx, int) and idx < len(t[3]):
            return t[3][idx][1]
    if t[0] == "tuple" and isinstance(idx, int) and idx < len(t[1]):
        return t[1][idx]
    if t[0] == "variant" and t[1][0] == "agg":
        # downcast of a known aggregate
        a = t[1]
        if a[2] == t[2]:
            for n, v in a[3]:
                if str(n) == name:
                    return v
            if isinstance(idx, int) and idx < len(a[3]):
                return a[3][idx][1]
    if t[0] == "update":
        # base updated at path; reading the same path gives the value
        if len(t[2]) >= 1 and t[2][0] == name:
            if len(t[2]) == 1:
                return t[3]
            return ("update", mk_field(t[1], name, idx), t[2][1:], t[3])
        return mk_field(t[1], name, idx)
    if t[0] == "phi":
        return mk_phi([mk_field(x, name, idx) for x in t[1]])
    return ("field", t, name)


def unmut(t):
    """drop `mut` wrappers (for rules that deliberately ignore in-place mutation)"""
    return rewrite(t, lambda x: unmut(x[1]) if x[0] == "mut" else None)


def mk_variant(t, name):
    if t[0] == "phi":
        return mk_phi([mk_variant(x, name) for x in t[1]])
    return ("variant", t, name)


# -- term utilities -----------------------------------------------------------


def subterms(t):
    yield t
    if isinstance(t, tuple):
        for x in t[1:]:
            if isinstance(x, tuple):
                if x and isinstance(x[0], str):
                    yield from subterms(x)
                else:
                    for y in x:
                        if isinstance(y, tuple):
                            if y and isinstance(y[0], str):
                                yield from subterms(y)
                            else:
                                for z in y:
                                    if isinstance(z, tuple):
                                        yield from subterms(z)
            elif isinstance(x, frozenset):
                for y in x:
                    yield from subterms(y)


def contains(t, pred):
    for s in subterms(t):
        if pred(s):
            return True
    return False


def calls_in(t, name=None):
    out = []
    for s in subterms(t):
        if isinstance(s, tuple) and s and s[0] == "call":
            if name is None or s[1] == name or s[1].endswith("::" + name):
                out.append(s)
    return out


def strip_try(t):
    """peel the `?` / unwrap-like wrappers: the Ok/Some payload of x is reported as x.
    ((Try::branch(x) as Continue).0)  ->  x ;  ((x as Some).0) -> x ; ((x as Ok).0) -> x"""
    changed = True
    while changed:
        changed = False
        if t[0] == "field" and t[2] in (0, "0") and t[1][0] == "variant" and t[1][2] in ("Continue", "Some", "Ok"):
            inner = t[1][1]
            if inner[0] == "call" and inner[1].endswith("::branch") and len(inner[2]) == 1:
                inner = inner[2][0]
            t = _payload_of_literal(inner, t[1][2])
            changed = True
        elif t[0] == "call" and len(t[2]) >= 1 and _is_unwrapish(t[1]):
            t = t[2][0]
            changed = True
        elif t[0] == "field" and t[2] in (0, "0") and t[1][0] == "variant":
            # ((opt.map(Enum::V) payload) as V).0 -> the payload of opt: a one-field variant constructor mapped over an
            # Option and taken apart again by a match on that variant
            m_ = t[1][1]
            while m_[0] == "mut":
                m_ = m_[1]
            if m_[0] == "call" and re.search(r"(Option::<T>|Result::<T, E>)::map$", m_[1].split("{")[0]) and len(m_[2]) == 2 and m_[2][1][0] == "fn" and m_[2][1][1].split("{")[0].split("::")[-1] == t[1][2]:
                t = m_[2][0]
                changed = True
    return t


def _payload_of_literal(x, want):
    """payload convention continued through literals: the Ok/Some payload of `Ok(v)` is v, of a merge of alternatives the merge
    of the payloads of those that are not errors (this is what `helper(..)?` looks like once the helper — which itself uses `?`
    and ends in `Ok(v)` — has been inlined: phi{from_residual(e), Ok{v}}? is v)"""
    y = x
    while y[0] == "mut":
        y = y[1]
    if y[0] == "agg" and y[1] in ("std::result::Result", "std::option::Option", "core::result::Result", "core::option::Option"):
        if y[2] in ("Ok", "Some") and y[3]:
            return y[3][0][1]
        return x
    if y[0] == "phi":
        kept = []
        for a in y[1]:
            b = a
            while b[0] == "mut":
                b = b[1]
            if b[0] == "agg" and b[1] in ("std::result::Result", "std::option::Option", "core::result::Result", "core::option::Option"):
                if b[2] in ("Ok", "Some") and b[3]:
                    kept.append(b[3][0][1])
                continue
            if b[0] == "call" and re.search(r"FromResidual<.*>>::from_residual$", b[1]):
                continue
            kept.append(a)
        if kept and len(kept) < len(y[1]) or (kept and any(k_ not in y[1] for k_ in kept)):
            return mk_phi(kept) if len(kept) > 1 else kept[0]
    return x


_UNWRAPISH = re.compile(r"^std::(option::Option|result::Result)::<.*>::(unwrap|expect|unwrap_or_default|ok|ok_or|ok_or_else|map_err|unwrap_unchecked)$")


def _is_unwrapish(name):
    return bool(_UNWRAPISH.match(name))


def deep_strip(t):
    """strip_try applied at every level"""
    t = strip_try(t)
    if not isinstance(t, tuple):
        return t
    h = t[0]
    if h in ("arg", "const", "item", "fn", "undef", "loop", "unknown", "noreturn", "setdiscr"):
        return t
    if h == "field":
        return strip_try(mk_field(deep_strip(t[1]), t[2], int(t[2]) if str(t[2]).isdigit() else None))
    if h == "variant":
        return ("variant", deep_strip(t[1]), t[2])
    if h == "index":
        return ("index", deep_strip(t[1]), deep_strip(t[2]))
    if h == "call":
        return strip_try(("call", t[1], tuple(deep_strip(a) for a in t[2])) + tuple(t[3:]))
    if h == "callind":
        return ("callind", deep_strip(t[1]), tuple(deep_strip(a) for a in t[2])) + tuple(t[3:])
    if h == "bin":
        return ("bin", t[1], deep_strip(t[2]), deep_strip(t[3]))
    if h == "un":
        return ("un", t[1], deep_strip(t[2]))
    if h == "cast":
        return ("cast", t[1], deep_strip(t[2]), t[3])
    if h == "agg":
        return ("agg", t[1], t[2], tuple((n, deep_strip(v)) for n, v in t[3]))
    if h in ("tuple", "array"):
        return (h, tuple(deep_strip(v) for v in t[1]))
    if h == "closure":
        return ("closure", t[1], tuple(deep_strip(v) for v in t[2]))
    if h in ("discr", "len", "repeat"):
        return (h, deep_strip(t[1]))
    if h == "phi":
        return mk_phi([deep_strip(x) for x in t[1]])
    if h == "update":
        return ("update", deep_strip(t[1]), t[2], deep_strip(t[3]))
    if h == "mut":
        return ("mut", deep_strip(t[1]), t[2])
    return t


def nosite(t):
    """erase call-site identities so that two evaluations of the same pure
    expression compare equal"""
    if not isinstance(t, tuple):
        return t
    h = t[0] if t else None
    if h == "call":
        return ("call", t[1], tuple(nosite(a) for a in t[2]))
    if h == "callind":
        return ("callind", nosite(t[1]), tuple(nosite(a) for a in t[2]))
    if h == "phi":
        return ("phi", frozenset(nosite(x) for x in t[1]))
    if h == "agg":
        return ("agg", t[1], t[2], tuple((n, nosite(v)) for n, v in t[3]))
    return tuple(nosite(x) if isinstance(x, tuple) else x for x in t)


def short(t, depth=0):
    """compact human-readable rendering of a term"""
    if not isinstance(t, tuple) or not t:
        return str(t)
    h = t[0]
    if depth > 8:
        return "…"
    s = lambda x: short(x, depth + 1)
    if h == "arg":
        return "arg%d" % t[1]
    if h == "const":
        return str(t[2])
    if h in ("item", "fn"):
        return t[1].split("::")[-2] + "::" + t[1].split("::")[-1] if "::" in t[1] else t[1]
    if h == "field":
        return "%s.%s" % (s(t[1]), t[2])
    if h == "variant":
        return "(%s as %s)" % (s(t[1]), t[2])
    if h == "index":
        return "%s[%s]" % (s(t[1]), s(t[2]))
    if h == "call":
        name = t[1]
        name = re.sub(r"<[^<>]*>", "", name)
        name = re.sub(r"<[^<>]*>", "", name)
        parts = [p for p in name.split("::") if p]
        nm = "::".join(parts[-2:]) if len(parts) >= 2 else name
        return "%s(%s)" % (nm, ", ".join(s(a) for a in t[2]))
    if h == "callind":
        return "(%s)(%s)" % (s(t[1]), ", ".join(s(a) for a in t[2]))
    if h == "bin":
        return "(%s %s %s)" % (s(t[2]), t[1], s(t[3]))
    if h == "un":
        return "(%s %s)" % (t[1], s(t[2]))
    if h == "cast":
        return "(%s as %s)" % (s(t[2]), t[3])
    if h == "agg":
        return "%s::%s{%s}" % (t[1].split("::")[-1], t[2], ", ".join("%s: %s" % (n, s(v)) for n, v in t[3]))
    if h in ("tuple", "array"):
        return "(%s)" % ", ".join(s(v) for v in t[1])
    if h == "closure":
        return "closure %s[%s]" % (t[1].split("::", 3)[-1], ", ".join(s(v) for v in t[2]))
    if h == "phi":
        return "phi{%s}" % " | ".join(sorted(s(x) for x in t[1]))
    if h in ("discr", "len", "repeat"):
        return "%s(%s)" % (h, s(t[1]))
    if h == "update":
        return "%s with .%s := %s" % (s(t[1]), ".".join(str(x) for x in t[2]), s(t[3]))
    if h == "mut":
        return "mut(%s)" % s(t[1])
    return str(t)


# --------------------------------------------------------------------------
# decision trees of loop-free helper functions (full trace partitioning)
# --------------------------------------------------------------------------


class Path:
    __slots__ = ("conds", "blocks", "end", "ret", "calls")

    def __init__(self, conds, blocks, end):
        self.conds = conds  # list of (discr_term, value or 'otherwise', switch targets values)
        self.blocks = blocks
        self.end = end  # 'return' | 'unreachable' | 'diverge' | 'loop'
        self.ret = None
        self.calls = None


def switch_discr_info(body, bb):
    """for a switch terminator: (discr operand, {value: variant name} or None)"""
    blk = body.blocks[bb]
    t = blk["term"]
    d = t["discr"]
    names = None
    if d["k"] in ("copy", "move") and not d["place"]["p"]:
        l = d["place"]["l"]
        # look for `l = discriminant(place)` — usually in the same block
        for (b2, pos, proj) in body.defs.get(l, []):
            if pos == "term" or proj:
                continue
            s = body.blocks[b2]["stmts"][pos]
            if s["rv"]["k"] == "discr" and "variants" in s["rv"]:
                names = {v["val"]: v["name"] for v in s["rv"]["variants"] if "val" in v}
    return d, names


def enumerate_paths(body, max_paths=20000, choose=None, stop_at_loops=True, start=0):
    """All acyclic entry-to-exit paths over normal edges.  `choose(bb, discr_term,
    names, term)` may return a restricted list of successor blocks (partitioning).
    Returns list of Path with conds filled; ret terms are computed lazily by
    `path_return_term`."""
    terms = Terms(body)
    out = []
    stack = [(start, [], [])]
    while stack:
        bb, conds, blocks = stack.pop()
        if len(out) > max_paths:
            raise TooManyPaths(body.path)
        if bb in blocks:
            out.append(Path(conds, blocks + [bb], "loop"))
            continue
        blocks = blocks + [bb]
        t = body.blocks[bb]["term"]
        k = t["k"]
        if k == "return":
            out.append(Path(conds, blocks, "return"))
        elif k == "switch":
            d, names = switch_discr_info(body, bb)
            dt = terms.operand(d, bb)
            if dt[0] == "discr":
                dt = ("discr", dt[1])
            succs = [(v, tgt) for v, tgt in t["targets"]] + [("otherwise", t["otherwise"])]
            allowed = None
            if choose is not None:
                allowed = choose(bb, dt, names, t)
            if names is not None and dt[0] == "discr":
                # a value built by a known constructor (`opt.map(Side::Upstream)` matched by an inlined helper): one arm only
                kv0_ = _known_variant(nosite(dt[1])) if dt[1][0] == "field" else None
                if kv0_ is not None and kv0_ in names.values():
                    keep0_ = switch_target(t, names, kv0_)
                    allowed = {keep0_} if allowed is None else (set(allowed) & {keep0_})
            if names is not None and dt[0] == "discr" and body.raw.get("inlined") and contains(dt[1], lambda q: q[0] == "phi" and any((a_[0] == "agg" and a_[1] in ("std::result::Result", "std::option::Option")) or (a_[0] == "call" and a_[1].endswith("::from_residual")) for a_ in q[1])):
                # the result of an inlined copy: on this path it is one of its literal outcomes — prune while walking
                edges_ = set(zip(blocks, blocks[1:]))
                try:
                    pt_ = Terms(body, edge_ok=lambda a_, b_, edges_=edges_: (a_, b_) in edges_).operand(d, bb)
                    kv_ = _known_variant(pt_[1]) if pt_[0] == "discr" else None
                except Exception:
                    kv_ = None
                if kv_ is not None and kv_ in names.values():
                    keep_ = switch_target(t, names, kv_)
                    allowed = {keep_} if allowed is None else (set(allowed) & {keep_})
            for v, tgt in succs:
                if allowed is not None and tgt not in allowed:
                    continue
                label = v
                if names is not None and v != "otherwise":
                    label = names.get(v, v)
                elif names is not None and v == "otherwise":
                    taken = {names.get(x, x) for x, _ in t["targets"]}
                    rest = [n for n in names.values() if n not in taken]
                    label = ("otherwise", tuple(rest))
                stack.append((tgt, conds + [(dt, label, bb)], blocks))
        elif k in ("goto", "call", "drop", "assert"):
            if "target" in t:
                stack.append((t["target"], conds, blocks))
            else:
                out.append(Path(conds, blocks, "diverge"))
        elif k == "unreachable":
            out.append(Path(conds, blocks, "unreachable"))
        else:
            out.append(Path(conds, blocks, "diverge"))
    if body.raw.get("inlined"):
        out = [p_ for p_ in out if _path_feasible(body, p_)]
    return out


def _known_variant(t):
    """variant of a term that is a literal on the path: Ok(..)/Err(..)/Some(..)/None or any aggregate of an enum, seen through
    Try::branch (Ok/Some => Continue, Err/None => Break)"""
    while t[0] == "mut":
        t = t[1]
    if t[0] == "call" and t[1].endswith("::branch") and len(t[2]) == 1:
        v = _known_variant(t[2][0])
        if v in ("Ok", "Some"):
            return "Continue"
        if v in ("Err", "None"):
            return "Break"
        return None
    if t[0] == "agg" and isinstance(t[2], str):
        return t[2]
    # the payload of `opt.map(Enum::Variant)`: built by that variant's constructor whatever opt holds
    if t[0] == "field" and str(t[2]) == "0" and t[1][0] == "variant" and t[1][2] in ("Some", "Ok"):
        m_ = t[1][1]
        while m_[0] == "mut":
            m_ = m_[1]
        if m_[0] == "call" and re.search(r"(Option::<T>|Result::<T, E>)::map$", m_[1].split("{")[0]) and len(m_[2]) == 2 and m_[2][1][0] == "fn":
            seg = m_[2][1][1].split("{")[0].split("::")
            if len(seg) >= 2 and seg[-1][:1].isupper() and seg[-2][:1].isupper():
                return seg[-1]
    if t[0] == "call" and re.search(r"FromResidual<.*>>::from_residual$", t[1]):
        # the value `e?` returns early with: always the error side
        return "Err" if t[1].startswith("<std::result::Result<") else ("None" if t[1].startswith("<std::option::Option<") else None)
    return None


def _path_feasible(body, path):
    """in a body that received inlined copies: a path that takes the `Break` arm of `x?` although x is a literal Ok(..) on
    that very path (the inlined helper's `Ok(v)` flowing into the caller's `?`) cannot happen"""
    if not path.conds:
        return True
    seen_bb = set()
    for dt, label, bb in path.conds:
        if dt[0] != "discr" or bb in seen_bb:
            continue
        seen_bb.add(bb)
        # the values known when the switch is reached the first time: only the edges of the path before it
        k = path.blocks.index(bb)
        edges = set(zip(path.blocks[:k + 1], path.blocks[1:k + 1]))
        tm = Terms(body, edge_ok=lambda a, b, edges=edges: (a, b) in edges)
        try:
            d, names = switch_discr_info(body, bb)
            pt = tm.operand(d, bb)
        except Exception:
            continue
        if pt[0] != "discr":
            continue
        v = _known_variant(pt[1])
        if v is None:
            continue
        allowed = set(label[1]) if isinstance(label, tuple) else {label}
        if names is not None and v in names.values() and v not in allowed:
            return False
    return True


class TooManyPaths(Exception):
    pass


def path_terms(body, path):
    """a Terms instance restricted to the edges of one path"""
    edges = set(zip(path.blocks, path.blocks[1:]))
    return Terms(body, edge_ok=lambda a, b: (a, b) in edges)


def path_return_term(body, path):
    if path.end != "return":
        return None
    tm = path_terms(body, path)
    rb = path.blocks[-1]
    return tm.local(0, rb, len(body.blocks[rb]["stmts"]))


def path_calls(body, path):
    out = []
    for bb in path.blocks:
        t = body.blocks[bb]["term"]
        if t["k"] == "call":
            out.append(CallSite(body, bb, t))
    return out


# --------------------------------------------------------------------------
# polynomial (rational-function-free) arithmetic over terms, exact rationals
# --------------------------------------------------------------------------


class Poly:
    """multivariate polynomial with Fraction coefficients; monomial = sorted tuple of (sym, power)"""

    def __init__(self, d=None):
        self.d = {k: v for k, v in (d or {}).items() if v != 0}

    @staticmethod
    def const(c):
        return Poly({(): Fraction(c)})

    @staticmethod
    def sym(name):
        return Poly({((name, 1),): Fraction(1)})

    def __add__(self, o):
        r = dict(self.d)
        for k, v in o.d.items():
            r[k] = r.get(k, 0) + v
        return Poly(r)

    def __neg__(self):
        return Poly({k: -v for k, v in self.d.items()})

    def __sub__(self, o):
        return self + (-o)

    def __mul__(self, o):
        r = {}
        for k1, v1 in self.d.items():
            for k2, v2 in o.d.items():
                m = defaultdict(int)
                for s, p in k1:
                    m[s] += p
                for s, p in k2:
                    m[s] += p
                k = tuple(sorted((s, p) for s, p in m.items() if p))
                r[k] = r.get(k, 0) + v1 * v2
        return Poly(r)

    def is_const(self):
        return all(k == () for k in self.d)

    def const_value(self):
        return self.d.get((), Fraction(0))

    def __eq__(self, o):
        return isinstance(o, Poly) and self.d == o.d

    def __hash__(self):
        return hash(frozenset(self.d.items()))

    def symbols(self):
        return {s for k in self.d for s, _ in k}

    def __repr__(self):
        if not self.d:
            return "0"
        parts = []
        for k, v in sorted(self.d.items(), key=lambda kv: str(kv[0])):
            mon = "*".join(s if p == 1 else "%s^%d" % (s, p) for s, p in k)
            parts.append(("%s*%s" % (v, mon)) if mon else str(v))
        return " + ".join(parts)


class Ratio:
    """rational function p/q"""

    def __init__(self, p, q=None):
        self.p = p
        self.q = q if q is not None else Poly.const(1)

    def __add__(self, o):
        return Ratio(self.p * o.q + o.p * self.q, self.q * o.q)

    def __sub__(self, o):
        return Ratio(self.p * o.q - o.p * self.q, self.q * o.q)

    def __mul__(self, o):
        return Ratio(self.p * o.p, self.q * o.q)

    def __truediv__(self, o):
        return Ratio(self.p * o.q, self.q * o.p)

    def __neg__(self):
        return Ratio(-self.p, self.q)

    def equals(self, o):
        return self.p * o.q == o.p * self.q

    def linear_factor(self, sym):
        """if self == k * sym with constant rational k, return k else None"""
        if not self.q.is_const() or self.q.const_value() == 0:
            return None
        qv = self.q.const_value()
        d = self.p.d
        if set(d.keys()) <= {((sym, 1),)}:
            return d.get(((sym, 1),), Fraction(0)) / qv
        return None

    def __repr__(self):
        if self.q.is_const() and self.q.const_value() == 1:
            return repr(self.p)
        return "(%r)/(%r)" % (self.p, self.q)


def float_fraction(s):
    """exact rational of a float literal as printed by rustc ({:?} shortest round-trip)"""
    s = str(s)
    if s in ("inf", "+inf"):
        return None
    if s in ("-inf", "NaN", "nan"):
        return None
    return Fraction(s)


# --------------------------------------------------------------------------
# misc
# --------------------------------------------------------------------------

CMP_METHODS = {"lt": "Lt", "le": "Le", "gt": "Gt", "ge": "Ge", "eq": "Eq", "ne": "Ne"}
CMP_MIRROR = {"Lt": "Gt", "Le": "Ge", "Gt": "Lt", "Ge": "Le", "Eq": "Eq", "Ne": "Ne"}
CMP_NEG = {"Lt": "Ge", "Le": "Gt", "Gt": "Le", "Ge": "Lt", "Eq": "Ne", "Ne": "Eq"}


def as_cmp(t):
    """normalise a comparison term to (op, a, b) or None; handles MIR BinaryOp and
    PartialOrd/PartialEq method calls on newtypes (see S0 for why that is sound)"""
    if t[0] == "bin" and t[1] in ("Lt", "Le", "Gt", "Ge", "Eq", "Ne"):
        return (t[1], t[2], t[3])
    if t[0] == "call":
        m = re.search(r"std::cmp::(PartialOrd|PartialEq)\b.*::(lt|le|gt|ge|eq|ne)$", t[1])
        if m and len(t[2]) == 2:
            return (CMP_METHODS[m.group(2)], t[2][0], t[2][1])
    if t[0] == "un" and t[1] == "Not":
        c = as_cmp(t[2])
        if c:
            return (CMP_NEG[c[0]], c[1], c[2])
    return None


def canon_cmp(c):
    """canonical orientation: Gt/Ge are mirrored into Lt/Le"""
    op, a, b = c
    if op in ("Gt", "Ge"):
        return (CMP_MIRROR[op], b, a)
    return c


# --------------------------------------------------------------------------
# arithmetic reading of terms (affine / rational-function domain)
# --------------------------------------------------------------------------

_OPS_RE = re.compile(r"std::ops::(Add|Sub|Mul|Div|Neg)(?:<[^>]*>)?>?::(add|sub|mul|div|neg)$")
_IDENT_CALL_RE = re.compile(
    r"(::as_f64::AsF64>::as_f64|::AsF64::as_f64|::to_f64|::unit::\w+::\w+::new|OrderedFloat<T>::into_inner|<T as std::convert::Into<U>>::into|std::convert::Into::into|std::convert::From::from|as std::convert::From<f64>>::from|as std::convert::From<[\w:]+>>::from)(\{[^{}]*\})?$"
)


def numeric_newtypes(F):
    """workspace structs that wrap a single float (transitively): Distance, Cost, InternalFloat, ..."""
    base = {"ordered_float::OrderedFloat"}
    out = set(base)
    changed = True
    while changed:
        changed = False
        for p, a in F.adts.items():
            if p in out or a["kind"] != "struct" or len(a["variants"]) != 1:
                continue
            fs = a["variants"][0]["fields"]
            if len(fs) != 1:
                continue
            tr = fs[0]["tree"]
            if (tr["k"] == "prim" and tr["s"] in ("f64", "f32")) or (tr["k"] == "adt" and tr["path"] in out):
                out.add(p)
                changed = True
    return out


class Arith:
    """maps a term to a Ratio over opaque symbols.  Only +,-,*,/ and neg are
    interpreted; newtype wrapping/unwrapping and as_f64/new/into are identities
    (their derive shape is checked by the S0 inventory rule)."""

    def __init__(self, F, symbols=None):
        self.F = F
        self.newtypes = numeric_newtypes(F)
        self.symbols = symbols or {}
        self.opaque = {}
        self.items_numeric = True

    def sym(self, t):
        key = nosite(t)
        if key in self.symbols:
            return Ratio(Poly.sym(self.symbols[key]))
        name = self.opaque.get(key)
        if name is None:
            name = short(key)
            self.opaque[key] = name
        return Ratio(Poly.sym(name))

    def ev(self, t):
        key = nosite(t)
        if key in self.symbols:
            return Ratio(Poly.sym(self.symbols[key]))
        h = t[0]
        if h == "item":
            c = self.F.consts.get(t[1])
            if c is not None and "as_f64" in c and self.items_numeric:
                try:
                    fr = float_fraction(c["as_f64"])
                except Exception:
                    fr = None
                if fr is not None:
                    return Ratio(Poly.const(fr))
            return self.sym(t)
        if h == "const":
            v = t[2]
            if isinstance(v, bool):
                return self.sym(t)
            if isinstance(v, int):
                return Ratio(Poly.const(v))
            fr = None
            try:
                fr = float_fraction(v)
            except Exception:
                fr = None
            if fr is None:
                return self.sym(t)
            return Ratio(Poly.const(fr))
        if h == "field" and t[2] in ("0", 0):
            return self.ev(t[1])
        if h == "agg" and t[1] in self.newtypes and len(t[3]) == 1:
            return self.ev(t[3][0][1])
        if h == "cast" and t[1] in ("IntToFloat", "FloatToFloat", "IntToInt"):
            return self.ev(t[2])
        if h == "bin" and t[1] in ("Add", "Sub", "Mul", "Div", "AddWithOverflow", "SubWithOverflow", "MulWithOverflow", "AddUnchecked", "SubUnchecked", "MulUnchecked"):
            a, b = self.ev(t[2]), self.ev(t[3])
            op = t[1][:3]
            return {"Add": a + b, "Sub": a - b, "Mul": a * b, "Div": a / b}[op]
        if h == "un" and t[1] == "Neg":
            return -self.ev(t[2])
        if h == "call":
            m = _OPS_RE.search(t[1])
            if m:
                op = m.group(1)
                args = [self.ev(a) for a in t[2]]
                if op == "Neg" and len(args) == 1:
                    return -args[0]
                if len(args) == 2:
                    a, b = args
                    return {"Add": a + b, "Sub": a - b, "Mul": a * b, "Div": a / b}[op]
            if _IDENT_CALL_RE.search(t[1]) and len(t[2]) == 1:
                return self.ev(t[2][0])
        return self.sym(t)


def ops_impl_inventory(F, ctx=None):
    """S0 (arithmetic part): every std::ops impl on a numeric newtype of the workspace is a
    derive whose body applies the same operator to the wrapped value with the operands in order.
    Returns list of (impl path, ok, detail)."""
    nts = numeric_newtypes(F)
    res = []
    for p, b in sorted(F.bodies.items()):
        m = re.match(r"^<(.+?) as std::ops::(Add|Sub|Mul|Div|Neg|AddAssign|SubAssign|MulAssign|DivAssign)(<.*>)?>::(\w+)$", p)
        if not m:
            continue
        ty = m.group(1)
        if ty not in nts:
            continue
        op = m.group(2)
        if op.endswith("Assign"):
            res.append((p, b.raw.get("auto_derived", False), "assign-op derive"))
            continue
        rt = Terms(b).return_term()
        ok = False
        detail = short(rt)
        if rt[0] == "agg" and rt[1] == ty and len(rt[3]) == 1:
            inner = rt[3][0][1]
            if inner[0] == "call" and _OPS_RE.search(inner[1]) and _OPS_RE.search(inner[1]).group(1) == op:
                args = inner[2]
                if op == "Neg":
                    ok = args == (("field", ("arg", 1), "0"),)
                else:
                    ok = len(args) == 2 and args[0] == ("field", ("arg", 1), "0") and args[1] in (("arg", 2), ("field", ("arg", 2), "0"))
        res.append((p, ok, detail))
    return res


def cond_truth(label):
    """truth value of a bool switch label (0 -> False, otherwise/1 -> True)"""
    if label == 0:
        return False
    return True


def canon_fact(c, truth=True):
    """canonical true fact from comparison (op,a,b) and its truth value:
    ops restricted to Lt, Le, Eq, Ne; operands site-erased"""
    op, a, b = c
    if not truth:
        op = CMP_NEG[op]
    if op in ("Gt", "Ge"):
        op, a, b = CMP_MIRROR[op], b, a
    a, b = nosite(deep_strip(a)), nosite(deep_strip(b))
    if op in ("Eq", "Ne") and repr(a) > repr(b):
        a, b = b, a
    return (op, a, b)


_INT_TYS = ("usize", "u8", "u16", "u32", "u64", "u128", "isize", "i8", "i16", "i32", "i64", "i128")


def path_facts(path, body=None):
    """comparison facts known to hold along a path (from its bool switches; with `body`, also from its integer matches:
    the arm `k =>` gives x == k, the default arm x != k for every listed k, and 0 < x for an unsigned x when 0 is listed)"""
    facts = set()
    for dt, label, bb in path.conds:
        term = body.blocks[bb]["term"] if body is not None and isinstance(bb, int) and 0 <= bb < len(body.blocks) else None
        if dt[0] != "discr" and term is not None and term.get("k") == "switch" and term.get("discr_ty") in _INT_TYS and as_cmp(dt) is None:
            ty = term["discr_ty"]
            if isinstance(label, int) and not isinstance(label, bool):
                facts.add(canon_fact(("Eq", dt, ("const", ty, label)), True))
            elif label == "otherwise":
                for v, _ in term["targets"]:
                    facts.add(canon_fact(("Ne", dt, ("const", ty, v)), True))
                    if v == 0 and ty.startswith("u"):
                        facts.add(canon_fact(("Lt", ("const", ty, 0), dt), True))
            continue
        if dt[0] == "discr":
            # match a.cmp(&b) { Less | Equal | Greater }: the selected arms are comparison facts
            d = dt[1]
            while d[0] == "call" and _is_unwrapish(d[1]) and d[2]:
                d = d[2][0]
            if d[0] == "call" and re.search(r"std::cmp::(Ord>?::cmp|PartialOrd(<[^>]*>)?>?::partial_cmp)$|::cmp$|::partial_cmp$", d[1]) and len(d[2]) == 2:
                a_, b_ = d[2]
                names = set(label[1]) if isinstance(label, tuple) else {label}
                names &= {"Less", "Equal", "Greater"}
                m = {frozenset(["Less"]): ("Lt", a_, b_), frozenset(["Greater"]): ("Lt", b_, a_), frozenset(["Equal"]): ("Eq", a_, b_), frozenset(["Less", "Equal"]): ("Le", a_, b_), frozenset(["Greater", "Equal"]): ("Le", b_, a_), frozenset(["Less", "Greater"]): ("Ne", a_, b_)}
                c3 = m.get(frozenset(names))
                if c3:
                    facts.add(canon_fact(c3, True))
            continue
        c = as_cmp(dt)
        if c is None:
            continue
        if isinstance(label, tuple):
            truth = True
        else:
            truth = cond_truth(label)
        facts.add(canon_fact(c, truth))
    return facts


_REL = {"Lt": {"<"}, "Le": {"<", "="}, "Eq": {"="}, "Ne": {"<", ">"}}


def order_region(facts, a, b):
    """the order relations between a and b ('<', '=', '>') that are consistent with the canonical facts of a path"""
    region = {"<", "=", ">"}
    flip = {"<": ">", ">": "<", "=": "="}
    for op, x, y in facts:
        if op not in _REL:
            continue
        if (x, y) == (a, b):
            region &= _REL[op]
        elif (x, y) == (b, a):
            region &= {flip[r] for r in _REL[op]}
    return region


def implies(facts, goal):
    """facts (canonical comparisons of one path) entail the comparison `goal` = (op, a, b)"""
    op, a, b = canon_fact(goal, True)
    return order_region(facts, a, b) <= _REL[op] and order_region(facts, a, b) != set() or goal in facts


def result_variant(t):
    """'Ok' / 'Err' / 'Some' / 'None' of an aggregate Result/Option term, else None"""
    if t and t[0] == "agg" and t[1] in ("std::result::Result", "std::option::Option", "core::result::Result", "core::option::Option"):
        return t[2]
    return None


def agg_payload(t):
    if t and t[0] == "agg" and t[3]:
        return t[3][0][1]
    return None




def tree_of(F, root):
    """a function, its closures (transitively) and the *new* helper functions they call (functions that did not exist when the
    rules were written, e.g. a closure body extracted into a named function)"""
    out, work = [], [root]
    known = known_functions()
    while work:
        p = work.pop()
        if p in out or p not in F.bodies:
            continue
        out.append(p)
        b = F.bodies[p]
        for q in sorted(F.bodies):
            if q.startswith(p + "::{closure") and q not in out:
                work.append(q)
        for q in b.closures_created():
            if q in F.bodies and q not in out:
                work.append(q)
        for c in b.calls():
            k = c.callee
            if k and known and k in F.bodies and k not in known and "{closure" not in k:
                work.append(k)
    return [F.bodies[p] for p in out]



def is_lookup_or_err(F, b, look, err_variant=None):
    """the function returns Ok(look) when the lookup `look` (an Option-valued term) is Some and an Err (optionally of the given
    variant) when it is None — written as a match / if let, or as look.ok_or(err) / ok_or_else(|| err)"""
    rows = [r for r in table(b) if r.end == "return"]
    def err_ok(e):
        if e is None:
            return False
        if result_variant(e) == "Err":
            e = agg_payload(e)
        return err_variant is None or (e is not None and e[0] == "agg" and e[2] == err_variant)
    if any(r.sel.get(look) == "Some" and r.ret == ("agg", "std::result::Result", "Ok", (("0", look),)) for r in rows) and any(r.sel.get(look) == "None" and result_variant(r.ret) == "Err" and err_ok(r.ret) for r in rows):
        return True
    rt = nosite(Terms(b).return_term())
    if rt[0] == "call" and re.search(r"Option::<T>::ok_or(_else)?$", rt[1]) and len(rt[2]) == 2 and nosite(deep_strip(rt[2][0])) == look:
        e = rt[2][1]
        if e[0] == "closure" and e[1] in F.bodies:
            e = nosite(Terms(F.bodies[e[1]]).return_term())
        return e[0] == "agg" and err_ok(e)
    return False


def partitioned_terms(body, removed_edges):
    """value-flow terms of the part of the function that remains when the given CFG edges are never taken
    (trace partitioning: decide a switch one way and read the values the rest of the function computes)"""
    removed = set(removed_edges)
    live = set()
    work = [0]
    while work:
        x = work.pop()
        if x in live:
            continue
        live.add(x)
        work += [y for y in body.succ[x] if (x, y) not in removed]
    tm = Terms(body, edge_ok=lambda x, y: (x, y) not in removed and x in live)
    tm.live = live
    return tm


# --------------------------------------------------------------------------
# MIR-level inlining of new helper functions
# --------------------------------------------------------------------------
# A function that is not in known_functions.txt did not exist when the rules were written: it is code that a refactoring moved
# out of (or shared between) the functions the rules are anchored in.  Before any rule runs, every call of such a helper is
# replaced by a copy of the helper's blocks (locals and block numbers shifted, arguments assigned, `return` turned into a jump
# to the continuation), so that CFG, dominators, loops, value-flow terms and tables of the anchored function are those of the
# program with the helper written out in place.  After that, switches on an enum discriminant or bool that is a constant in
# the inlined copy (a `direction: &Direction` parameter that the caller passes as `&Direction::Forward`) are folded to a jump.
# Recursive helpers, trait methods and closures are not inlined (closures called directly are handled on the value level).
# On the unchanged tree there is no such function and nothing happens.

_INLINE_MAX_BLOCKS = 400


def _shift(o, loff, boff, cont, unwind_to):
    """deep copy of a MIR fragment with locals shifted by loff and block numbers by boff"""
    if isinstance(o, list):
        return [_shift(x, loff, boff, cont, unwind_to) for x in o]
    if not isinstance(o, dict):
        return o
    out = {}
    for k, v in o.items():
        if k == "l" and isinstance(v, int):
            out[k] = v + loff
        elif k in ("target", "otherwise", "unwind") and isinstance(v, int):
            out[k] = v + boff
        elif k == "targets" and isinstance(v, list):
            out[k] = [[x[0], x[1] + boff] for x in v]
        else:
            out[k] = _shift(v, loff, boff, cont, unwind_to)
    return out


def _inline_calls(raw, helpers, stats):
    """raw body with every call of an inlinable helper replaced by the helper's (already processed) blocks"""
    blocks = raw["blocks"]
    if not any(b["term"]["k"] == "call" and (b["term"]["func"].get("resolved") or b["term"]["func"].get("def")) in helpers for b in blocks):
        return raw
    raw = dict(raw)
    raw["inlined"] = True
    raw["blocks"] = blocks = [dict(b, stmts=list(b["stmts"])) for b in blocks]
    raw["locals"] = locals_ = list(raw["locals"])
    raw["debug"] = debug = list(raw.get("debug", []))
    n0 = len(blocks)
    for i in range(n0):
        t = blocks[i]["term"]
        if t["k"] != "call":
            continue
        key = t["func"].get("resolved") or t["func"].get("def")
        H = helpers.get(key)
        if H is None or len(t["args"]) != H["argc"] or len(blocks) + len(H["blocks"]) > 4000 or blocks[i]["cleanup"]:
            continue
        loff, boff = len(locals_), len(blocks)
        cont = boff + len(H["blocks"])
        locals_.extend(H["locals"])
        line = t.get("line")
        for j, a in enumerate(t["args"]):
            blocks[i]["stmts"].append({"k": "assign", "place": {"l": loff + j + 1, "p": []}, "rv": {"k": "use", "op": a}, "line": line, "exp": False, "inl": key})
        uw = t.get("unwind") if isinstance(t.get("unwind"), int) else None
        ret_blocks = []
        for hi, hb in enumerate(H["blocks"]):
            nb = _shift(hb, loff, boff, cont, uw)
            if nb["term"]["k"] == "return":
                nb["term"] = {"k": "goto", "target": cont, "line": nb["term"].get("line"), "exp": False}
                ret_blocks.append(boff + hi)
            elif nb["term"]["k"] == "resume" and uw is not None:
                nb["term"] = {"k": "goto", "target": uw, "line": nb["term"].get("line"), "exp": False}
            blocks.append(nb)
        tgt = t.get("target")
        cont_term = {"k": "goto", "target": tgt, "line": line, "exp": False} if isinstance(tgt, int) else {"k": "unreachable", "line": line, "exp": False}
        move_ret = {"k": "assign", "place": t["dest"], "rv": {"k": "use", "op": {"k": "move", "place": {"l": loff, "p": []}, "ty": H["locals"][0]["ty"]}}, "line": line, "exp": False, "inl": key}
        blocks.append({"stmts": [move_ret], "term": cont_term, "cleanup": False})
        # `helper(..)?` : a copy that ends in a literal Ok(..) continues, one that ends in an error it propagated (or a literal
        # Err) leaves again — thread each such end of the copy to its own side of the caller's `?` (the branch call is
        # duplicated, data flow is unchanged; only the impossible Err->continue / Ok->leave edges disappear)
        q = _question_mark_at(blocks, tgt) if isinstance(tgt, int) else None
        if q is not None:
            tb_, sb_, cont_tgt, break_tgt = q
            nh = len(H["blocks"])
            ret = loff

            def agg_kind(stmts):
                for st in reversed(stmts):
                    if st["k"] == "assign" and st["place"]["l"] == ret and not st["place"]["p"]:
                        rv = st["rv"]
                        if rv["k"] == "agg" and rv.get("variant") in ("Ok", "Some"):
                            return "Continue"
                        if rv["k"] == "agg" and rv.get("variant") in ("Err", "None"):
                            return "Break"
                        return "?"
                return None

            def chain_from(x):
                """the straight-line blocks from x to the end of the copy (drops and gotos that do not touch the result)"""
                out = []
                while True:
                    if x == cont:
                        return out
                    if not (boff <= x < boff + nh) or len(out) > 10 or x in out:
                        return None
                    bx = blocks[x]
                    if agg_kind(bx["stmts"]) is not None or bx["term"]["k"] not in ("goto", "drop") or not isinstance(bx["term"].get("target"), int):
                        return None
                    out.append(x)
                    x = bx["term"]["target"]

            def threaded_tail(kind):
                n_ = len(blocks)
                t_clone = json.loads(json.dumps(blocks[tb_]))
                t_clone["term"]["target"] = n_ + 2
                t_clone["term"]["site"] = blocks[tb_]["term"].get("site", tb_)   # the same call, seen on one of its paths
                s_clone = {"stmts": json.loads(json.dumps(blocks[sb_]["stmts"])), "term": {"k": "goto", "target": cont_tgt if kind == "Continue" else break_tgt, "line": line, "exp": False, "threaded": kind}, "cleanup": False}
                blocks.append({"stmts": [json.loads(json.dumps(move_ret))], "term": {"k": "goto", "target": n_ + 1, "line": line, "exp": False}, "cleanup": False})
                blocks.append(t_clone)
                blocks.append(s_clone)
                return n_

            for d in range(boff, boff + nh):
                bd = blocks[d]
                td = bd["term"]
                kind = None
                if td["k"] == "call" and td.get("dest") and td["dest"]["l"] == ret and not td["dest"]["p"] and (td["func"].get("def") or "").endswith("FromResidual::from_residual") and isinstance(td.get("target"), int):
                    kind = "Break"
                elif td["k"] in ("goto", "drop") and isinstance(td.get("target"), int):
                    k_ = agg_kind(bd["stmts"])
                    kind = k_ if k_ in ("Continue", "Break") else None
                if kind is None:
                    continue
                ch = chain_from(td["target"])
                if ch is None:
                    continue
                tail = threaded_tail(kind)
                nxt = tail
                for x in reversed(ch):
                    cx = json.loads(json.dumps(blocks[x]))
                    cx["term"]["target"] = nxt
                    blocks.append(cx)
                    nxt = len(blocks) - 1
                td["target"] = nxt
        blocks[i]["term"] = {"k": "goto", "target": boff, "line": line, "exp": False, "inl_call": key}
        for d in H.get("debug", []):
            d2 = _shift(d, loff, 0, 0, None)
            d2.pop("arg", None)
            debug.append(d2)
        stats[key] = stats.get(key, 0) + 1
    return raw


def _question_mark_at(blocks, tgt):
    """the block `tgt` starts `x?`: (block with the Try::branch call, block with the switch, Continue target, Break target)"""
    tb = blocks[tgt]
    t = tb["term"]
    if tb["cleanup"] or t["k"] != "call" or t["func"].get("def") != "std::ops::Try::branch" or not isinstance(t.get("target"), int):
        return None
    if any(st["k"] != "assign" or st["rv"]["k"] not in ("use",) for st in tb["stmts"]):
        return None
    sb = blocks[t["target"]]
    st_ = sb["term"]
    if st_["k"] != "switch" or len(st_["targets"]) != 2 or any(s_["k"] != "assign" or s_["rv"]["k"] != "discr" for s_ in sb["stmts"]):
        return None
    tg = dict((v, b_) for v, b_ in st_["targets"])
    if set(tg) != {0, 1}:
        return None
    return tgt, t["target"], tg[0], tg[1]


def _return_kind(blocks, rb, loff, boff, nh):
    """does the inlined copy reach its end `rb` with a value that is certainly Ok/Some ('Continue') or certainly an error /
    None ('Break')?"""
    ret = loff
    for st in reversed(blocks[rb]["stmts"]):
        if st["k"] == "assign" and st["place"]["l"] == ret and not st["place"]["p"]:
            rv = st["rv"]
            if rv["k"] == "agg" and rv.get("variant") in ("Ok", "Some"):
                return "Continue"
            if rv["k"] == "agg" and rv.get("variant") in ("Err", "None"):
                return "Break"
            return None
    # no assignment here: the value was produced by the terminator(s) leading here
    preds = [i for i in range(boff, boff + nh) if i != rb and rb in [x for x in ([blocks[i]["term"].get("target")] + [y[1] for y in blocks[i]["term"].get("targets", [])] + [blocks[i]["term"].get("otherwise")]) if isinstance(x, int)]]
    kinds = set()
    for pi in preds:
        pt = blocks[pi]["term"]
        if pt["k"] == "call" and pt.get("dest") and pt["dest"]["l"] == ret and not pt["dest"]["p"] and (pt["func"].get("def") or "").endswith("FromResidual::from_residual"):
            kinds.add("Break")
        elif pt["k"] == "goto" and not blocks[pi]["stmts"] and False:
            kinds.add(None)
        else:
            # a plain block that assigns the value and falls through
            k_ = None
            for st in reversed(blocks[pi]["stmts"]):
                if st["k"] == "assign" and st["place"]["l"] == ret and not st["place"]["p"]:
                    rv = st["rv"]
                    if rv["k"] == "agg" and rv.get("variant") in ("Ok", "Some"):
                        k_ = "Continue"
                    elif rv["k"] == "agg" and rv.get("variant") in ("Err", "None"):
                        k_ = "Break"
                    break
            kinds.add(k_ if pt["k"] == "goto" else None)
    return list(kinds)[0] if len(kinds) == 1 and None not in kinds else None


def _fold_constant_switches(body):
    """switches of an inlined copy whose discriminant is a known enum variant or bool constant become jumps"""
    changed = False
    tm = Terms(body)
    for bb, blk in enumerate(body.blocks):
        t = blk["term"]
        if t["k"] != "switch" or blk["cleanup"]:
            continue
        try:
            d, names = switch_discr_info(body, bb)
            dt = tm.operand(d, bb)
        except Exception:
            continue
        x = dt
        while x[0] == "mut":
            x = x[1]
        tgt = None
        if names is not None and x[0] == "discr":
            v = x[1]
            while v[0] == "mut":
                v = v[1]
            if v[0] == "agg" and isinstance(v[2], str) and v[2] in names.values():
                tgt = switch_target(t, names, v[2])
        elif names is None and x[0] == "const" and isinstance(x[2], bool):
            hit = [tg for val, tg in t["targets"] if val == int(x[2])]
            tgt = hit[0] if hit else t["otherwise"]
        if tgt is not None:
            blk["term"] = {"k": "goto", "target": tgt, "line": t.get("line"), "exp": False, "folded": True}
            changed = True
    return changed


def _inline_new_helpers(facts):
    known = known_functions()
    if not known:
        return
    cand = {}
    for p, b in facts.bodies.items():
        r = b.raw
        if r.get("kind") in ("fn", "assocfn") and p not in known and not r.get("impl_trait") and "{closure" not in p and not p.startswith("const ") and b.crate in ("routee_compass_core", "routee_compass", "routee_compass_powertrain") and len(r["blocks"]) <= _INLINE_MAX_BLOCKS:
            cand[p] = r
    if not cand:
        return
    calls = {p: {(blk["term"]["func"].get("resolved") or blk["term"]["func"].get("def")) for blk in r["blocks"] if blk["term"]["k"] == "call"} & set(cand) for p, r in cand.items()}
    # helpers on a call cycle among themselves are left alone
    def reaches(a, b_, seen):
        for c in calls.get(a, ()):
            if c == b_ or (c not in seen and not seen.add(c) and reaches(c, b_, seen)):
                return True
        return False
    rec = {p for p in cand if reaches(p, p, set())}
    helpers = {}
    order = []
    def visit(p, stack=()):
        if p in helpers or p in rec or p in stack:
            return
        for c in sorted(calls.get(p, ())):
            visit(c, stack + (p,))
        helpers[p] = _inline_calls(cand[p], {k: v for k, v in helpers.items()}, facts.inlined.setdefault("sites", {}))
        order.append(p)
    for p in sorted(cand):
        visit(p)
    touched = []
    facts.original_bodies = {}
    for p, b in list(facts.bodies.items()):
        raw2 = helpers[p] if p in helpers else _inline_calls(b.raw, helpers, facts.inlined.setdefault("sites", {}))
        if raw2 is not b.raw:
            nb = Body(raw2, b.crate, facts)
            facts.original_bodies[p] = b
            facts.bodies[p] = nb
            touched.append(p)
    for key, body in list(facts.promoted.items()):
        pass
    # constant folding in the bodies that received a copy (a few rounds: folding exposes more constants)
    for p in touched:
        for round_ in range(3):
            body = facts.bodies[p]
            if not _fold_constant_switches(body) and round_ > 0:
                break
            # blocks that can no longer be reached are emptied, so that they are nobody's predecessor (value flow merges
            # the definitions of all predecessors)
            live = set()
            work = [0]
            blocks = body.raw["blocks"]
            def succs(t):
                out = []
                for k in ("target", "otherwise", "unwind"):
                    if isinstance(t.get(k), int):
                        out.append(t[k])
                out += [x[1] for x in t.get("targets", [])]
                return out
            while work:
                x = work.pop()
                if x in live:
                    continue
                live.add(x)
                work += succs(blocks[x]["term"])
            for i_, blk in enumerate(blocks):
                if i_ not in live:
                    blocks[i_] = {"stmts": [], "term": {"k": "unreachable", "line": blk["term"].get("line"), "exp": False, "dead": True}, "cleanup": blk["cleanup"]}
            facts.bodies[p] = Body(body.raw, body.crate, facts)
    # a helper whose every call was replaced is no longer a function of the program the rules look at (its closures stay:
    # the inlined copies create them); one that is still called somewhere (e.g. from a cleanup path) is kept
    still = set()
    for p, b in facts.bodies.items():
        for blk in b.raw["blocks"]:
            t = blk["term"]
            if t["k"] == "call":
                k = t["func"].get("resolved") or t["func"].get("def")
                if k in helpers:
                    still.add(k)
    facts.inlined_bodies = {}
    for p in helpers:
        if p not in still and facts.inlined.get("sites", {}).get(p):
            facts.inlined_bodies[p] = facts.bodies.pop(p)
    facts.inlined["helpers"] = sorted(helpers)
    facts.inlined["removed"] = sorted(facts.inlined_bodies)
    facts.inlined["recursive"] = sorted(rec)
    facts.inlined["into"] = sorted(touched)

# --------------------------------------------------------------------------
# positional reading of iterator chains
# --------------------------------------------------------------------------


def clean(t):
    """site-free, stripped, un-`mut`ed term with every kind of indexing shown as ('at', base, index)"""
    def f(x):
        if x[0] == "mut":
            return rewrite(unmut(x), f)
        if x[0] == "call" and len(x[2]) == 2 and re.search(r"::index(_mut)?$", x[1]):
            return ("at", rewrite(x[2][0], f), rewrite(x[2][1], f))
        if x[0] == "index" and len(x) == 3:
            return ("at", rewrite(x[1], f), rewrite(x[2], f))
        return None
    return rewrite(nosite(deep_strip(t)), f)


def positional_form(F, chain, I=("i",)):
    """An iterator chain read position by position: (element at position I, set of length terms), or None.
    iter(X) -> X[I]; 0..n -> I; enumerate(S) -> (I, S[I]); zip(A, B) -> (A[I], B[I]); map(S, f) -> f(S[I]);
    copied/cloned/into_iter/by_ref are transparent.  All of `slice.iter().zip(0..n)`, `.iter().enumerate()` and
    `.iter().zip(other.iter())` therefore read as the same pairing of elements."""
    t = chain
    while t[0] == "mut":
        t = unmut(t)
    if t[0] == "agg" and t[1].endswith("ops::Range") and dict(t[3]).get("start") in (("const", "usize", 0),):
        return I, {clean(dict(t[3])["end"])}
    if t[0] != "call":
        return None
    name = t[1].split("{")[0]
    a = t[2]
    if len(a) == 1 and re.search(r"(::into_iter|Iterator>?::(copied|cloned|by_ref|fuse|collect)|Itertools::collect_vec|::iter_mut|::iter|::into_boxed_slice|::to_vec|::into_vec)$", name):
        inner = positional_form(F, a[0], I)
        if inner is not None:
            return inner
        if re.search(r"(::iter|::iter_mut|::into_iter)$", name):
            x = clean(a[0])
            # (an adaptor chain this function cannot read — rev, skip, filter, .. — is not an opaque *collection*: its
            # positions are not those of the sequence underneath)
            if x[0] == "call" and re.search(r"Iterator>?::\w+$|Itertools::\w+$", x[1].split("{")[0]):
                return None
            return ("at", x, I), {("len", x)}
        return None
    if len(a) == 1 and itm(name, "enumerate"):
        inner = positional_form(F, a[0], I)
        return None if inner is None else (("tuple", (I, inner[0])), inner[1])
    if len(a) == 2 and itm(name, "zip"):
        l, r = positional_form(F, a[0], I), positional_form(F, a[1], I)
        if r is None:
            # zip takes any IntoIterator: a collection handed over as it is (`xs.iter().zip(ys)`) is walked from its start
            y = clean(a[1])
            if not (y[0] == "call" and re.search(r"Iterator>?::\w+$|Itertools::\w+$", y[1].split("{")[0]) and not itm(y[1], "next")) and y[0] not in ("closure", "const"):
                r = (("at", y, I), {("len", y)})
        return None if l is None or r is None else (("tuple", (l[0], r[0])), l[1] | r[1])
    if len(a) == 2 and itm(name, "map") and a[1][0] == "fn":
        # a tuple-struct constructor or function used as the mapper
        inner = positional_form(F, a[0], I)
        return None if inner is None else (("call", a[1][1], (inner[0],)), inner[1])
    if len(a) == 2 and itm(name, "map") and a[1][0] == "closure" and a[1][1] in F.bodies:
        inner = positional_form(F, a[0], I)
        if inner is None:
            return None
        cb = F.bodies[a[1][1]]
        if cb.natural_loops():
            return None
        v = substitute_closure(Terms(cb).return_term(), a[1][2], (inner[0],))
        return proj_simplify(clean(v)), inner[1]
    # a workspace function that hands out an iterator (StateModel::indexed_iter, ..): an opaque sequence
    if re.sub(r"\{.*\}$", "", t[1]) in F.bodies and not re.search(r"Iterator|Itertools", name):
        x = clean(t)
        return ("at", x, I), {("len", x)}
    return None



def sequence_form(F, body, t, I=("i",)):
    """positional reading of a collection value inside `body`: an iterator chain (positional_form), or a vector that a loop of
    `body` fills with exactly one push per turn (`for x in src { v.push(f(x)) }` reads as src.map(f)).  Returns
    (element at position I, set of length terms) or None."""
    t = clean(t)
    base = t
    while base[0] == "call" and len(base[2]) == 1 and re.search(r"(::into_iter|::iter|::iter_mut|Iterator>?::(copied|cloned|collect)|::into_boxed_slice|::to_vec)$", base[1].split("{")[0]):
        base = base[2][0]
    # a vector that a loop of `body` fills (looked at first: read as a bare collection it would be an opaque sequence)
    if base[0] == "call" and re.search(r"Vec::<T>::(new|with_capacity)$|^vec!$", base[1].split("{")[0]):
        for e in elementwise_builds(body):
            if e["form"] != "loop" or not e.get("sink", "").endswith("::push") or clean(e["sink_recv"]) != base:
                continue
            src = positional_form(F, clean(e["src"]), I)
            if src is None or len(e["values"]) != 1:
                continue
            v = rewrite(clean(e["values"][0]), lambda y: src[0] if y == ("elem",) else None)
            return proj_simplify(v), src[1]
    pf = positional_form(F, t, I)
    if pf is not None:
        return proj_simplify(pf[0]), pf[1]
    return None


def none_is_err(body, call, tm=None):
    """every returning path of `body` on which the Option produced by `call` is None returns an Err value"""
    tm = tm or Terms(body)
    st = clean(tm.call_term(call.term, call.bb))
    seen = False
    if body.natural_loops():
        # inside a loop: read the rows of the loop that holds the call
        lp = innermost_loop(body, call.bb)
        if lp is None:
            return False
        for r in iteration_table(body, lp[0]):
            for dt, l, _ in r.conds:
                names = set(l[1]) if isinstance(l, tuple) else {l}
                if clean(dt) == ("discr", st) and names == {"None"}:
                    seen = True
                    if not (r.kind == "return" and r.ret is not None and (is_err_value(deep_strip(r.ret)) or result_variant(nosite(r.ret)) == "Err")):
                        return False
        return seen
    for r in table(body, max_paths=20000):
        if r.end != "return":
            continue
        for k, v in r.sel.items():
            if clean(k) == st and v == "None":
                seen = True
                if not is_err_value(r.ret) and result_variant(r.ret) != "Err":
                    return False
    return seen



def chain_steps(F, t):
    """an iterator chain as (base, steps): steps from the innermost adaptor outwards, each (adaptor name, value of its closure
    over ('elem',) with the captures replaced by the caller's terms, or None when it takes no closure)"""
    steps = []
    t = clean(t)
    while t[0] == "call" and t[2]:
        name = t[1].split("{")[0]
        short_name = re.sub(r"<[^<>]*>", "", name).split("::")[-1]
        if not re.search(r"Iterator|Itertools|IntoIterator|::iter$|::iter_mut$|::into_iter$|::keys$|::values$", name):
            break
        if re.search(r"::(iter|iter_mut|keys|values)$", name) and len(t[2]) == 1:
            steps.append((short_name, None))
            t = t[2][0]
            break
        val = None
        if len(t[2]) == 2 and t[2][1][0] == "closure" and t[2][1][1] in F.bodies:
            cb = F.bodies[t[2][1][1]]
            if not cb.natural_loops():
                val = clean(substitute_closure(Terms(cb).return_term(), t[2][1][2], (("elem",),)))
        elif len(t[2]) == 2:
            val = t[2][1]
        steps.append((short_name, val))
        t = t[2][0]
    steps.reverse()
    return t, steps


def proj_simplify(t):
    """field k of a literal tuple is its k-th component; a tuple rebuilt from all components of x in order, (x.0, x.1, .., x.n)
    with n >= 1, is x (a destructured and re-assembled triple is the triple)"""
    def f(x):
        if x[0] == "field" and isinstance(x[1], tuple) and str(x[2]).isdigit():
            b = rewrite(x[1], f)
            if b[0] == "tuple" and int(x[2]) < len(b[1]):
                return b[1][int(x[2])]
            return ("field", b, x[2])
        if x[0] == "tuple" and len(x[1]) >= 2:
            comps = [rewrite(c, f) for c in x[1]]
            if all(c[0] == "field" and str(c[2]) == str(i) for i, c in enumerate(comps)) and len({c[1] for c in comps}) == 1 and _tuple_arity(comps[0][1]) in (None, len(comps)):
                return comps[0][1]
            return ("tuple", tuple(comps))
        return None
    return rewrite(t, f)


def _tuple_arity(t):
    """number of components when the term is known to be a tuple of that size (a literal), None when unknown"""
    return len(t[1]) if t[0] == "tuple" else None

# --------------------------------------------------------------------------
# control-flow helpers used by path rules
# --------------------------------------------------------------------------


def switches(body, tm=None):
    """all switch terminators (non-cleanup) with their stripped discriminant term:
    yields (bb, term, names, raw_terminator)"""
    tm = tm or Terms(body)
    out = []
    for bb, blk in enumerate(body.blocks):
        if blk["cleanup"]:
            continue
        t = blk["term"]
        if t["k"] != "switch":
            continue
        d, names = switch_discr_info(body, bb)
        dt = tm.operand(d, bb)
        out.append((bb, dt, names, t))
    return out


def switch_target(t, names, label):
    """successor block of a switch for a variant name / integer value / 'otherwise'"""
    if label == "otherwise":
        return t["otherwise"]
    for v, tgt in t["targets"]:
        if v == label or (names is not None and names.get(v) == label):
            return tgt
    # a variant not listed explicitly goes to otherwise
    return t["otherwise"]


def bool_targets(t):
    """(false_target, true_target) of a bool switch"""
    f = None
    for v, tgt in t["targets"]:
        if v == 0:
            f = tgt
    return f, t["otherwise"]


def must_pass_edge(body, head_bb, edge, guarded_bb):
    """every path from head_bb (taking at least one edge) to guarded_bb uses `edge`"""
    r = body.reach_from_succs(head_bb, removed_edges=[edge])
    return guarded_bb not in r


def region_value(body, edge, local=0, stop_blocks=()):
    """term of `local` at every return block reachable after taking `edge` (a,b):
    only paths that enter the region through that edge are considered; paths through
    `stop_blocks` (e.g. a loop head) are not followed"""
    a, b = edge
    region = body.reachable(start=b, removed_blocks=stop_blocks)

    def ok(x, y):
        if (x, y) == (a, b):
            return True
        if y in region and x not in region:
            return False
        return True

    tm = Terms(body, edge_ok=ok)
    if body.raw.get("inlined"):
        # in a body that received inlined copies, `x?` whose x is known on these paths to be the error an inlined helper
        # returned early (or a literal Ok) has only one feasible arm: follow only that one
        removed = set()
        for _ in range(4):
            more = set()
            for sbb in sorted(region):
                t = body.blocks[sbb]["term"]
                if t["k"] != "switch":
                    continue
                try:
                    d, names = switch_discr_info(body, sbb)
                    dt = tm.operand(d, sbb)
                except Exception:
                    continue
                if names is None or dt[0] != "discr":
                    continue
                v = _known_variant(dt[1])
                if v is None or v not in names.values():
                    continue
                keep = switch_target(t, names, v)
                for tgt in set([x_[1] for x_ in t["targets"]] + [t["otherwise"]]):
                    if tgt != keep and (sbb, tgt) not in removed:
                        more.add((sbb, tgt))
            if not more:
                break
            removed |= more
            live = set()
            work = [b]
            while work:
                x_ = work.pop()
                if x_ in live or x_ in stop_blocks:
                    continue
                live.add(x_)
                work += [y_ for y_ in body.succ[x_] if (x_, y_) not in removed]
            region = live
            ok2 = lambda x, y, ok=ok, removed=removed, region=region: ok(x, y) and (x, y) not in removed and (x in region or (x, y) == (a, b) or y not in region)
            tm = Terms(body, edge_ok=ok2)
    out = []
    for rb in body.return_blocks():
        if rb in region:
            out.append((rb, tm.local(local, rb, len(body.blocks[rb]["stmts"]))))
    return out


def is_err_value(t):
    """term is an Err-shaped Result: from_residual(..) of a Break payload, or an aggregate Err"""
    t0 = t
    if t0[0] == "call" and t0[1].endswith("::from_residual"):
        return True
    if result_variant(t0) == "Err":
        return True
    if t0[0] == "phi":
        return all(is_err_value(x) for x in t0[1])
    return False


def try_propagation(body, cs, tm=None):
    """How the Result returned by call site `cs` is consumed.
    Returns dict(kind=..., detail=...): kind in
      'propagated'  – `?` (Try::branch + from_residual) or match with `return Err(..)`: the Err arm
                      reaches a return whose value is Err-shaped and derives from this call
      'returned'    – the call result is itself (part of) the function's return value
      'other'       – anything else (discarded, unwrapped, mapped to a default, ...)"""
    if isinstance(cs, VirtualCallSite):
        # the call sits in a new helper: its Err must leave the helper (propagated or returned as the helper's value) and the
        # helper's result must be propagated by the caller
        inner_cs = cs.inner
        ib = inner_cs.body
        pi = try_propagation(ib, inner_cs)
        if pi["kind"] not in ("propagated", "returned"):
            ef = None
            try:
                ef = error_flow(ib.facts, ib, inner_cs)
            except Exception:
                ef = None
            if not (ef and ef.get("ok")):
                return {"kind": "other", "detail": "inside helper %s: %s" % (short_fn_name(ib.path), pi["detail"])}
        po = try_propagation(body, cs.via, tm)
        po["detail"] = "via helper %s: %s" % (short_fn_name(ib.path), po["detail"])
        return po
    tm = tm or Terms(body)
    ct = tm.call_term(cs.term, cs.bb)
    key = ct
    for bb, dt, names, t in switches(body, tm):
        if dt[0] != "discr":
            continue
        inner = dt[1]
        if inner[0] == "call" and inner[1].endswith("::branch") and len(inner[2]) == 1:
            # `x.transpose()?`: an Option<Result<..>> turned inside out keeps the Err an Err
            w_ = inner[2][0]
            while w_ != key and w_[0] == "call" and len(w_[2]) == 1 and re.search(r"(Option|Result)::<.*>::transpose$", w_[1].split("{")[0]):
                w_ = w_[2][0]
            if w_ == key and w_ is not inner[2][0]:
                inner = ("call", inner[1], (key,)) + tuple(inner[3:])
        is_branch = inner[0] == "call" and inner[1].endswith("::branch") and len(inner[2]) == 1 and inner[2][0] == key
        if not is_branch and body.raw.get("inlined") and inner[0] == "call" and inner[1].endswith("::branch") and len(inner[2]) == 1 and inner[2][0][0] == "phi" and key in inner[2][0][1]:
            # the result of an inlined copy that returns this call's value on one of its paths, `?`-ed by the caller
            is_branch = True
        direct = inner == key
        if not (is_branch or direct):
            continue
        label = "Break" if is_branch else "Err"
        if names is None or label not in names.values():
            continue
        tgt = switch_target(t, names, label)
        vals = region_value(body, (bb, tgt))
        if not vals:
            return {"kind": "other", "detail": "Err arm does not reach a return"}
        # the Err arm must not re-enter normal processing: every reachable return is Err-shaped
        bad = [short(v) for _, v in vals if not is_err_value(v)]
        if bad and body.raw.get("inlined"):
            # the call sits in an inlined copy: its Err leaves the copy as the copy's own result and is `?`-ed again by the
            # caller.  Decide on the feasible paths from the Err arm (a path that takes the Ok side of that second `?`
            # although the value is the error just produced is not one).
            try:
                ps = enumerate_paths(body, max_paths=3000, start=tgt)
                ok_all = bool(ps)
                for p_ in ps:
                    if p_.end == "return":
                        ok_all = ok_all and is_err_value(path_return_term(body, p_))
                    elif p_.end not in ("diverge", "unreachable"):
                        ok_all = False
                if ok_all:
                    bad = []
            except TooManyPaths:
                pass
        if bad:
            return {"kind": "other", "detail": "Err arm reaches a non-Err return: %s" % bad[:2]}
        return {"kind": "propagated", "detail": "Err arm bb%d -> return" % tgt, "switch": bb, "err_target": tgt, "ok_target": switch_target(t, names, "Continue" if is_branch else "Ok")}
    rt = tm.return_term()
    alts_ = list(rt[1]) if rt[0] == "phi" else [rt]
    for a_ in alts_:
        # Result::map / and_then / map_err keep an Err an Err
        while a_ != key and a_[0] == "call" and len(a_[2]) == 2 and re.search(r"Result::<T, E>::(map|and_then|map_err)$", a_[1]):
            a_ = a_[2][0]
        if a_ == key:
            return {"kind": "returned", "detail": "is the return value"}
    return {"kind": "other", "detail": "result not propagated with `?`/match-return"}


def innermost_loop(body, bb):
    best = None
    for h, blocks in body.natural_loops():
        if bb in blocks and (best is None or len(blocks) < len(best[1])):
            best = (h, blocks)
    return best


def outermost_loop(body, bb):
    best = None
    for h, blocks in body.natural_loops():
        if bb in blocks and (best is None or len(blocks) > len(best[1])):
            best = (h, blocks)
    return best


def loop_exit_edges(body, blocks):
    out = []
    for a in sorted(blocks):
        for s in body.succ[a]:
            if s not in blocks and body.blocks[s]["term"]["k"] != "unreachable":
                out.append((a, s))
    return out


def _stable_operand(t):
    """built from arguments, constants, named items and their fields only: its value cannot change along a path"""
    if t[0] in ("arg", "const", "item"):
        return True
    if t[0] == "field":
        return _stable_operand(t[1])
    if t[0] == "variant":
        return _stable_operand(t[1])
    if t[0] in ("bin",):
        return _stable_operand(t[2]) and _stable_operand(t[3])
    if t[0] == "un":
        return _stable_operand(t[2])
    return False


def _decided_twice(path):
    """the same boolean test over immutable operands appears twice on the path with different outcomes (NaN-safe: only the
    identical comparison is considered, not comparisons that merely contradict each other over a total order)"""
    seen = {}
    variants = {}
    for dt, label, bb in path.conds:
        if dt[0] == "discr":
            # the variant of the same immutable value matched twice: the arms taken must be compatible
            base = nosite(deep_strip(dt[1]))
            if _stable_operand(base):
                names = set(label[1]) if isinstance(label, tuple) else ({label} if isinstance(label, str) else None)
                if names is not None:
                    prev = variants.get(base)
                    now = names if prev is None else (prev & names)
                    if not now:
                        return True
                    variants[base] = now
            continue
        if isinstance(label, tuple):
            continue
        c = as_cmp(nosite(deep_strip(dt)))
        if c is None or not (_stable_operand(c[1]) and _stable_operand(c[2])):
            continue
        truth = cond_truth(label)
        if seen.setdefault(c, truth) != truth:
            return True
    return False


class Row:
    __slots__ = ("path", "sel", "facts", "bools", "ret", "end", "retn", "_body")


def table(body, max_paths=20000):
    """decision table of a loop-free function: one Row per acyclic path"""
    rows = []
    for p in enumerate_paths(body, max_paths=max_paths):
        if p.end == "unreachable":
            continue
        r = Row()
        r.path = p
        r.sel = {}
        r.bools = []
        for dt, label, bb in p.conds:
            if dt[0] == "discr":
                r.sel[nosite(deep_strip(dt[1]))] = label
            else:
                r.bools.append((nosite(deep_strip(dt)), label))
        r.facts = path_facts(p, body)
        if _decided_twice(p):
            continue  # the same comparison of immutable quantities taken both ways: not a path of the program
        r.end = p.end
        r.ret = nosite(deep_strip(path_return_term(body, p))) if p.end == "return" else None
        r.retn = norm_return(body.facts, r.ret) if r.ret is not None else None  # `x.map(f)` shown as Ok{f(x)} / Some{f(x)}
        rows.append(r)
    return rows



def ok_value(r):
    """the value a path returns on success, whatever the spelling: Ok(v) is v; `x.map(f)` is f(x); a fallible call returned as
    it is stands for its own Ok payload (payload convention).  None for an error path."""
    v = r.ret
    if v is None or is_err_value(v) or result_variant(v) == "Err":
        return None
    if result_variant(v) == "Ok":
        return agg_payload(v)
    vn = getattr(r, "retn", None)
    if vn is not None and result_variant(vn) == "Ok":
        return agg_payload(vn)
    return v


def sel_is(row, base, variant):
    """row selects `variant` for discriminant of `base` (handles 'otherwise' groups)"""
    v = row.sel.get(base)
    if v is None:
        return False
    if isinstance(v, tuple):
        return variant in v[1]
    return v == variant


def increment_of(body, bb, pos, l):
    """if statement (bb,pos) is `l = l + c` (possibly via a checked-add temporary) return c"""
    s = body.blocks[bb]["stmts"][pos]
    if s["k"] != "assign" or s["place"]["l"] != l or s["place"]["p"]:
        return None
    rv = s["rv"]

    def is_l(op):
        return op["k"] in ("copy", "move") and op["place"]["l"] == l and not op["place"]["p"]

    def addc(rv):
        if rv["k"] == "bin" and rv["op"] in ("Add", "AddWithOverflow", "AddUnchecked"):
            a, b = rv["a"], rv["b"]
            if is_l(a) and b["k"] == "const" and "int" in b:
                return b["int"]
            if is_l(b) and a["k"] == "const" and "int" in a:
                return a["int"]
        return None

    c = addc(rv)
    if c is not None:
        return c
    if rv["k"] == "use" and rv["op"]["k"] in ("copy", "move"):
        pl = rv["op"]["place"]
        t = pl["l"]
        if len(pl["p"]) == 1 and pl["p"][0]["k"] == "field" and pl["p"][0]["i"] == 0 or not pl["p"]:
            ds = body.defs.get(t, [])
            if len(ds) == 1 and ds[0][1] != "term" and not ds[0][2]:
                return addc(body.blocks[ds[0][0]]["stmts"][ds[0][1]]["rv"])
    return None


# --------------------------------------------------------------------------
# universally quantified loops:  for x in coll { if !p(x) { return false } } return true
# --------------------------------------------------------------------------

_TRUNCATING = re.compile(r"Iterator>?::(take|skip|filter|step_by|take_while|skip_while|filter_map|peekable|map_while|nth|last|find)$|slice::.*::(first|last|split_first|split_last|chunks|windows)$")


def truthy(t, want):
    """term is the boolean constant `want`, possibly wrapped in Ok(..)"""
    if result_variant(t) == "Ok":
        t = agg_payload(t)
    return t == ("const", "bool", want)


def _forall_adaptor_form(body, inner_pred, tm):
    """`coll.iter().all(|x| test(x))` — the same universal quantification written with the std adaptor"""
    F = body.facts
    for c in body.calls():
        if not (c.callee and itm(c.callee, "all")) or len(c.args) != 2:
            continue
        cl = tm.operand(c.args[1], c.bb)
        if cl[0] != "closure" or cl[1] not in F.bodies:
            continue
        cb = F.bodies[cl[1]]
        tests = [x for x in cb.calls() if inner_pred(x)]
        if len(tests) != 1:
            continue
        problems = []
        ctm = Terms(cb)
        verdict = deep_strip(ctm.call_term(tests[0].term, tests[0].bb))
        crt = deep_strip(ctm.return_term())
        if nosite(crt) != nosite(verdict):
            problems.append("the closure handed to all() does not return the verdict of the per-element test unchanged: %s" % short(nosite(crt))[:120])
        recv = deep_strip(tm.operand(c.args[0], c.bb))
        trunc = [x[1] for x in calls_in(recv) if _TRUNCATING.search(x[1])]
        if trunc:
            problems.append("the iterated collection is truncated/filtered: %s" % trunc)
        elem = ("call", "<element of>", (nosite(recv),))
        caps = cl[2]

        def sub(y):
            if y == ("arg", 2):
                return elem
            if y[0] == "field" and y[1] == ("arg", 1) and str(y[2]).isdigit() and int(y[2]) < len(caps):
                return caps[int(y[2])]
            return None
        arg_terms = [rewrite(ctm.operand(a, tests[0].bb), sub) for a in tests[0].args]
        if not contains(arg_terms[0], lambda q: q == elem) and not any(contains(a, lambda q: q == elem) for a in arg_terms):
            problems.append("the per-element test is not applied to the element")
        allt = tm.call_term(c.term, c.bb)
        rt = tm.return_term()
        if not contains(rt, lambda q: q == allt):
            problems.append("the result of all() is not what the function returns")
        if contains(rt, lambda q: q[0] == "un" and q[1] == "Not" and contains(q[2], lambda z: z == allt)):
            problems.append("the result of all() is negated")
        inner = VirtualCallSite(c, tests[0], arg_terms, rewrite(ctm.call_term(tests[0].term, tests[0].bb), sub))
        return {"ok": not problems, "problems": problems, "inner": inner, "next": c, "collection": recv}
    return None


def _forall_map_or_form(body, inner_pred, tm):
    """`opt.map_or(true, |coll| coll.iter().all(|x| test(x)))`: nothing to test => true, else all elements"""
    F = body.facts
    for c in body.calls():
        if not (c.callee and re.search(r"Option::<T>::map_or(_else)?$", c.callee)) or len(c.args) != 3:
            continue
        dflt = nosite(deep_strip(tm.operand(c.args[1], c.bb)))
        if dflt[0] == "closure" and dflt[1] in F.bodies:
            dflt = nosite(deep_strip(Terms(F.bodies[dflt[1]]).return_term()))
        cl = tm.operand(c.args[2], c.bb)
        if dflt != ("const", "bool", True) or cl[0] != "closure" or cl[1] not in F.bodies:
            continue
        cb = F.bodies[cl[1]]
        res = _forall_adaptor_form(cb, inner_pred, Terms(cb))
        if res is None:
            continue
        recv = deep_strip(tm.operand(c.args[0], c.bb))
        caps = cl[2]
        sub = lambda y: recv if y == ("arg", 2) else (caps[int(y[2])] if y[0] == "field" and y[1] == ("arg", 1) and str(y[2]).isdigit() and int(y[2]) < len(caps) else None)
        res = dict(res)
        res["collection"] = rewrite(res["collection"], sub)
        inner = res["inner"]
        res["inner"] = VirtualCallSite(c, inner.inner, [rewrite(a["t"], sub) for a in inner.args], rewrite(inner.term["vterm"], sub))
        mt = tm.call_term(c.term, c.bb)
        if not contains(tm.return_term(), lambda q: q == mt):
            res["problems"] = res["problems"] + ["the result of map_or(true, all(..)) is not what the function returns"]
            res["ok"] = False
        return res
    return None


def _forall_find_form(body, inner_pred, tm):
    """`coll.iter().map(|x| test(x)).find(|r| !matches!(r, Ok(true)))` then `Some(r) => r, None => Ok(true)`: the first verdict
    that is not Ok(true) (a rejection or an error) is the result, Ok(true) only after all — the lazy spelling of the loop"""
    F = body.facts
    for c in body.calls():
        if not (c.callee and itm(c.callee, "find")) or len(c.args) != 2:
            continue
        recv = deep_strip(tm.operand(c.args[0], c.bb))
        maps = [x for x in calls_in(recv) if itm(x[1], "map") and len(x[2]) == 2 and x[2][1][0] == "closure" and x[2][1][1] in F.bodies]
        pcl = tm.operand(c.args[1], c.bb)
        if len(maps) != 1 or pcl[0] != "closure" or pcl[1] not in F.bodies:
            continue
        mcl = maps[0][2][1]
        mb, pb = F.bodies[mcl[1]], F.bodies[pcl[1]]
        tests = [x for x in mb.calls() if inner_pred(x)]
        if len(tests) != 1:
            continue
        problems = []
        mtm = Terms(mb)
        if nosite(deep_strip(mtm.return_term())) != nosite(deep_strip(mtm.call_term(tests[0].term, tests[0].bb))):
            problems.append("the mapped closure does not return the verdict of the per-element test unchanged")
        # the predicate is false exactly for Ok(true)
        okp = False
        try:
            rows = [r for r in table(pb, max_paths=2000) if r.end == "return"]
            def cval(t_):
                if t_[0] == "un" and t_[1] == "Not":
                    v_ = cval(t_[2])
                    return None if v_ is None else (not v_)
                return t_[2] if t_[0] == "const" and isinstance(t_[2], bool) else None
            falses = [r for r in rows if cval(r.ret) is False]
            trues = [r for r in rows if cval(r.ret) is True]
            def is_ok_true(r):
                ok_sel = any(v == "Ok" for k, v in r.sel.items() if contains(k, lambda q: q == ("arg", 2)))
                tr = any(cond_truth(l) is True for t_, l in r.bools if contains(t_, lambda q: q == ("arg", 2))) or any(l == 1 for t_, l in r.bools)
                return ok_sel and tr
            okp = bool(falses) and len(falses) + len(trues) == len(rows) and all(is_ok_true(r) for r in falses) and not any(is_ok_true(r) for r in trues)
        except Exception:
            okp = False
        if not okp:
            problems.append("find's predicate is not `anything but Ok(true)`")
        src = maps[0][2][0]
        trunc = [x[1] for x in calls_in(recv) if _TRUNCATING.search(x[1])]
        if trunc:
            problems.append("the iterated collection is truncated/filtered: %s" % trunc)
        # Some(r) => r ; None => Ok(true)
        ft = nosite(deep_strip(tm.call_term(c.term, c.bb)))
        okr = False
        try:
            rws = [r for r in table(body, max_paths=5000) if r.end == "return"]
            somes = [r for r in rws if r.sel.get(ft) == "Some"]
            nones = [r for r in rws if r.sel.get(ft) == "None"]
            okr = bool(somes) and bool(nones) and all(r.ret == ft for r in somes) and all(r.ret == ("agg", "std::result::Result", "Ok", (("0", ("const", "bool", True)),)) for r in nones)
        except Exception:
            okr = False
        if not okr:
            problems.append("the first non-Ok(true) verdict is not returned as it is, or `no such verdict` is not Ok(true)")
        elem = ("call", "<element of>", (nosite(src),))
        caps = mcl[2]
        sub = lambda y: elem if y == ("arg", 2) else (caps[int(y[2])] if y[0] == "field" and y[1] == ("arg", 1) and str(y[2]).isdigit() and int(y[2]) < len(caps) else None)
        arg_terms = [rewrite(mtm.operand(a, tests[0].bb), sub) for a in tests[0].args]
        if not any(contains(a, lambda q: q == elem) for a in arg_terms):
            problems.append("the per-element test is not applied to the element")
        inner = VirtualCallSite(c, tests[0], arg_terms, rewrite(mtm.call_term(tests[0].term, tests[0].bb), sub))
        return {"ok": not problems, "problems": problems, "inner": inner, "next": c, "collection": src}
    return None


def forall_loop(body, inner_pred, tm=None):
    """Analyse a function of the shape above.  `inner_pred(callsite)` selects the per-element test.
    Returns dict with keys: ok(bool), problems(list of str), inner(CallSite), next(CallSite), collection(term)"""
    tm = tm or Terms(body)
    problems = []
    inners = [c for c in body.calls() if inner_pred(c)]
    if len(inners) == 0:
        for form in (_forall_adaptor_form, _forall_map_or_form, _forall_find_form):
            alt = form(body, inner_pred, tm)
            if alt is not None:
                return alt
    if len(inners) != 1:
        return {"ok": False, "problems": ["expected exactly one per-element test, found %d" % len(inners)]}
    inner = inners[0]
    loop = innermost_loop(body, inner.bb)
    if loop is None:
        return {"ok": False, "problems": ["per-element test is not inside a loop"], "inner": inner}
    h, blocks = loop
    nexts = [c for c in body.calls() if c.func.get("method") == "next" and c.bb in blocks and innermost_loop(body, c.bb) == loop]
    if len(nexts) != 1:
        return {"ok": False, "problems": ["expected one Iterator::next in the loop, found %d" % len(nexts)], "inner": inner}
    nx = nexts[0]
    recv = deep_strip(tm.operand(nx.args[0], nx.bb))
    trunc = [c[1] for c in calls_in(recv) if _TRUNCATING.search(c[1])]
    if trunc:
        problems.append("the iterated collection is truncated/filtered: %s" % trunc)
    nxt = tm.call_term(nx.term, nx.bb)
    # the element under test derives from the iterator's item
    it = deep_strip(tm.call_term(inner.term, inner.bb))
    if not contains(it, lambda s: s == deep_strip(nxt)):
        problems.append("the per-element test is not applied to the loop element")
    # exhaustion edge
    ex_edge = None
    for bb, dt, names, t in switches(body, tm):
        if bb in blocks and dt == ("discr", nxt) and names:
            ex_edge = (bb, switch_target(t, names, "None"))
    if ex_edge is None:
        problems.append("no exhaustion exit (iterator None arm) found")
    else:
        vals = region_value(body, ex_edge)
        if not vals or not all(truthy(deep_strip(v), True) for _, v in vals):
            problems.append("after the loop is exhausted the function does not return true: %s" % [short(v) for _, v in vals][:2])
    # the switch on the per-element verdict
    verdict = strip_try(deep_strip(tm.call_term(inner.term, inner.bb)))
    sw = None
    for bb, dt, names, t in switches(body, tm):
        d = deep_strip(dt)
        neg = False
        if d[0] == "un" and d[1] == "Not":
            d, neg = d[2], True
        if bb in blocks and nosite(d) == nosite(verdict):
            f, tr = bool_targets(t)
            if neg:
                f, tr = tr, f
            sw = (bb, f, tr)
    if sw is None:
        problems.append("the verdict of the per-element test is not branched on")
    else:
        bb, f, tr = sw
        vals = region_value(body, (bb, f), stop_blocks=[nx.bb])
        if not vals:
            problems.append("a failed element does not end the loop with `false` (verdict ignored or accumulated)")
        elif not all(truthy(deep_strip(v), False) for _, v in vals):
            problems.append("a failed element does not make the function return false: %s" % [short(v) for _, v in vals][:2])
        cont_t = body.reachable(start=tr, removed_blocks=[nx.bb])
        if any(r in cont_t for r in body.return_blocks()):
            problems.append("a passing element can end the loop early (returns before all elements are tested)")
    # Err of the per-element test is propagated when it returns a Result
    pr = try_propagation(body, inner, tm)
    dest_ty = body.locals[inner.dest["l"]]["ty"]
    if "Result<" in dest_ty and pr["kind"] != "propagated":
        problems.append("Err of the per-element test is not propagated: %s" % pr["detail"])
    return {"ok": not problems, "problems": problems, "inner": inner, "next": nx, "collection": recv}


def error_flow(F, body, cs, tm=None):
    """Follow the Result returned by `cs` through Result adaptors to its sink.
    Returns dict(ok=bool, detail=str): ok iff the Err reaches the caller and every map_err on the
    way keeps the source error (a constructor, or a closure whose result mentions its argument)."""
    tm = tm or Terms(body)
    cur_cs = cs
    steps = []
    for _ in range(8):
        pr = try_propagation(body, cur_cs, tm)
        if pr["kind"] in ("propagated", "returned"):
            steps.append(pr["kind"])
            return {"ok": True, "detail": " -> ".join(steps)}
        ct = tm.call_term(cur_cs.term, cur_cs.bb)
        nxt = None
        for c2 in body.calls():
            if not c2.callee or not c2.args:
                continue
            m = re.search(r"std::result::Result::<T, E>::(map|map_err|and_then|inspect|inspect_err)$", c2.callee)
            if m and tm.operand(c2.args[0], c2.bb) == ct:
                nxt = (c2, m.group(1))
        if nxt is None:
            return {"ok": False, "detail": " -> ".join(steps + [pr["detail"]])}
        c2, kind = nxt
        if kind == "map_err":
            f = tm.operand(c2.args[1], c2.bb)
            keeps = f[0] == "fn"
            if f[0] == "closure" and f[1] in F.bodies:
                crt = Terms(F.bodies[f[1]]).return_term()
                keeps = contains(crt, lambda s: s == ("arg", 2))
            if not keeps:
                return {"ok": False, "detail": " -> ".join(steps + ["map_err(%s) discards the source error" % short(f)[:80]])}
            steps.append("map_err(keeps source)")
        else:
            steps.append(kind)
        cur_cs = c2
    return {"ok": False, "detail": "adaptor chain too long"}


def rewrite(t, fn):
    """bottom-up rewriting of a term: fn(term) returns a replacement or None"""
    if not isinstance(t, tuple) or not t:
        return t
    r = fn(t)
    if r is not None:
        return r
    h = t[0]
    if h == "phi":
        return mk_phi([rewrite(x, fn) for x in t[1]])
    if h == "agg":
        return ("agg", t[1], t[2], tuple((n, rewrite(v, fn)) for n, v in t[3]))
    out = []
    for x in t:
        if isinstance(x, tuple) and x and isinstance(x[0], str):
            out.append(rewrite(x, fn))
        elif isinstance(x, tuple):
            out.append(tuple(rewrite(y, fn) if isinstance(y, tuple) else y for y in x))
        else:
            out.append(x)
    return tuple(out)


_OPTION_SOURCES = re.compile(r"(HashMap::<.*>::get$|BTreeMap::<.*>::get$|^std::slice::<impl \[T\]>::(get|first|last)$|Option::<T>::(copied|cloned|map|as_ref)$|Iterator>?::(next|max|min|find|last)$|::checked_\w+$)")


def canon_default(t):
    """canonical form of "an optional value with a default": `x.unwrap_or(d)`, `x.unwrap_or_else(|| d)`, `x.map_or(d, id)`,
    and `match x { Some(v) => v, None => d }` (which the term domain shows as phi{d | x}) all become ('default', x, d).
    Applied at every level."""
    def is_opt_source(x):
        x = unmut(x)
        while x[0] == "call" and re.search(r"Option::<T>::(copied|cloned|as_ref)$|::to_owned$|::clone$", x[1]) and x[2]:
            x = unmut(x[2][0])
        return x[0] == "call" and _OPTION_SOURCES.search(re.sub(r"\{.*\}$", "", x[1])) is not None

    def peel(x):
        x = unmut(x)
        while x[0] == "call" and re.search(r"Option::<T>::(copied|cloned|as_ref)$", x[1]) and x[2]:
            x = unmut(x[2][0])
        return x

    def f(x):
        if x[0] == "call" and re.search(r"Option::<T>::unwrap_or$", x[1]) and len(x[2]) == 2:
            return ("default", canon_default(peel(x[2][0])), canon_default(x[2][1]))
        if x[0] == "phi" and len(x[1]) == 2:
            a, b_ = list(x[1])
            for opt, d in ((a, b_), (b_, a)):
                if is_opt_source(opt) and d[0] in ("item", "const") :
                    return ("default", canon_default(peel(opt)), d)
        return None
    return rewrite(t, f)


def spec_eval(F, body, env, depth=0):
    """Partial evaluation of a loop-free function under known enum variants of some arguments (env: {arg index: variant name}):
    the value it returns on the paths consistent with those variants.  Switches on the result of a call to another workspace
    function whose arguments are arguments of this one are decided by evaluating that function under the mapped variants
    (`if let Some(k) = self.factor(target) { v * k } else { v }`).  Returns the (site-free, stripped) term, or None when the
    consistent paths do not agree on one value."""
    if depth > 3 or body.natural_loops():
        return None
    _INLINE_OFF[0] += 1
    try:
        return _spec_eval(F, body, env, depth)
    finally:
        _INLINE_OFF[0] -= 1


def _fieldless_enum_eq(F, callee):
    """the PartialEq impl named by `callee` belongs to a workspace enum whose variants carry no data (so equality is equality
    of variants), and it is the derived one"""
    m = re.match(r"^<(.+?) as std::cmp::PartialEq", callee)
    if not m:
        return False
    a = F.adts.get(re.sub(r"<.*$", "", m.group(1)))
    if not a or a["kind"] != "enum" or any(v["fields"] for v in a["variants"]):
        return False
    return True


def _fieldless_enum_ty(F, ty):
    a = F.adts.get(re.sub(r"^(&('\w+ )?(mut )?)+", "", ty).split("<")[0])
    return bool(a) and a["kind"] == "enum" and not any(v["fields"] for v in a["variants"])


def _spec_eval(F, body, env, depth):
    vals = []
    for p in enumerate_paths(body, max_paths=200000):
        if p.end == "unreachable":
            continue
        feasible = True
        binds = {}
        for dt, label, bb in p.conds:
            if dt[0] != "discr":
                # `self == target` on two arguments whose variants are known (derived PartialEq of a fieldless enum: equal
                # exactly when the variants are)
                c_ = nosite(deep_strip(dt))
                neg_ = False
                while c_[0] == "un" and c_[1] == "Not":
                    c_, neg_ = c_[2], not neg_
                if c_[0] == "call" and len(c_[2]) == 2 and re.search(r"std::cmp::PartialEq(<[^>]*>)?>?::(eq|ne)$|std::cmp::impls::<impl std::cmp::PartialEq<.*> for .*>::(eq|ne)$", c_[1]) and not isinstance(label, tuple):
                    a_, b_ = c_[2]
                    if a_[0] == "arg" and b_[0] == "arg" and a_[1] in env and b_[1] in env and (_fieldless_enum_eq(F, c_[1]) or _fieldless_enum_ty(F, body.locals[a_[1]]["ty"]) and body.locals[a_[1]]["ty"] == body.locals[b_[1]]["ty"]):
                        truth_ = (env[a_[1]] == env[b_[1]]) != c_[1].endswith("::ne")
                        if (cond_truth(label) != neg_) != truth_:
                            feasible = False
                            break
                continue
            base = nosite(deep_strip(dt[1]))
            names = set(label[1]) if isinstance(label, tuple) else {label}
            if base[0] == "arg" and base[1] in env:
                if env[base[1]] not in names:
                    feasible = False
                    break
            elif base[0] == "call" and re.sub(r"\{.*\}$", "", base[1]) in F.bodies:
                hb = F.bodies[re.sub(r"\{.*\}$", "", base[1])]
                henv = {}
                for j, a in enumerate(base[2]):
                    if a[0] == "arg" and a[1] in env:
                        henv[j + 1] = env[a[1]]
                if not henv:
                    continue
                r = spec_eval(F, hb, henv, depth + 1)
                if r is None:
                    continue
                rv = result_variant(r)
                if rv is not None and rv not in names:
                    feasible = False
                    break
                # map the helper's own argument symbols back to ours
                actuals = tuple(base[2])
                rr = substitute_args(r, actuals)
                binds[base] = agg_payload(rr) if rv in ("Some", "Ok") and agg_payload(rr) is not None else rr
        if not feasible:
            continue
        if p.end != "return":
            return None
        rt = nosite(deep_strip(path_return_term(body, p)))
        if binds:
            rt = rewrite(rt, lambda x: binds.get(x))
        vals.append(rt)
    uniq = list(dict.fromkeys(vals))
    if len(uniq) == 1:
        v = uniq[0]
        # delegation: a call (anywhere in the value) of another workspace function that is handed the known variant is
        # evaluated under it (`self.graph.incident_edges_iter(v, self)` under Forward *is* `out_edges_iter(v)`;
        # `self.numerator_and_denominator().1` under KilowattHoursPerMeter *is* Meters)
        if depth < 3:
            def deleg(x):
                if x[0] != "call":
                    return None
                k = re.sub(r"\{.*\}$", "", x[1])
                if k in F.bodies and not F.bodies[k].natural_loops() and k != body.path:
                    henv = {j_ + 1: env[a[1]] for j_, a in enumerate(x[2]) if a[0] == "arg" and a[1] in env}
                    if henv:
                        r = spec_eval(F, F.bodies[k], henv, depth + 1)
                        if r is not None:
                            return nosite(deep_strip(substitute_args(r, tuple(x[2]))))
                return None
            v2 = rewrite(v, deleg)
            if v2 != v:
                v = proj_simplify(v2)
        return v
    return None


def expand_calls(F, t, depth=0):
    """replace calls to small loop-free workspace functions (also *known* ones) by their values — for rules that state a
    formula and do not care how it is distributed over helper functions (`f(x) = g(h(x))` vs the formula written out)"""
    if depth > 3:
        return t

    def f(x):
        if x[0] == "call":
            k = re.sub(r"\{.*\}$", "", x[1])
            if k in F.bodies:
                v = inline_value(F, k, 0, force=True)
                if v is not None:
                    args = tuple(expand_calls(F, a, depth + 1) for a in x[2])
                    return expand_calls(F, nosite(deep_strip(substitute_args(v, args))), depth + 1)
        return None
    return rewrite(t, f)


def norm_return(F, t):
    """top level of a returned value: `x.map(f)` on a Result/Option is shown as Ok{f(x)} / Some{f(x)} so that rules which look
    for the Ok payload see the same thing as for `Ok(f(x?))`"""
    if t is None or t[0] != "call" or len(t[2]) != 2:
        return t
    m = re.search(r"(Option::<T>|Result::<T, E>)::map$", t[1])
    if not m:
        return t
    inner = norm_adaptors(F, t)
    if inner == t:
        return t
    if m.group(1).startswith("Result"):
        return ("agg", "std::result::Result", "Ok", (("0", inner),))
    return ("agg", "std::option::Option", "Some", (("0", inner),))


def norm_adaptors(F, t, depth=0):
    """Option/Result adaptors applied to a value are read through, in the payload convention of this library (the Ok/Some
    payload of x is reported as x): `x.map(|v| f(v))` / `x.and_then(..)` become f(x); transpose/copied/cloned/as_ref/ok are
    transparent.  Lets `match x { Some(v) => Some(f(v)), None => None }` and `x.map(f)` compare equal after canonicalisation."""
    def f(x):
        if x[0] == "call" and re.search(r"(Option::<T>|Result::<T, E>)::(map|and_then)$", x[1]) and len(x[2]) == 2 and depth < 4:
            recv, cl = x[2]
            recv = norm_adaptors(F, recv, depth + 1)
            if cl[0] == "closure" and cl[1] in F.bodies:
                cb = F.bodies[cl[1]]
                rt = nosite(deep_strip(Terms(cb).return_term()))
                alts = list(rt[1]) if rt[0] == "phi" else [rt]
                kept = []
                for a in alts:
                    if is_err_value(a) or result_variant(a) in ("Err", "None"):
                        continue
                    if result_variant(a) in ("Ok", "Some"):
                        a = agg_payload(a)
                    kept.append(a)
                if not kept:
                    return None
                val = mk_phi(kept) if len(kept) > 1 else kept[0]
                caps = cl[2]

                def sub(y):
                    if y == ("arg", 2):
                        return recv
                    if y[0] == "field" and y[1] == ("arg", 1) and str(y[2]).isdigit() and int(y[2]) < len(caps):
                        return caps[int(y[2])]
                    return None
                return norm_adaptors(F, rewrite(val, sub), depth + 1)
            if cl[0] == "fn":
                return ("call", cl[1], (recv,))
            return None
        if x[0] == "call" and len(x[2]) == 1 and re.search(r"Option::<T>::(transpose|copied|cloned|as_ref|as_deref)$|Result::<T, E>::(ok|transpose)$|Option::<.*>::transpose$", x[1]):
            return norm_adaptors(F, x[2][0], depth + 1)
        # a closure value applied to arguments (a combining function handed to a helper as a parameter): its body's value
        if x[0] == "call" and depth < 4 and len(x[2]) == 2 and re.search(r"std::ops::Fn(Mut|Once)?(<[^>]*>)?>?::call(_mut|_once)?$", x[1].split("{")[0]):
            cl_ = x[2][0]
            while cl_[0] in ("mut", "ref"):
                cl_ = cl_[1]
            args_ = x[2][1]
            if cl_[0] == "closure" and cl_[1] in F.bodies and args_[0] == "tuple" and not F.bodies[cl_[1]].natural_loops():
                rt_ = nosite(deep_strip(Terms(F.bodies[cl_[1]]).return_term()))
                # (payload convention: the Ok/Some value of a fallible closure stands for its result; error exits are dropped)
                kept_ = []
                for a_ in (list(rt_[1]) if rt_[0] == "phi" else [rt_]):
                    if is_err_value(a_) or result_variant(a_) in ("Err", "None"):
                        continue
                    kept_.append(agg_payload(a_) if result_variant(a_) in ("Ok", "Some") else a_)
                if len(kept_) == 1:
                    return norm_adaptors(F, substitute_closure(kept_[0], cl_[2], tuple(norm_adaptors(F, a_, depth + 1) for a_ in args_[1])), depth + 1)
        # x.map_or(d, f) = f(x) when present, d otherwise: ('default', f(x), d); is_some_and / is_none_or likewise
        m = x[0] == "call" and depth < 4 and re.search(r"(Option::<T>|Result::<T, E>)::(map_or|is_some_and|is_none_or|is_ok_and)$", x[1])
        if m and len(x[2]) == (3 if m.group(2) == "map_or" else 2):
            dflt = x[2][1] if m.group(2) == "map_or" else ("const", "bool", m.group(2) == "is_none_or")
            inner = f(("call", "core::option::Option::<T>::map", (x[2][0], x[2][-1])))
            if inner is not None:
                return ("default", inner, dflt)
        return None
    return rewrite(t, f)


def short_fn_name(path):
    """stable short name of a function path: Type@Trait::method / module::function"""
    m = re.match(r"^<(.+?) as (.+?)>::(.*)$", path)
    if m:
        ty = re.sub(r"<.*$", "", m.group(1)).split("::")[-1]
        tr = re.sub(r"<.*$", "", m.group(2)).split("::")[-1]
        return "%s@%s::%s" % (ty, tr, m.group(3))
    parts = [q for q in re.sub(r"<[^<>]*>", "", path).split("::") if q]
    return "::".join(parts[-2:])


_REF_TRANSPARENT = {
    ("std::ops::Deref", "deref"),
    ("std::ops::DerefMut", "deref_mut"),
    ("std::borrow::Borrow", "borrow"),
    ("std::borrow::BorrowMut", "borrow_mut"),
    ("std::convert::AsRef", "as_ref"),
    ("std::convert::AsMut", "as_mut"),
}


def root_local(body, op, depth=0):
    """follow `&`, reborrows and plain copies from an operand back to the user-level local"""
    if op["k"] not in ("copy", "move"):
        return None
    pl = op["place"]
    if any(e["k"] not in ("deref",) for e in pl["p"]):
        return None
    l = pl["l"]
    if depth > 8:
        return l
    ds = [d for d in body.defs.get(l, []) if not d[2]]
    if len(ds) == 1 and ds[0][1] == "term":
        t = body.blocks[ds[0][0]]["term"]
        f = t["func"]
        if ((f.get("trait"), f.get("method")) in _REF_TRANSPARENT or (callee_key(f) or "").split("::")[-1] in ("as_slice", "as_mut_slice", "as_str", "as_ref", "as_mut")) and len(t["args"]) == 1:
            inner = root_local(body, t["args"][0], depth + 1)
            if inner is not None:
                return inner
    if len(ds) == 1 and ds[0][1] != "term":
        rv = body.blocks[ds[0][0]]["stmts"][ds[0][1]]["rv"]
        if rv["k"] in ("ref", "rawptr") and not any(e["k"] != "deref" for e in rv["place"]["p"]):
            return root_local(body, {"k": "copy", "place": rv["place"]}, depth + 1)
        if rv["k"] == "use" and rv["op"]["k"] in ("copy", "move") and not any(e["k"] != "deref" for e in rv["op"]["place"]["p"]):
            inner = root_local(body, rv["op"], depth + 1)
            if inner is not None:
                return inner
    return l


def loopfree(t):
    """collapse loop-carried values: ('loop', n) and every phi with a loop-carried alternative
    become the single symbol ('lc',) so that terms taken at different points of a loop compare equal"""
    def f(x):
        if x[0] == "loop":
            return ("lc",)
        if x[0] == "phi":
            alts = [loopfree(y) for y in x[1]]
            if any(contains(y, lambda s: s == ("lc",)) for y in alts):
                return ("lc",)
            return mk_phi(alts)
        return None
    return rewrite(t, f)


def itm(s, name):
    """callee path `s` is the Iterator method `name`, whether printed as the trait method
    (std::iter::Iterator::map) or resolved to an impl (<slice::Iter<T> as Iterator>::map)"""
    return bool(s) and bool(re.search(r"(Iterator(<[^>]*>)?>?|<impl std::iter::Iterator for [^{}]*>)::%s$" % name, s))


# --------------------------------------------------------------------------
# one-iteration summaries of a loop (transfer function over the Herbrand domain)
# --------------------------------------------------------------------------


class _EnvTerms(Terms):
    """Terms whose locals are read from a forward environment while walking one path;
    locals assigned inside the loop but not yet on this path are the values carried in
    from the previous iteration: ('carried', local)."""

    def __init__(self, body, env, loop_defs, outer):
        Terms.__init__(self, body)
        self.env = env
        self.loop_defs = loop_defs
        self.outer = outer

    def local(self, l, bb, idx):
        if l in self.env:
            return self.env[l]
        if l in self.loop_defs:
            return ("carried", l)
        return self.outer.local(l, bb, idx)


class IterRow:
    __slots__ = ("kind", "conds", "env", "stores", "ret", "blocks", "facts", "calls", "sites")

    def count(self, callee_re):
        """number of call *sites* on this path whose resolved callee matches (transparent calls included once each)"""
        return sum(1 for _, k, _ in self.sites if k and re.search(callee_re, k))

    def new(self, l):
        """value of local l at the end of the path"""
        return self.env.get(l, ("carried", l))


def iteration_table(body, head, max_paths=5000, stop_at_exit=False):
    """All acyclic paths that start at loop head `head`: rows of kind
       'back'   – the path returns to the head (one full iteration); row.env holds the new values
       'return' – the path leaves the loop and reaches a return (row.ret)
       'cycle'  – the path runs into another cycle (inner loop, or a later loop after the exit)
       'diverge'– panics/diverges
    Values are terms over ('carried', l) (value of local l when the iteration starts) and loop-invariant
    terms.  Stores through pointers (`*p = v`) are listed in row.stores as (pointer term, value).
    With stop_at_exit the walk ends where a path leaves the loop's own blocks: such rows have kind 'exit' (row.blocks[-1] is
    the first block outside) — the way to read an inner loop's turn without what the enclosing loop does afterwards."""
    loops = [blocks for h, blocks in body.natural_loops() if h == head]
    if not loops:
        raise AnchorMissing("bb%d of %s is not a loop head" % (head, body.path))
    blocks = set().union(*loops)
    loop_defs = {l for l, ds in body.defs.items() if any(d[0] in blocks for d in ds)}
    back = {(a, head) for a in body.pred[head] if a in blocks}
    outer = Terms(body, edge_ok=lambda a, b: (a, b) not in back)
    rows = []

    def emit(kind, conds, env, stores, seen, calls, ret=None):
        r = IterRow()
        r.kind, r.conds, r.env, r.stores, r.blocks, r.ret, r.calls = kind, conds, env, stores, seen, ret, [(bb_, v_) for bb_, _k, v_ in calls]
        r.sites = calls
        r.facts = path_facts(Path(conds, seen, kind), body)
        rows.append(r)
        if len(rows) > max_paths:
            raise TooManyPaths(body.path)

    stack = [(head, {}, [], [], [], [])]
    while stack:
        bb, env, conds, stores, seen, calls = stack.pop()
        env = dict(env)
        stores = list(stores)
        seen = seen + [bb]
        et = _EnvTerms(body, env, loop_defs, outer)
        blk = body.blocks[bb]
        for pos, s in enumerate(blk["stmts"]):
            if s["k"] != "assign":
                continue
            v = et.rvalue(s["rv"], bb, pos)
            pl = s["place"]
            if not pl["p"]:
                env[pl["l"]] = v
            elif pl["p"][0]["k"] == "deref":
                stores.append((et.place(pl, bb, pos), v))
            else:
                names = tuple(e.get("name", str(e.get("i", e["k"]))) for e in pl["p"] if e["k"] != "deref")
                env[pl["l"]] = ("update", et.local(pl["l"], bb, pos), names, v)
        t = blk["term"]
        k = t["k"]
        nexts = []
        if k == "return":
            emit("return", conds, env, stores, seen, calls, ret=et.local(0, bb, len(blk["stmts"])))
            continue
        if k == "call":
            v = et.call_term(t, bb)
            calls = calls + [(bb, callee_key(t["func"]), v)]
            d = t.get("dest")
            if d is not None and not d["p"]:
                env[d["l"]] = v
            if "target" in t and t["target"] is not None:
                nexts.append((t["target"], conds))
            else:
                emit("diverge", conds, env, stores, seen, calls)
                continue
        elif k == "switch":
            d, names = switch_discr_info(body, bb)
            dt = et.operand(d, bb)
            if dt[0] == "discr":
                dt = ("discr", dt[1])
            succs_ = [(v, tgt) for v, tgt in t["targets"]] + [("otherwise", t["otherwise"])]
            known_ = unmut(dt)
            if body.raw.get("inlined") and known_[0] != "const":
                # `(helper(..)? )` where the inlined copy ended in a literal Ok(true): the payload is that literal
                known_ = unmut(nosite(deep_strip(dt)))
            nneg_ = False
            while known_[0] == "un" and known_[1] == "Not":
                known_, nneg_ = known_[2], not nneg_
            if nneg_ and known_[0] == "const" and isinstance(known_[2], bool):
                known_ = ("const", "bool", not known_[2])
            elif nneg_:
                known_ = ("un", "Not", known_)
            if known_[0] == "const" and isinstance(known_[2], (bool, int)) and names is None:
                # the discriminant is a constant on this path (e.g. a bool local assigned earlier on it): only that branch is feasible
                kv = int(known_[2])
                hit = [(v, tgt) for v, tgt in t["targets"] if v == kv]
                succs_ = hit if hit else [("otherwise", t["otherwise"])]
                for v, tgt in succs_:
                    if body.blocks[tgt]["term"]["k"] != "unreachable":
                        nexts.append((tgt, conds))
                succs_ = []
            if names is None and succs_:
                # the same (immutable) condition decided earlier on this path decides it again the same way
                def norm_c(x):
                    x = nosite(x)
                    neg = False
                    while x[0] == "un" and x[1] == "Not":
                        x, neg = x[2], not neg
                    return x, neg
                cur, cneg = norm_c(dt)
                if cur[0] not in ("const", "phi", "carried") and not contains(cur, lambda q: q[0] in ("mut", "carried", "loop")):
                    for pdt, plab, _pbb in conds:
                        if isinstance(plab, tuple) or pdt[0] == "discr":
                            continue
                        pc, pneg = norm_c(pdt)
                        if pc == cur:
                            truth = (cond_truth(plab) != pneg) != cneg
                            f_, tr_ = bool_targets(t)
                            keep = tr_ if truth else f_
                            if keep is not None:
                                succs_ = [(v, tgt) for v, tgt in succs_ if tgt == keep][:1]
                            break
            kvar = None
            if names is not None and dt[0] == "discr" and body.raw.get("inlined"):
                # `x?` where x is, on this path, the Ok(..)/error that an inlined copy just produced: one feasible arm
                kvar = _known_variant(dt[1])
                if kvar is not None and kvar not in names.values():
                    kvar = None
            for v, tgt in succs_:
                label = v
                if names is not None and v != "otherwise":
                    label = names.get(v, v)
                elif names is not None and v == "otherwise":
                    taken = {names.get(x, x) for x, _ in t["targets"]}
                    label = ("otherwise", tuple(n for n in names.values() if n not in taken))
                if body.blocks[tgt]["term"]["k"] == "unreachable":
                    continue
                if kvar is not None and tgt != switch_target(t, names, kvar):
                    continue
                nexts.append((tgt, conds + [(dt, label, bb)]))
        elif k in ("goto", "drop", "assert"):
            if "target" in t and t["target"] is not None:
                nexts.append((t["target"], conds))
            else:
                emit("diverge", conds, env, stores, seen, calls)
                continue
        else:
            emit("diverge", conds, env, stores, seen, calls)
            continue
        for nb, c2 in nexts:
            if nb == head:
                emit("back", c2, env, stores, seen, calls)
            elif stop_at_exit and nb not in blocks and not body.blocks[nb]["cleanup"]:
                emit("exit", c2, env, stores, seen + [nb], calls)
            elif nb in seen:
                emit("cycle", c2, env, stores, seen + [nb], calls)
            else:
                stack.append((nb, env, c2, stores, seen, calls))
    return rows


def elementwise_builds(body):
    """places where a collection is built element by element from another one, whatever the spelling:
       * `src.map(f).collect()`                               (form 'map')
       * `for x in src { sink.push(f(x)) }` / `sink.insert(k(x), v(x))`  (form 'loop')
    each as dict(src, elem, values (tuple of terms over `elem`), sink ('collect' | callee of push/insert), site (CallSite), form).
    Only loops whose every turn adds exactly one element are reported (conditional pushes are not element-wise)."""
    F = body.facts
    out = []
    U = lambda t: rewrite(nosite(deep_strip(t)), lambda x: unmut(x) if x[0] == "mut" else None)
    tm = Terms(body)
    for c in body.calls():
        k = c.callee or ""
        if itm(k, "collect") or "Iterator::collect" in k or "FromIterator" in k:
            recv = U(tm.operand(c.args[0], c.bb))
            chain = []
            t_ = recv
            while t_[0] == "call" and t_[2]:
                chain.append(t_)
                t_ = t_[2][0]
            if any(re.search(r"Iterator>?::(flat_map|filter_map|filter|flatten|scan|take_while|skip_while)$", x[1]) for x in chain):
                continue  # not one output per input
            maps = [x for x in chain if itm(x[1], "map")]
            if len(maps) != 1 or len(maps[0][2]) != 2 or maps[0][2][1][0] != "closure" or maps[0][2][1][1] not in F.bodies:
                continue
            cl = maps[0][2][1]
            cb = F.bodies[cl[1]]
            rt = U(Terms(cb).return_term())
            alts = list(rt[1]) if rt[0] == "phi" else [rt]
            kept = []
            for a in alts:
                if is_err_value(a) or result_variant(a) in ("Err", "None"):
                    continue
                if result_variant(a) in ("Ok", "Some"):
                    a = agg_payload(a)
                kept.append(a)
            if len(kept) != 1:
                continue
            caps = cl[2]
            elem = ("elem",)
            val = rewrite(kept[0], lambda y: elem if y == ("arg", 2) else (U(caps[int(y[2])]) if y[0] == "field" and y[1] == ("arg", 1) and str(y[2]).isdigit() and int(y[2]) < len(caps) else None))
            out.append({"src": maps[0][2][0], "chain": recv, "elem": elem, "values": (val,), "sink": "collect", "site": c, "form": "map", "targs": " ".join(c.func.get("targs", []))})
    for h in sorted({h for h, _ in body.natural_loops()}):
        try:
            rows = iteration_table(body, h)
        except Exception:
            continue
        backs = [r for r in rows if r.kind == "back"]
        if not backs:
            continue
        per = []
        for r in backs:
            adds = [(k, U(v)) for _, k, v in r.sites if k and re.search(r"(Vec::<T, A>::push|::insert|VecDeque::<.*>::push_back)$", k)]
            nxs = [U(v) for _, k, v in r.sites if k and itm(k, "next")]
            per.append((adds, nxs))
        if any(len(n) != 1 for a, n in per) or len({n[0] for a, n in per}) != 1:
            continue
        nx = per[0][1][0]
        elem = ("elem",)
        blocks_h = set().union(*[b_ for hh, b_ in body.natural_loops() if hh == h])
        # one report per collection that receives exactly one element on every turn (other collections may be touched as well,
        # e.g. an error map filled on some turns only)
        for k, recv in sorted({(k_, v_[2][0]) for a, n in per for k_, v_ in a}, key=repr):
            mine = [[v_ for k_, v_ in a if k_ == k and v_[2][0] == recv] for a, n in per]
            if any(len(m) != 1 for m in mine):
                continue
            vs = [m[0] for m in mine]
            if len(set(vs)) == 1:
                vals = tuple(rewrite(a, lambda y: elem if y == nx else None) for a in vs[0][2][1:])
            else:
                vals = tuple(rewrite(mk_phi([v_[2][i_] for v_ in vs]), lambda y: elem if y == nx else None) for i_ in range(1, len(vs[0][2])))
            site = [c for c in body.calls() if c.callee == k and c.bb in blocks_h and U(Terms(body).operand(c.args[0], c.bb)) == recv]
            out.append({"src": nx[2][0], "chain": nx[2][0], "elem": elem, "values": vals, "sink": k, "sink_recv": recv, "site": site[0] if site else None, "form": "loop", "targs": ""})
    return out


def accumulations(body, depth=0):
    """fold-like accumulations in a body and in the *new* helper functions it calls, whatever their spelling:
       * loop form   `let mut acc = seed; for x in src { acc = step(acc, x) }`
       * adaptor form `src.fold(seed, |acc, x| step)` / `try_fold`
    each as dict(seed, step, acc, elem, src, where): `step` is a term in which `acc` and `elem` stand for the accumulator
    and the element (payload convention: an element `x?` is reported as x)."""
    F = body.facts
    out = []
    U = lambda t: rewrite(nosite(deep_strip(t)), lambda x: unmut(x) if x[0] == "mut" else None)
    # loop form
    heads = sorted({h for h, _ in body.natural_loops()})
    for h in heads:
        try:
            rows = iteration_table(body, h)
        except Exception:
            continue
        backs = [r for r in rows if r.kind == "back"]
        if not backs:
            continue
        cands = set()
        for r in backs:
            for l, v in r.env.items():
                if contains(v, lambda q: q == ("carried", l)) and U(v) != ("carried", l):
                    cands.add(l)
        for l in sorted(cands):
            steps = {U(r.new(l)) for r in backs}
            if len(steps) != 1:
                continue
            nxs = [U(v) for _, k, v in backs[0].sites if k and itm(k, "next")]
            elem = nxs[0] if nxs else None
            out.append({"seed": U(loop_entry_value(body, h, l)), "step": steps.pop(), "acc": ("carried", l), "elem": elem, "src": elem[2][0] if elem else None, "where": body.where(h), "form": "loop", "fn": body.path})
    # adaptor form
    tm = Terms(body)
    for c in body.calls():
        k = c.callee or ""
        if (itm(k, "fold") or itm(k, "try_fold")) and len(c.args) == 3:
            cl = tm.operand(c.args[2], c.bb)
            if cl[0] == "closure" and cl[1] in F.bodies:
                cb = F.bodies[cl[1]]
                rt = U(Terms(cb).return_term())
                alts = list(rt[1]) if rt[0] == "phi" else [rt]
                kept = []
                for a in alts:
                    if is_err_value(a) or result_variant(a) in ("Err", "None"):
                        continue
                    if result_variant(a) in ("Ok", "Some"):
                        a = agg_payload(a)
                    kept.append(a)
                if len(kept) != 1:
                    continue
                caps = cl[2]
                step = rewrite(kept[0], lambda y: U(caps[int(y[2])]) if y[0] == "field" and y[1] == ("arg", 1) and str(y[2]).isdigit() and int(y[2]) < len(caps) else None)
                # `|acc, x| x.map(|v| f(acc, v))`: read through the inner adaptor (payload convention)
                step = U(norm_adaptors(F, step))
                out.append({"seed": U(tm.operand(c.args[1], c.bb)), "step": step, "acc": ("arg", 2), "elem": ("arg", 3), "src": U(tm.operand(c.args[0], c.bb)), "where": c.where(), "form": "fold", "fn": body.path})
    # new helpers
    if depth < 2 and known_functions():
        for c in body.calls():
            k = c.callee
            if k and k in F.bodies and k not in known_functions() and "{closure" not in k:
                out += accumulations(F.bodies[k], depth + 1)
    return out



def selection_folds(body):
    """accumulations whose step *chooses* between the accumulator and the element (arg-max and the like), whatever the spelling:
         loop form    `let mut best = seed; for x in src { if p(best, x) { best = x } }`
         adaptor form `src.fold(seed, |best, x| if p(best, x) { x } else { best })`
    each as dict(seed, src, cases, local, where, form, result): cases = [(facts, 'acc' | 'elem')] with the comparison facts of
    that case written over ('acc',) and ('elem',); `local` is the accumulator local (loop form) and `result` the term of the
    fold call (adaptor form)."""
    F = body.facts
    out = []
    ACC, ELEM = ("acc",), ("elem",)
    for h in sorted({h for h, _ in body.natural_loops()}):
        try:
            rows = iteration_table(body, h)
        except Exception:
            continue
        backs = [r for r in rows if r.kind == "back"]
        if not backs or not all(r.conds for r in backs):
            continue
        d0 = clean(backs[0].conds[0][0])
        if not (d0[0] == "discr" and d0[1][0] == "call" and re.search(r"::next$", d0[1][1])):
            continue
        elem = d0[1]
        cands = set()
        for r in backs:
            for l, v in r.env.items():
                if clean(v) == elem and body.local_name(l) and any(("carried", l) == clean(r2.new(l)) or contains(clean(c2[0]), lambda q: q == ("carried", l)) for r2 in backs for c2 in r2.conds):
                    cands.add(l)
        for l in sorted(cands):
            sub = lambda t, l=l: rewrite(clean(t), lambda y: ACC if y == ("carried", l) else (ELEM if y == elem else None))
            cases = []
            ok = True
            for r in backs:
                nv = clean(r.new(l))
                if nv == elem:
                    ch = "elem"
                elif nv == ("carried", l):
                    ch = "acc"
                else:
                    ok = False
                    break
                cases.append(({(op, sub(a), sub(b)) for op, a, b in r.facts}, ch))
            if ok:
                out.append({"seed": clean(loop_entry_value(body, h, l)), "src": elem[2][0], "cases": cases, "local": l, "where": body.where(h), "form": "loop", "result": None, "head": h})
    tm = Terms(body)
    for c in body.calls():
        k = c.callee or ""
        if itm(k, "fold") and len(c.args) == 3:
            cl = tm.operand(c.args[2], c.bb)
            if cl[0] != "closure" or cl[1] not in F.bodies or F.bodies[cl[1]].natural_loops():
                continue
            cb = F.bodies[cl[1]]
            sub = lambda t: rewrite(clean(t), lambda y: ACC if y == ("arg", 2) else (ELEM if y == ("arg", 3) else None))
            cases = []
            ok = True
            for r in table(cb, max_paths=2000):
                if r.end != "return":
                    continue
                rv = clean(r.ret)
                if rv == ("arg", 2):
                    ch = "acc"
                elif rv == ("arg", 3):
                    ch = "elem"
                else:
                    ok = False
                    break
                cases.append(({(op, sub(a), sub(b)) for op, a, b in r.facts}, ch))
            if ok and cases:
                out.append({"seed": clean(tm.operand(c.args[1], c.bb)), "src": clean(tm.operand(c.args[0], c.bb)), "cases": cases, "local": None, "where": c.where(), "form": "fold", "result": clean(tm.call_term(c.term, c.bb)), "head": None})
    return out


def loop_entry_value(body, head, l):
    """value of local l when the loop at `head` is entered the first time"""
    blocks = set().union(*[b for h, b in body.natural_loops() if h == head])
    back = {(a, head) for a in body.pred[head] if a in blocks}
    tm = Terms(body, edge_ok=lambda a, b: (a, b) not in back)
    return tm.local(l, head, 0)
