"""C06 — one response per query, independent of parallelism, order and schedule."""
from core import *
import common

EXPLANATION = (
    "C06: the schedule quantifier is discharged by an effect argument instead of exploring interleavings. (R1) Inventory of every "
    "synchronised cell (Mutex/RwLock/atomic/Once*/channel/Cell) reachable through the types of everything the workers share — all fields "
    "of CompassApp, through Arc/Vec/HashMap and through every workspace impl of each dyn trait met, plus the locals captured by the worker "
    "closures — must equal the audited set {prediction cache, sink file, sink counter, two progress bars}; no statics in the library crates; "
    "(R2) what the audited cells may influence: progress-bar guards only reach Bar::update whose result is dropped; the prediction cache "
    "returns exactly what a miss would compute (cache transparency, C08.R2); (R3) SearchApp/CompassApp have no &mut self methods and are only "
    "built by their constructors; every query gets its own SearchInstance from the services' build(query) and it is the one handed to the "
    "algorithm with the same query; (R4) conservation of queries: every iterator/rayon adaptor on the batch path is from the multiset-"
    "preserving whitelist (no *_exact/filter/take/skip/zip/dedup/step_by), chunk size >= 1, both sides of partition_map kept and flattened, "
    "load balancing pushes each query into exactly one bin on every non-error iteration, each batch element goes through run_single_query "
    "exactly once, error inputs are chained to the result, every response/error value is built from the request of the same query; "
    "(R5) error discipline: only the frozen list of configuration/sink/progress-bar failures can make run return Err; (R6) the "
    "interprocedural lock-order graph is acyclic. Not decided: rayon's own correctness, float equality across runs, cache bucket rounding."
)

APP = "routee_compass::app::compass::compass_app::"
OPS = "routee_compass::app::compass::compass_app_ops::"
IN = "routee_compass::plugin::input::input_plugin_ops::"
OUT = "routee_compass::plugin::output::output_plugin_ops::"
SA = "routee_compass::app::search::search_app::SearchApp"
LIB_CRATES = ("routee_compass", "routee_compass_core", "routee_compass_powertrain")

CELLS = re.compile(
    r"^(std::sync::(?:\w+::)?(Mutex|RwLock|OnceLock|Once|Condvar|Barrier|LazyLock|ReentrantLock)|std::sync::(mpsc::\w+|mpmc::\w+|atomic::\w+|poison::\w+::\w+|nonpoison::\w+::\w+)"
    r"|std::cell::\w+|std::cell::\w+::\w+|once_cell::\w+::\w+|lazy_static::\w+|parking_lot::\w+|crossbeam\w*::.*|dashmap::\w+|arc_swap::\w+|thread_local::\w+)$"
)

# the audited cells (owner.field -> why it cannot change a response's compared fields)
AUDITED = {
    "FloatCachePolicy.cache:std::sync::Mutex": "prediction cache; transparent (C06.R2: a hit returns what the miss computed), bucket rounding is assumption A-cache",
    "ResponseSink::File.file:std::sync::Mutex": "output file handle; only written (C19)",
    "ResponseSink::File.iterations:std::sync::Mutex": "row counter; only the flush test reads it (C19)",
    "local Arc<Mutex<Bar>>:std::sync::Mutex": "progress bar; guard only reaches Bar::update (C06.R2)",
}


def type_walk(F):
    impls_by_trait = defaultdict(set)
    for i in F.impls:
        if i.get("trait") and i.get("self_adt"):
            impls_by_trait[i["trait"]].add(i["self_adt"])
    found = {}
    seen = set()
    visited_adts = []

    def walk_tree(tr, owner, path):
        if not isinstance(tr, dict):
            return
        k = tr.get("k")
        if k == "adt":
            p = tr["path"]
            if CELLS.match(p):
                found.setdefault("%s:%s" % (owner, p), path)
            walk_adt(p, path)
        elif k == "dyn":
            for t in tr.get("traits", []):
                for adt in sorted(impls_by_trait.get(t, ())):
                    walk_adt(adt, path + " -> dyn %s = %s" % (t.split("::")[-1], adt.split("::")[-1]))
        for v in tr.values():
            if isinstance(v, dict):
                walk_tree(v, owner, path)
            elif isinstance(v, list):
                for y in v:
                    if isinstance(y, dict):
                        walk_tree(y, owner, path)

    def walk_adt(p, path):
        if p in seen:
            return
        seen.add(p)
        a = F.adts.get(p)
        if not a or not a.get("local"):
            return
        visited_adts.append(p)
        short_p = p.split("::")[-1]
        for v in a["variants"]:
            vn = short_p if a["kind"] == "struct" else "%s::%s" % (short_p, v["name"])
            for f in v["fields"]:
                walk_tree(f["tree"], "%s.%s" % (vn, f["name"]), (path + " / " if path else "") + "%s.%s" % (vn, f["name"]))

    return walk_adt, walk_tree, found, visited_adts, impls_by_trait


def batch_bodies(F):
    """run, run_batch_*, their closures and new helpers (the code that runs on the worker pool)"""
    roots = [APP + "CompassApp::run", APP + "run_batch_with_responses", APP + "run_batch_without_responses"]
    out = []
    for r in roots:
        for b in tree_of(F, r):
            if b not in out:
                out.append(b)
    return out


def R1_inventory(ctx):
    """C06.R1 interior-mutability inventory"""
    F = ctx.F
    ctx.rule("C06.R1", "every synchronised cell reachable through the types shared by the workers (CompassApp fields, through containers and every workspace impl of each dyn trait; ResponseSink; locals of run/run_batch_* and their closures) is one of the audited cells; the library crates declare no static", floor=5)
    walk_adt, walk_tree, found, visited, impls_by_trait = type_walk(F)
    walk_adt("routee_compass::app::compass::compass_app::CompassApp", "")
    walk_adt("routee_compass::app::compass::response::response_sink::ResponseSink", "")
    # locals of the batch functions: any ADT named in a local's type is walked; cells named directly are locals
    adt_token = re.compile(r"[A-Za-z_][\w]*(?:::[A-Za-z_][\w]*)+")
    for b in batch_bodies(F):
        for l in b.locals:
            ty = l.get("ty", "")
            for tok in set(adt_token.findall(ty)):
                if CELLS.match(tok):
                    if "kdam::std::bar::Bar" in ty and tok == "std::sync::Mutex":
                        found.setdefault("local Arc<Mutex<Bar>>:std::sync::Mutex", b.path)
                    elif "MutexGuard" in tok or tok.startswith("std::sync::poison::"):
                        continue
                    elif "response_sink::ResponseSink" in ty or "std::fs::File" in ty or "Mutex<u64>" in ty:
                        continue  # the sink's own cells, listed through the ADT walk
                    else:
                        found.setdefault("local %s:%s" % (ty[:80], tok), b.path)
                elif tok in F.adts:
                    walk_adt(tok, "local of " + short_fn_name(b.path))
    ctx.check(len(visited) >= 60, "walk-live", "the type walk visited only %d workspace types" % len(visited), None, detail="%d workspace types visited" % len(visited))
    for key, path in sorted(found.items()):
        if key in AUDITED:
            ctx.ok(key, "audited: " + AUDITED[key])
        else:
            ctx.bad("cell:" + key, "a synchronised cell that is not in the audited set is shared between workers (reachable as %s): a response could depend on the schedule through it" % path, None)
    for key in AUDITED:
        ctx.check(key in found, "audited-present:" + key, "the audited cell was not found by the walk (the walk lost coverage)", None)
    # statics
    n_static = 0
    for k, v in F.consts.items():
        if not v["kind"].startswith("Static"):
            continue
        n_static += 1
        crate = v.get("file", "").split("/")[0].replace("-", "_")
        if k.split("::")[0] in LIB_CRATES:
            # (a `thread_local!` expands to statics whose span lies in the standard library's macro: attribute them by path)
            crate = k.split("::")[0]
        if crate in LIB_CRATES:
            ctx.bad("static:" + k, "a static in a library crate is shared by all workers (%s, mut=%s)" % (v["ty"][:80], v.get("mut")), "%s:%s" % (v.get("file"), v.get("line")))
        else:
            ctx.check(bool(v.get("exp")) and not v.get("mut"), "static:" + k.split("::")[-1], "hand-written or mutable static outside the library crates", "%s:%s" % (v.get("file"), v.get("line")), detail="macro-generated pyo3 glue")
    ctx.note("statics found in the workspace: %d (all must be immutable pyo3 glue in routee_compass_py)" % n_static)
    # dyn traits met must have workspace impls known to the fact base
    for t in ("routee_compass_core::model::traversal::traversal_model_service::TraversalModelService", "routee_compass::plugin::input::input_plugin::InputPlugin", "routee_compass::plugin::output::output_plugin::OutputPlugin", "routee_compass_powertrain::routee::vehicle::vehicle_type::VehicleType", "routee_compass_powertrain::routee::prediction::prediction_model::PredictionModel"):
        ctx.check(len(impls_by_trait.get(t, ())) >= 2, "impls:" + t.split("::")[-1], "fewer than two workspace impls found for %s (the walk through dyn would be vacuous)" % t, None, detail="%d impls" % len(impls_by_trait.get(t, ())))


def R2_cell_influence(ctx):
    """C06.R2 what the audited cells may influence"""
    F = ctx.F
    ctx.rule("C06.R2", "progress-bar guards flow only into Bar::update whose result is discarded; a failed bar lock is skipped, never an error; the prediction cache stores exactly the raw rate a miss computes and returns (see C08.R2, run here)", floor=3)
    n = 0
    for b in batch_bodies(F):
        tm = Terms(b)
        for c in b.calls():
            if not (c.callee and re.search(r"std::sync::Mutex::<T>::(lock|try_lock)$", c.callee)):
                continue
            ty = c.args[0].get("ty", "")
            if "kdam::std::bar::Bar" not in ty:
                continue
            n += 1
            g = tm.call_term(c.term, c.bb)
            uses = []
            for c2 in b.calls():
                if c2 is c:
                    continue
                for a in c2.args:
                    if contains(tm.operand(a, c2.bb), lambda s: s == g):
                        uses.append(c2)
            names = sorted({(u.callee or "?") for u in uses})
            okn = all(re.search(r"(BarExt>::update|::deref_mut|::deref|drop_in_place|Result::<T, E>::(ok|is_ok))$", x) for x in names) and any(x.endswith("BarExt>::update") for x in names)
            ctx.check(okn, "%s:bar-guard-only-updates" % short_fn_name(b.path), "the progress-bar guard flows into %s" % names, c.where(), detail="guard -> Bar::update only")
            # the update result is dropped: not part of the closure's return value
            rt = tm.return_term()
            upd = [tm.call_term(u.term, u.bb) for u in uses if (u.callee or "").endswith("BarExt>::update")]
            ctx.check(not any(contains(rt, lambda s, u=u: s == u) for u in upd) and not contains(rt, lambda s: s == g), "%s:bar-result-dropped" % short_fn_name(b.path), "the result of the progress update / lock reaches the closure's return value", c.where(), detail="let _ = pb.update(1)")
    ctx.check(n >= 2, "bar-sites", "expected the progress-bar lock sites of the input stage and of the search stage, found %d" % n, None)
    from props.C08 import R2_record
    R2_record(ctx)


def R3_per_query(ctx):
    """C06.R3 per-query construction, shared app immutable"""
    F = ctx.F
    ctx.rule("C06.R3", "no method of SearchApp/CompassApp takes &mut self and both are only built in their constructors; run_vertex/edge_oriented build a fresh SearchInstance from this query (services' build(query)) and hand that instance, with the same query, to the algorithm; the instance returned is that one", floor=10)
    for adt in (SA, "routee_compass::app::compass::compass_app::CompassApp"):
        n = 0
        for p, b in F.bodies.items():
            if b.raw.get("impl_self_adt") == adt and b.raw.get("kind") in ("fn", "assocfn") and "{closure" not in p:
                n += 1
                first = b.locals[1]["ty"] if b.argc >= 1 else ""
                ctx.check(not (first.startswith("&mut ") and adt.split("::")[-1] in first), "%s:no-&mut-self" % short_fn_name(p), "a method mutates the shared app in place", b.where(), detail=first[:60])
        ctx.check(n >= 3, adt.split("::")[-1] + ":methods-found", "expected methods of %s" % adt, None)
        builders = set()
        for p, b in F.bodies.items():
            for blk in b.blocks:
                for s in blk["stmts"]:
                    if s["k"] == "assign" and s["rv"]["k"] == "agg" and s["rv"].get("adt") == adt:
                        builders.add(p.split("::{closure")[0])
        allowed = {SA + "::new", "<routee_compass::app::compass::compass_app::CompassApp as std::convert::TryFrom<(&config::Config, &routee_compass::app::compass::config::compass_app_builder::CompassAppBuilder)>>::try_from"}
        ctx.check(bool(builders) and all(x in allowed or x.endswith(">::try_from") or x.endswith("::new") for x in builders), adt.split("::")[-1] + ":only-constructors-build", "%s is built in %s" % (adt.split("::")[-1], sorted(builders)), None, detail=", ".join(short_fn_name(x) for x in sorted(builders)))
    # field writes to the shared app
    for p, b in F.bodies.items():
        for bb, blk in enumerate(b.blocks):
            for s in blk["stmts"]:
                if s["k"] == "assign" and s["place"]["p"]:
                    for e in s["place"]["p"]:
                        if e.get("k") == "field" and e.get("adt") in (SA, "routee_compass::app::compass::compass_app::CompassApp") and s["place"]["p"][0]["k"] == "deref":
                            ctx.bad("field-write:%s.%s" % (e["adt"].split("::")[-1], e.get("name")), "a field of the shared app is assigned through a reference in %s" % short_fn_name(p), b.where(bb))
    for m, alg in (("run_vertex_oriented", "run_vertex_oriented"), ("run_edge_oriented", "run_edge_oriented")):
        b = F.need(SA + "::" + m)
        tm = Terms(b)
        bs = [c for c in b.calls() if c.callee == SA + "::build_search_instance"]
        al = [c for c in b.calls() if c.func.get("method") == alg and c is not None and (c.callee or "").endswith("SearchAlgorithm::" + alg)]
        if not ctx.check(len(bs) == 1 and len(al) == 1, m + ":anchors", "expected one build_search_instance and one algorithm call (%d/%d)" % (len(bs), len(al)), b.where()):
            continue
        ba = [nosite(deep_strip(tm.operand(a, bs[0].bb))) for a in bs[0].args]
        ctx.check(ba == [("arg", 1), ("arg", 2)], m + ":instance-built-from-this-query", "build_search_instance is not called as self.build_search_instance(query)", bs[0].where(), detail="build_search_instance(query)")
        inst = nosite(deep_strip(tm.call_term(bs[0].term, bs[0].bb)))
        aa = [nosite(deep_strip(tm.operand(a, al[0].bb))) for a in al[0].args]
        ctx.check(aa[0] == ("field", ("arg", 1), "search_algorithm") and aa[3] == ("arg", 2) and aa[-1] == inst and b.dominates(bs[0].bb, al[0].bb), m + ":algorithm(query, fresh instance)", "the algorithm does not run on (this query, the instance just built)", al[0].where(), detail="search_algorithm.%s(o, d, query, Forward, &instance)" % alg)
        ctx.check(try_propagation(b, bs[0], tm)["kind"] == "propagated", m + ":build-error", "Err of build_search_instance is not propagated", bs[0].where())
    b = F.need(SA + "::build_search_instance")
    tm = Terms(b)
    oks = [r for r in table(b, max_paths=100000) if r.end == "return" and result_variant(r.ret) == "Ok"]
    ok = bool(oks)
    for r in oks:
        s = agg_payload(r.ret)
        fl = dict(s[3]) if s[0] == "agg" else {}
        want_built = {"traversal_model": "traversal_model_service", "access_model": "access_model_service", "frontier_model": "frontier_model_service", "cost_model": "cost_model_service"}
        for f, svc in want_built.items():
            v = fl.get(f)
            okf = v is not None and contains(v, lambda q: q[0] == "call" and q[1].endswith("::build") and q[2][0] == ("field", ("arg", 1), svc) and q[2][1] == ("arg", 2))
            ok = ok and okf
        sm = fl.get("state_model")
        ok = ok and sm is not None and contains(sm, lambda q: q[0] == "call" and q[1].endswith("StateModel::extend") and q[2][0] == ("field", ("arg", 1), "state_model"))
        ok = ok and fl.get("directed_graph") == ("field", ("arg", 1), "directed_graph") and fl.get("termination_model") == ("field", ("arg", 1), "termination_model")
    ctx.check(ok, "build_search_instance:per-query-models", "the SearchInstance is not made of models built by the services from this query, a state model extended from the shared one and the shared (immutable) graph/termination model", b.where(), detail="service.build(query) x4, state_model.extend, graph/termination shared")


WHITELIST = re.compile(
    r"(^rayon::slice::ParallelSlice::par_chunks$|IntoParallelRefIterator<'data>>::par_iter$|^rayon::iter::ParallelIterator::(map|unzip|collect|flatten|flat_map)(\{.*\})?$"
    r"|^std::slice::<impl \[T\]>::(iter|iter_mut)$|IntoIterator>::into_iter(\{.*\})?$|^std::iter::Iterator::(map|flatten|collect|chain|fold|for_each|cloned|copied)(\{.*\})?$|Iterator>::(next|fold|map|collect|flatten|chain)(\{.*\})?$"
    r"|^itertools::Itertools::partition_map(\{.*\})?$|^std::iter::empty(\{.*\})?$|^std::vec::Vec::<T, A>::(len|is_empty|push)$"
    r"|^std::iter::Iterator::(sum|count|max|min|product|any|all|try_for_each|for_each)(\{.*\})?$|Iterator>::(sum|count|try_for_each|for_each|any|all)(\{.*\})?$)"
)
ADAPTOR = re.compile(r"(^rayon::(slice|iter)::|Parallel\w*(<[^>]*>)?>?::\w+|^std::iter::|Iterator(<[^>]*>)?>?::\w+(\{.*\})?$|^itertools::|^std::slice::<impl \[T\]>::(iter|iter_mut|chunks\w*|windows|split\w*|rchunks\w*)$|IntoIterator>::into_iter)")


def R4_conservation(ctx):
    """C06.R4 conservation of queries"""
    F = ctx.F
    ctx.rule("C06.R4", "every adaptor on the batch path preserves the multiset of elements (whitelist; `par_chunks` with size >= 1; no *_exact/filter/take/skip/zip/step_by/dedup); partition_map keeps Ok on the left and Err on the right and both sides are flattened; input errors are chained to the final result; load balancing pushes each query to exactly one bin; each batch element is run exactly once; responses and errors carry the request of the same query", floor=30)
    n = 0
    for b in batch_bodies(F):
        for c in b.calls():
            k = c.callee or ""
            if not ADAPTOR.search(k):
                continue
            n += 1
            ctx.check(bool(WHITELIST.search(k)), "%s:%s" % (short_fn_name(b.path), k.split("::")[-1][:40]), "the batch path uses `%s`, which is not in the multiset-preserving whitelist (elements may be dropped, duplicated or re-paired)" % k, c.where(), detail="whitelisted")
    ctx.check(n >= 20, "adaptor-sites", "only %d adaptor calls found on the batch path" % n, None)
    b = F.need(APP + "CompassApp::run")
    tm = Terms(b)
    pc = [c for c in b.calls() if (c.callee or "").startswith("rayon::slice::ParallelSlice::par_chunks")]
    if ctx.check(len(pc) == 1, "input-stage:par_chunks", "expected one par_chunks over the queries", b.where()):
        a = [nosite(deep_strip(tm.operand(x, pc[0].bb))) for x in pc[0].args]
        ctx.check(unmut(a[0]) == ("arg", 2), "input-stage:all-queries", "the input stage does not iterate the batch it was given", pc[0].where(), detail="queries.par_chunks(..)")
        sz = a[1]
        ge1 = sz[0] == "call" and re.search(r"Ord::max$|::max$", sz[1]) and ("const", "usize", 1) in sz[2]
        ctx.check(bool(ge1), "input-stage:chunk-size>=1", "the chunk size is not bounded below by 1 (an empty batch would panic in par_chunks): %s" % short(sz)[:120], pc[0].where(), detail=".max(1)")
    # closure#2: per chunk iter().map(apply_input_plugins).partition_map(Ok->Left, Err->Right)
    cl = F.need(APP + "CompassApp::run::{closure#2}::{closure#0}")
    ctm = Terms(cl)
    ap = [c for c in cl.calls() if c.callee == APP + "apply_input_plugins"]
    okp = len(ap) == 1
    if okp:
        a = [nosite(deep_strip(ctm.operand(x, ap[0].bb))) for x in ap[0].args]
        rt = nosite(deep_strip(ctm.return_term()))
        okp = a[0] == ("arg", 2) and a[1] == ("field", ("field", ("arg", 1), "0"), "input_plugins") and rt == nosite(deep_strip(ctm.call_term(ap[0].term, ap[0].bb)))
    ctx.check(okp, "input-stage:one-apply-per-query", "each query of the chunk is not mapped to exactly apply_input_plugins(q, self.input_plugins) (returned unchanged)", cl.where(), detail="|q| apply_input_plugins(q, plugins)")
    pm = F.need(APP + "CompassApp::run::{closure#2}::{closure#1}")
    sides = {}
    for r in table(pm):
        if r.end == "return" and r.ret[0] == "agg" and r.ret[1].endswith("Either"):
            v = r.sel.get(("arg", 2))
            sides[v] = (r.ret[2], agg_payload(r.ret))
    ctx.check(sides.get("Ok", (None,))[0] == "Left" and sides.get("Err", (None,))[0] == "Right" and sides["Ok"][1] in (("arg", 2), ("field", ("variant", ("arg", 2), "Ok"), "0")) and sides["Err"][1] == ("field", ("variant", ("arg", 2), "Err"), "0"), "input-stage:partition(Ok->Left, Err->Right)", "partition_map does not keep Ok(values) on the left and Err(response) on the right: %s" % {k: v[0] for k, v in sides.items()}, pm.where(), detail="Ok->Left, Err->Right")
    # both sides used: processed (.0) -> load balancing ; errors (.1) -> chain
    lb = [c for c in b.calls() if c.callee == OPS + "apply_load_balancing_policy"]
    ch = [c for c in b.calls() if c.callee and re.search(r"Iterator::chain$", c.callee)]
    uz = [c for c in b.calls() if (c.callee or "").startswith("rayon::iter::ParallelIterator::unzip")]
    if ctx.check(len(lb) == 1 and len(ch) == 1 and len(uz) == 1, "run:anchors", "expected one load balancing call, one chain and one unzip", b.where()):
        u = nosite(deep_strip(tm.call_term(uz[0].term, uz[0].bb)))
        la = nosite(deep_strip(tm.operand(lb[0].args[0], lb[0].bb)))
        ca = [nosite(deep_strip(tm.operand(x, ch[0].bb))) for x in ch[0].args]
        names_l = chain_methods(la)
        ctx.check(contains(la, lambda s: s == ("field", u, "0")) and names_l.count("flatten") == 2, "run:processed=left.flatten.flatten", "the queries handed to load balancing are not all expanded queries of all chunks (left side, flattened twice): %s" % names_l, lb[0].where(), detail="processed_inputs_nested.into_iter().flatten().flatten()")
        names_e = chain_methods(ca[1])
        ctx.check(contains(ca[1], lambda s: s == ("field", u, "1")) and names_e.count("flatten") == 1, "run:errors=right.flatten", "the error responses chained to the result are not all error responses of all chunks: %s" % names_e, ch[0].where(), detail="error_inputs_nested.into_iter().flatten()")
        rb = [c for c in b.calls() if c.callee in (APP + "run_batch_with_responses", APP + "run_batch_without_responses")]
        okb = len(rb) == 2
        lbt = nosite(deep_strip(tm.call_term(lb[0].term, lb[0].bb)))
        for c in rb:
            a0 = nosite(deep_strip(tm.operand(c.args[0], c.bb)))
            okb = okb and unmut(a0) == lbt
        ctx.check(okb, "run:batches=load-balanced-inputs", "run_batch_* does not receive the load-balanced batches", b.where(), detail="run_batch_*(load_balanced_inputs, ..)")
        alts = set(ca[0][1]) if ca[0][0] == "phi" else {ca[0]}
        ctx.check(all(x[0] == "call" and x[1] in (APP + "run_batch_with_responses", APP + "run_batch_without_responses") for x in alts) and len(alts) == 2, "run:result=search-responses.chain(errors)", "the final result is not run_batch_*(..).chain(error_inputs)", ch[0].where(), detail="run_query_result.chain(error_inputs).collect()")
        rt = nosite(deep_strip(tm.return_term()))
        ctx.check(contains(rt, lambda s: s[0] == "call" and re.search(r"Iterator::collect", s[1]) and contains(s[2][0], lambda q: q[0] == "call" and q[1].endswith("Iterator::chain"))), "run:returns-collected-chain", "run does not return the collected chain", b.where())
        # every Ok return (also the early one when nothing survives input processing) carries the error responses
        alts = list(rt[1]) if rt[0] == "phi" else [rt]
        n_ok = 0
        for a in alts:
            a = unmut_all(a)
            if is_err_value(a) or (a[0] == "call" and a[1].endswith("from_residual")):
                continue
            n_ok += 1
            ctx.check(contains(a, lambda s: s == ("field", u, "1")), "run:Ok-return-carries-input-errors", "an Ok return of run does not contain the responses of the queries that failed input processing: %s" % short(a)[:160], b.where(), detail="Ok(.. error_inputs ..)")
        ctx.check(n_ok >= 2, "run:Ok-returns-found", "expected the early and the final Ok return of run, found %d" % n_ok, b.where())
    # load balancing loop
    lbb = F.need(OPS + "apply_load_balancing_policy")
    ltm = Terms(lbb)
    # the loop over the queries: the one driven by queries.iter().next() (helpers that were written out in place may bring
    # loops of their own, e.g. the search for the lightest bin)
    outer = None
    qsite = None
    for c in lbb.calls():
        if c.func.get("method") == "next":
            recv = unmut_all(nosite(deep_strip(ltm.operand(c.args[0], c.bb))))
            src = recv
            while src[0] == "call" and len(src[2]) == 1 and re.search(r"::into_iter$", src[1]):
                src = src[2][0]
            if src == ("call", "std::slice::<impl [T]>::iter", (("arg", 1),)) or (src[0] == "call" and src[1].endswith("::iter") and len(src[2]) == 1 and unmut(src[2][0]) == ("arg", 1)):
                lp = innermost_loop(lbb, c.bb)
                if lp is not None:
                    outer, qsite = lp, c
    okl = outer is not None
    fold_cb = None
    if outer is None:
        # the same pass written as queries.iter().try_fold(state, |state, q| ..) / try_for_each / for_each: the closure is the
        # loop body, its element parameter the query
        for c in lbb.calls():
            if c.callee and (itm(c.callee, "try_fold") or itm(c.callee, "fold") or itm(c.callee, "try_for_each") or itm(c.callee, "for_each")):
                recv = unmut_all(nosite(deep_strip(ltm.operand(c.args[0], c.bb))))
                cl = ltm.operand(c.args[-1], c.bb)
                if recv[0] == "call" and recv[1].endswith("::iter") and len(recv[2]) == 1 and unmut(recv[2][0]) == ("arg", 1) and cl[0] == "closure" and cl[1] in F.bodies:
                    fold_cb = (F.bodies[cl[1]], c, ("arg", len(c.args)))
    if fold_cb is not None:
        cb, fsite, q = fold_cb
        ctm = Terms(cb)
        pushes = []
        for c in cb.calls():
            if c.callee == "std::vec::Vec::<T, A>::push":
                recv, val = [unmut_all(nosite(deep_strip(ctm.operand(x, c.bb)))) for x in c.args]
                if val == q:
                    pushes.append((c, recv))
        okl = len(pushes) == 1 and not cb.natural_loops()
        if okl:
            P, recv = pushes[0]
            okl = recv[0] == "call" and recv[1].endswith("IndexMut<I>>::index_mut")
            for r in table(cb, max_paths=20000):
                if r.end != "return":
                    continue
                if is_err_value(r.ret) or result_variant(r.ret) == "Err":
                    continue
                okl = okl and r.path.blocks.count(P.bb) == 1
            # a failing turn ends the pass with that error; the bins are the fold's result
            okl = okl and try_propagation(lbb, fsite, ltm)["kind"] in ("propagated", "returned")
    elif okl:
        h, blocks = outer
        q = unmut_all(nosite(deep_strip(ltm.call_term(qsite.term, qsite.bb))))
        pushes = []
        for c in lbb.calls():
            if c.callee == "std::vec::Vec::<T, A>::push" and c.bb in blocks:
                recv, val = [unmut_all(nosite(deep_strip(ltm.operand(x, c.bb)))) for x in c.args]
                if val == q:
                    pushes.append((c, recv))
        okl = len(pushes) == 1
        if okl:
            P, recv = pushes[0]
            # conservation only: the element goes into one bin of the bins vector; which bin is the balancing heuristic's business
            okl = recv[0] == "call" and recv[1].endswith("IndexMut<I>>::index_mut") and recv[2][0][0] == "call" and recv[2][0][1] == "std::vec::from_elem"
            if not okl:
                # bins as one vector of small structs {total, queries}: the query goes into the `queries` of one element of a
                # vector built with one element per 0..parallelism, and the result hands out that field of every element
                struct_bins = _struct_bins_form(F, lbb, ltm, recv)
                okl = struct_bins is True
            # on every turn exactly once: no way round the loop without the push, no second push before the next query
            okl = okl and innermost_loop(lbb, P.bb) == outer
            okl = okl and h not in lbb.reach_from_succs(h, removed_blocks=[P.bb])
            okl = okl and P.bb not in lbb.reach_from_succs(P.bb, removed_blocks=[h])
        # leaving the loop: exhausted => Ok, otherwise an error
        for (x, y) in loop_exit_edges(lbb, blocks):
            t = lbb.blocks[x]["term"]
            exhausted = False
            if t["k"] == "switch":
                d, names = switch_discr_info(lbb, x)
                exhausted = bool(names) and switch_target(t, names, "None") == y and unmut_all(nosite(deep_strip(ltm.operand(d, x)))) == ("discr", q)
            vals = region_value(lbb, (x, y))
            if exhausted:
                okl = okl and bool(vals) and all(result_variant(nosite(deep_strip(v))) == "Ok" for _, v in vals)
            else:
                okl = okl and bool(vals) and all(is_err_value(v) or result_variant(nosite(deep_strip(v))) == "Err" for _, v in vals)
    ctx.check(okl, "load-balancing:one-bin-per-query", "the loop over all queries does not push each query into exactly one bin (assignments[min_bin]) on every non-error iteration", lbb.where(), detail="for q in queries: assignments[min_bin].push(q)")
    ltm = Terms(lbb)
    rt = nosite(deep_strip(ltm.return_term()))
    sizes = [c for c in lbb.calls() if c.callee == "std::vec::from_elem"]
    oks = len(sizes) == 2 and all(nosite(deep_strip(ltm.operand(c.args[1], c.bb))) == ("arg", 2) for c in sizes)
    if not oks and not sizes and locals().get("struct_bins") is True:
        oks = True   # one vector of bins, (0..parallelism).map(..).collect(): checked by _struct_bins_form
    ctx.check(oks, "load-balancing:bins-sized-by-parallelism", "bin_totals and assignments are not both sized by `parallelism`", lbb.where(), detail="vec![..; parallelism] x2")
    # weight failure never aborts the batch
    we = [c for c in lbb.calls_deep() if (c.callee or "").endswith("get_query_weight_estimate")]
    okw = len(we) == 1
    if not we:
        # in the closure of a fold over the queries
        for cb_ in tree_of(F, lbb.path)[1:]:
            wc = [c for c in cb_.calls() if (c.callee or "").endswith("get_query_weight_estimate")]
            if len(wc) == 1:
                okw = try_propagation(cb_, wc[0])["kind"] not in ("propagated", "returned")
    for c in we:
        if isinstance(c, VirtualCallSite):
            inner_kind = try_propagation(c.inner.body, c.inner)["kind"]
            okw = okw and (inner_kind not in ("propagated", "returned") or try_propagation(lbb, c.via, ltm)["kind"] != "propagated")
        else:
            okw = okw and try_propagation(lbb, c, ltm)["kind"] != "propagated"
    ctx.check(okw, "load-balancing:ill-typed-weight-is-not-fatal", "a query whose weight estimate cannot be read aborts the whole batch", lbb.where(), detail=".ok().flatten().unwrap_or(default)")
    # run_batch_*: one run_single_query per element (whatever the spelling: map/collect, fold, for loop, extracted helper)
    for fn in ("run_batch_with_responses", "run_batch_without_responses"):
        fb = F.need(APP + fn)
        ftm = Terms(fb)
        pi = [c for c in fb.calls() if (c.callee or "").endswith("::par_iter")]
        ctx.check(len(pi) == 1 and unmut(nosite(deep_strip(ftm.operand(pi[0].args[0], pi[0].bb)))) == ("arg", 1), fn + ":all-batches", "the batches given are not all iterated", fb.where(), detail="load_balanced_inputs.par_iter()")
        T = tree_of(F, APP + fn)
        its = []
        for tb in T:
            if tb is fb:
                continue
            ttm = Terms(tb)
            for c in tb.calls():
                if (c.callee or "") == "std::slice::<impl [T]>::iter":
                    r0 = unmut(nosite(deep_strip(ttm.operand(c.args[0], c.bb))))
                    if r0[0] == "arg":
                        its.append(c)
        ctx.check(len(its) == 1, fn + ":all-queries-of-a-batch", "the queries of a batch are not all iterated (found %d iterations over a batch)" % len(its), fb.where(), detail="queries.iter()")
        runs = [(tb, c) for tb in T for c in tb.calls() if c.callee == APP + "run_single_query"]
        okq = len(runs) == 1
        why = "expected exactly one run_single_query site, found %d" % len(runs)
        if okq:
            rb, rs = runs[0]
            rtm = Terms(rb)
            a0 = unmut(nosite(deep_strip(rtm.operand(rs.args[0], rs.bb))))
            resp = nosite(deep_strip(rtm.call_term(rs.term, rs.bb)))
            wr = [c for c in rb.calls() if (c.callee or "").endswith("ResponseSink::write_response")]
            okq = len(wr) == 1 and unmut(nosite(deep_strip(rtm.operand(wr[0].args[1], wr[0].bb)))) == resp and rb.dominates(rs.bb, wr[0].bb)
            why = "the response of run_single_query is not written to the sink right after it"

            def element_ok(body, t):
                """t is the element of the iteration over the batch: a closure parameter, or next() over queries.iter()"""
                if t[0] == "arg" and "{closure" in body.path:
                    return True
                return t[0] == "call" and itm(t[1], "next") and contains(t, lambda q: q[0] == "call" and q[1] == "std::slice::<impl [T]>::iter")

            if okq:
                if "{closure" in rb.path or a0[0] == "call":
                    okq = element_ok(rb, a0)
                    why = "run_single_query is not applied to the element of the iteration"
                    holder, htm, hresp = rb, rtm, resp
                else:
                    # extracted helper: its parameter must receive the element at its (single) call site in this tree
                    callers = [(tb, c) for tb in T for c in tb.calls() if c.callee == rb.path]
                    okq = a0[0] == "arg" and len(callers) == 1
                    why = "the helper around run_single_query is not called exactly once per element"
                    if okq:
                        hb, hc = callers[0]
                        htm = Terms(hb)
                        with no_inline():
                            htm2 = Terms(hb)
                            actual = unmut(nosite(deep_strip(htm2.operand(hc.args[a0[1] - 1], hc.bb))))
                            hresp = nosite(deep_strip(htm2.call_term(hc.term, hc.bb)))
                        okq = element_ok(hb, actual)
                        why = "the helper around run_single_query does not receive the element of the iteration"
                        holder, htm = hb, htm2
                        # the helper returns the response it wrote
                        if fn == "run_batch_with_responses":
                            oks_ = [r for r in table(rb, max_paths=100000) if r.end == "return" and result_variant(r.ret) == "Ok"]
                            okq = okq and bool(oks_) and all(unmut(agg_payload(r.ret)) == resp for r in oks_)
                if okq and fn == "run_batch_with_responses":
                    # the response (of the closure / helper call) is returned or pushed into the collected vector
                    with no_inline():
                        h2 = Terms(holder)
                        rt_ = h2.return_term()
                        pushed = [c for c in holder.calls() if (c.callee or "").startswith("std::vec::Vec::<T, A>::push") and contains(h2.operand(c.args[1], c.bb), lambda q: nosite(deep_strip(q)) == hresp)]
                        returned = contains(nosite(deep_strip(rt_)), lambda q: q == hresp)
                    okq = bool(pushed) or returned
                    why = "the response is neither returned nor pushed into the responses of the batch"
        ctx.check(okq, fn + ":one-run-per-query", "each element of a batch is not run exactly once through run_single_query with its response written%s: %s" % (" and returned" if fn.endswith("with_responses") else "", why), fb.where(), detail="run_single_query(q, ..) -> write_response(response)")
    # run_single_query / apply_output_processing / create_initial_output: the same request
    b1 = F.need(APP + "run_single_query")
    rt = nosite(deep_strip(Terms(b1).return_term()))
    want = ("agg", "std::result::Result", "Ok", (("0", ("call", APP + "apply_output_processing", (("arg", 1), ("call", SA + "::run", (("arg", 4), ("arg", 1), ("arg", 2))), ("arg", 4), ("arg", 3)))),))
    ctx.check(rt == want, "run_single_query:always-a-response-for-this-query", "run_single_query is not Ok(apply_output_processing(query, search_app.run(query, orientation), ..)): %s" % short(rt)[:200], b1.where(), detail="Ok(output(query, run(query)))")
    b2 = F.need(APP + "apply_output_processing")
    tm2 = Terms(b2)
    init = ("call", OUT + "create_initial_output", (("arg", 1), ("arg", 2), ("arg", 3)))
    okr = True
    nret = 0
    for r in table(b2, max_paths=100000):
        if r.end != "return":
            continue
        nret += 1
        v = unmut_all(r.ret)
        if v == init or v == ("field", ("variant", init, "Ok"), "0") or v == ("field", ("variant", init, "Err"), "0") or v == ("field", init, "0"):
            continue
        if v[0] == "call" and v[1].startswith(OUT + "package_error") and v[2][0] == ("arg", 1):
            continue
        okr = False
        ctx.bad("apply_output_processing:return", "a return value is neither the initial output of this request nor package_error(this request, e): %s" % short(v)[:160], b2.where())
    ctx.check(okr and nret >= 2, "apply_output_processing:request-of-same-query", "not every return value is built from request_json", b2.where(), detail="initial(request_json) | package_error(request_json, e)")
    b3 = F.need(OUT + "create_initial_output")
    okc = True
    nrow = 0
    for r in table(b3, max_paths=100000):
        if r.end != "return":
            continue
        nrow += 1
        v = unmut_all(r.ret)
        if result_variant(v) == "Err":
            pe = agg_payload(v)
            okc = okc and pe[0] == "call" and pe[1].startswith(OUT + "package_error") and pe[2][0] == ("arg", 1)
        elif result_variant(v) == "Ok":
            ins = json_inserts(b3)
            okc = okc and "request" in ins and contains(ins["request"], lambda s: s == ("arg", 1))
        else:
            okc = False
    ctx.check(okc and nrow >= 2, "create_initial_output:request-of-same-query", "the initial output / error is not built from `req`", b3.where(), detail="{request: req, ..} | package_error(req, e)")
    for pth in [p for p in F.bodies if p.startswith(OUT + "package_error") or p.startswith(IN + "package_error")]:
        pb = F.bodies[pth]
        if "{closure" in pth:
            continue
        ins = json_inserts(pb)
        ctx.check(set(ins) == {"request", "error"} and contains(ins["request"], lambda s: unmut(s) == ("arg", 1)) and contains(ins["error"], lambda s: unmut(s) == ("arg", 2)), short_fn_name(pth) + ":{request, error}", "package_error does not build {request: <its argument>, error: ..}", pb.where(), detail="{request, error}")
    # input side: sub-queries
    R4_input_plugins(ctx)


def json_inserts(b):
    """{key: value term} of the serde_json map literal built in body b (json!({..}) expansion)"""
    tm = Terms(b)
    out = {}
    for c in b.calls():
        if (c.callee or "").startswith("serde_json::map::Map::<std::string::String, serde_json::value::Value>::insert"):
            k = nosite(deep_strip(tm.operand(c.args[1], c.bb)))
            ks = [x[2] for x in subterms(k) if x[0] == "const" and x[1] == "&str"]
            if ks:
                out[ks[0]] = nosite(deep_strip(tm.operand(c.args[2], c.bb)))
    return out


def chain_methods(t):
    out = []
    for s in subterms(t):
        if s[0] == "call":
            out.append(re.sub(r"\{.*\}$", "", s[1]).split("::")[-1])
    return out


def unmut_all(t):
    return rewrite(t, lambda x: unmut(x) if x[0] == "mut" else None)


def R4_input_plugins(ctx):
    F = ctx.F
    b = F.need(APP + "apply_input_plugins")
    tm = Terms(b)
    loops = b.natural_loops()
    ok = len(loops) == 1
    if ok:
        rows = iteration_table(b, loops[0][0])
        backs = [r for r in rows if r.kind == "back"]
        ok = len(backs) >= 1
        for r in backs:
            ops = [v for _, v in r.calls if v[0] == "call" and v[1] == IN + "json_array_op"]
            ok = ok and len(ops) == 1
        for r in rows:
            if r.kind == "return":
                rv = nosite(deep_strip(r.ret))
                exhausted = any(l_ == "None" for d_, l_, _ in r.conds if d_[0] == "discr")
                if exhausted and result_variant(rv) == "Ok":
                    ok = ok and contains(rv, lambda s: s[0] == "call" and s[1] == IN + "json_array_flatten")
    nx = [c for c in b.calls() if c.func.get("method") == "next"]
    ok = ok and len(nx) == 1 and contains(tm.operand(nx[0].args[0], nx[0].bb), lambda s: s == ("arg", 2))
    ctx.check(ok, "apply_input_plugins:every-plugin-once-then-flatten", "the query is not passed through every plugin once (json_array_op) and finally json_array_flatten", b.where(), detail="for plugin in plugins: json_array_op(state, plugin); json_array_flatten(state)")
    init = [s for s in subterms(nosite(deep_strip(tm.operand(nx[0].args[0], nx[0].bb)))) if False]
    # json_array_flatten: each element -> one push (object) or an error
    fb = F.need(IN + "json_array_flatten")
    loops = fb.natural_loops()
    okf = len(loops) == 1
    if okf:
        rows = iteration_table(fb, loops[0][0])
        backs = [r for r in rows if r.kind == "back"]
        kinds = set()
        for r in backs:
            pushes = [v for _, v in r.calls if v[0] == "call" and v[1] == "std::vec::Vec::<T, A>::push"]
            elem = [v for _, v in r.calls if v[0] == "call" and itm(v[1], "next")]
            sel = [l for d, l, _ in r.conds if d[0] == "discr" and elem and contains(d[1], lambda s: s == elem[0])]
            is_obj = "Object" in sel
            if is_obj:
                kinds.add("object")
                okf = okf and len(pushes) == 1 and contains(pushes[0][2][1], lambda s: s[0] == "variant" and s[2] == "Object" or s[0] == "field" and s[1][0] == "variant" and s[1][2] == "Object")
            else:
                kinds.add("other")
                # the element must be remembered as the error: some carried local changes to Some(elem)
                changed = [l for l, v in r.env.items() if nosite(deep_strip(v)) != ("carried", l) and result_variant(nosite(deep_strip(v))) == "Some"]
                okf = okf and not pushes and len(changed) >= 1
        okf = okf and kinds == {"object", "other"}
        errl = None
        for r in rows:
            if r.kind == "return":
                rv = nosite(deep_strip(r.ret))
                if result_variant(rv) == "Ok":
                    okf = okf and any(l_ == "None" for d_, l_, _ in r.conds if d_[0] == "discr" and d_[1][0] in ("carried", "phi", "agg") or d_[0] == "discr")
    ctx.check(okf, "json_array_flatten:object->kept, other->error", "an element of the plugin state is neither kept (JSON object, pushed once) nor turned into an error (anything else): a malformed query would vanish", fb.where(), detail="Object => push; other => error = Some(other)")
    # json_array_op: known weakness — the first failing sub-query ends the loop
    ob = F.need(IN + "json_array_op")
    # the semantic reading shared with C17.R2 (loop with `?`, explicit return, or try_for_each): op on every sub-query, a
    # failure packaged with the sub-query it belongs to
    import importlib
    c17 = importlib.import_module("props.C17")

    class _Sh:
        def __init__(self):
            self.F = F
            self.res = {}

        def check(self, ok, inst, msg, where=None, detail=None, rule=None):
            self.res[inst] = (bool(ok), msg)
            return ok

    sh = _Sh()
    c17._json_array_op(sh, F)
    r1 = sh.res.get("op-on-every-query", (False, "not evaluated"))
    r2 = sh.res.get("failure=>packaged-with-its-query", (False, "not evaluated"))
    ctx.check(r1[0], "json_array_op:op-applied-to-every-sub-query", "the plugin operation is not applied once to every sub-query: %s" % r1[1][:160], ob.where(), detail="for q in queries: op(q)")
    ctx.check(r2[0], "json_array_op:sub-query-error-carries-that-sub-query", "an error exit does not package the failing sub-query", ob.where(), detail="package_error(q, e)")
    if True:
        # does the first failing sub-query end the pass over its siblings?
        loops = ob.natural_loops()
        otm = Terms(ob)
        if loops:
            rows = iteration_table(ob, loops[0][0])
            early = [r for r in rows if r.kind == "return" and not any(l_ == "None" for d_, l_, _ in r.conds if d_[0] == "discr")]
        else:
            # try_for_each stops at the first Err by definition
            early = [c for c in ob.calls() if c.callee and (itm(c.callee, "try_for_each") or itm(c.callee, "try_fold"))]
        ctx.check(not early, "apply_input_plugins:sub-query-error-aborts-siblings", "json_array_op leaves the loop over the expanded sub-queries at the first failing one (`op(q).map_err(package_error)?`): the siblings that grid search produced from the same user query get no response at all (3 expanded queries, 1 failing => 1 response)", ob.where(), detail="all sub-queries answered")


def _struct_bins_form(F, lbb, ltm, recv):
    t = clean(recv)
    fld = None
    if t[0] == "field" and not str(t[2]).isdigit():
        fld, t = t[2], t[1]
    while t[0] == "at" or (t[0] == "call" and re.search(r"::index_mut$|::index$|::get_mut$", t[1]) and t[2]):
        t = t[1] if t[0] == "at" else t[2][0]
    if fld is None:
        return False
    base, steps = chain_steps(F, t)
    names = [n for n, _ in steps]
    sized = base[0] == "agg" and base[1].endswith("ops::Range") and dict(base[3]).get("start") == ("const", "usize", 0) and clean(dict(base[3]).get("end")) == ("arg", 2) and [n for n in names if n not in ("into_iter", "collect")] == ["map"]
    if not sized:
        return False
    # Ok(bins.into_iter().map(|b| b.<fld>).collect()): every bin's queries, no bin dropped
    rt = clean(ltm.return_term())
    oks_ = [a for a in (rt[1] if rt[0] == "phi" else (rt,)) if result_variant(a) == "Ok"]
    # (an early `Ok(vec![])` for nothing to balance is not a bin vector)
    oks_ = [a for a in oks_ if not (agg_payload(a)[0] == "call" and re.search(r"Vec::<T>::new$|^vec!$", agg_payload(a)[1]) and not agg_payload(a)[2])]
    if len(oks_) != 1:
        return False
    rb, rsteps = chain_steps(F, agg_payload(oks_[0]))
    extra = rsteps[len(steps):] if rsteps[:len(steps)] == steps else None
    if extra is None or clean(rb) != clean(base):
        return False
    emaps = [v for n, v in extra if n == "map"]
    return [n for n, _ in extra if n not in ("into_iter", "iter", "collect", "map")] == [] and emaps == [("field", ("elem",), fld)]


def R5_error_discipline(ctx):
    """C06.R5 what may make run() fail as a whole"""
    F = ctx.F
    ctx.rule("C06.R5", "CompassApp::run returns Err only from the frozen list of batch-level failures (run configuration x3, sink construction, progress bars x2, load-balancing with zero bins, sink I/O of error responses, run_batch_* = sink I/O); per-query failures are values", floor=9)
    b = F.need(APP + "CompassApp::run")
    tm = Terms(b)
    allowed = {
        APP + "get_optional_run_config": "run configuration parse error",
        "routee_compass::app::compass::response::response_output_policy::ResponseOutputPolicy::build": "sink construction",
        "std::result::Result::<T, E>::map_err": "progress bar construction (mapped)",
        OPS + "apply_load_balancing_policy": "no bins (parallelism 0): configuration error; ill-typed weights are not fatal (R4)",
        "routee_compass::app::compass::response::response_sink::ResponseSink::write_response": "sink I/O",
        APP + "run_batch_with_responses": "sink I/O inside the batch",
        APP + "run_batch_without_responses": "sink I/O inside the batch",
    }
    n = 0
    for sbb, dt, names, t in switches(b, tm):
        if dt[0] != "discr":
            continue
        inner = dt[1]
        if not (inner[0] == "call" and inner[1].endswith("::branch")):
            continue
        src = inner[2][0]
        while src[0] == "call" and src[1] not in allowed and len(src[2]) >= 1 and re.search(r"Result::<T, E>::(map_err|map)$|Option::<T>::(ok_or|ok_or_else)$", src[1]):
            src = src[2][0]
        key = src[1] if src[0] == "call" else short(src)[:60]
        n += 1
        if src[0] == "call" and (itm(key, "try_for_each") or itm(key, "try_fold")) and src[2][-1][0] == "closure" and src[2][-1][1] in F.bodies:
            # the errors of `it.try_for_each(|x| f(x))?` are those of the closure: every fallible source in it must be on the list
            cb = F.bodies[src[2][-1][1]]
            with no_inline():
                inner_calls = [c for c in cb.calls() if c.callee and (cb.locals[c.dest["l"]]["ty"].startswith("std::result::Result<") if c.dest and not c.dest["p"] else False)]
            fall = sorted({c.callee for c in inner_calls if not re.search(r"Result::<T, E>::(map_err|map)$|Try>::branch$|FromResidual", c.callee)})
            ctx.check(bool(fall) and all(k in allowed for k in fall), "propagates:%s@%d" % (key.split("::")[-1], n), "run() propagates an Err of %s whose closure can fail with %s: a failure that is not on the audited batch-level list aborts the whole batch" % (key.split("::")[-1], [k.split("::")[-1] for k in fall if k not in allowed]), b.where(sbb), detail="closure errors: %s" % [allowed.get(k) for k in fall])
            continue
        if key == "std::result::Result::<T, E>::map_err":
            inner2 = src[2][0]
            okm = inner2[0] == "call" and inner2[1] == "kdam::std::bar::BarBuilder::build"
            ctx.check(okm, "propagates:%s@%d" % ("BarBuilder::build", n), "a mapped error of %s is propagated out of run" % short(inner2)[:80], b.where(sbb), detail=allowed[key])
            continue
        ctx.check(key in allowed, "propagates:%s@%d" % (key.split("::")[-1], n), "run() propagates an Err of %s: a failure that is not on the audited batch-level list aborts the whole batch" % key, b.where(sbb), detail=allowed.get(key))
    ctx.check(n >= 9, "propagation-sites", "expected at least 9 `?` sites in run, found %d" % n, None)
    # run_batch_*: inside the per-batch code the only `?` sources are run_single_query (always Ok), write_response (sink I/O) and
    # new helpers of this tree (whose own `?` sources are checked the same way)
    for fn in ("run_batch_with_responses", "run_batch_without_responses"):
        T = tree_of(F, APP + fn)
        names = {tb.path for tb in T}
        for cb in T:
            if cb.path == APP + fn:
                continue
            ctm = Terms(cb)
            with no_inline():
                ctm = Terms(cb)
                sw = switches(cb, ctm)
            for sbb, dt, names_, t in sw:
                if dt[0] == "discr" and dt[1][0] == "call" and dt[1][1].endswith("::branch"):
                    src = dt[1][2][0]
                    key = src[1] if src[0] == "call" else "?"
                    if src[0] == "phi" and cb.raw.get("inlined"):
                        # the result of a helper written out in place: Ok(..) or an error it propagated itself, whose own
                        # source is judged where it is propagated inside the copy
                        def origin(a_):
                            while a_[0] == "mut":
                                a_ = a_[1]
                            if a_[0] == "agg" and a_[2] == "Ok":
                                return "ok"
                            if a_[0] == "call" and a_[1].endswith("::from_residual"):
                                inner_ = [x for x in subterms(a_[2][0]) if x[0] == "call" and x[1].endswith("::branch")]
                                return "inner" if inner_ else None
                            return None
                        if all(origin(a_) for a_ in src[1]):
                            continue
                    ok = key in (APP + "run_single_query", "routee_compass::app::compass::response::response_sink::ResponseSink::write_response") or key in names or key.startswith("std::iter::") or itm(key, "collect") or "Iterator" in key
                    ctx.check(ok, "%s:propagates:%s" % (fn, key.split("::")[-1]), "the per-query code propagates an Err of %s" % key, cb.where(sbb), detail="run_single_query is always Ok; write_response = sink I/O")


def R6_lock_graph(ctx):
    """C06.R6 interprocedural lock order"""
    F = ctx.F
    ctx.rule("C06.R6", "lock-order graph over every Mutex/RwLock acquisition reachable from CompassApp::run, with edges A -> B when B may be acquired (directly or through any callee, virtual calls resolved to all impls) while a guard of A can be live, is acyclic", floor=2)
    reach = F.reachable_from([APP + "CompassApp::run"])
    LOCK = re.compile(r"std::sync::(Mutex|RwLock)::<T>::(lock|read|write|try_lock|try_read|try_write)$")

    def lock_id(b, c, tm):
        t = unmut(nosite(deep_strip(tm.operand(c.args[0], c.bb))))
        ty = c.args[0].get("ty", "")
        m = re.search(r"(Mutex|RwLock)<(.*)>", ty)
        inner = m.group(2) if m else ty
        return "%s<%s>" % (m.group(1) if m else "Lock", inner.split("<")[0].split("::")[-1] + ("<..>" if "<" in inner else ""))

    direct = defaultdict(set)  # fn -> lock ids acquired in it
    sites = []
    for p in sorted(reach):
        b = F.bodies[p]
        ls = [c for c in b.calls() if c.callee and LOCK.search(c.callee)]
        if not ls:
            continue
        tm = Terms(b)
        for c in ls:
            lid = lock_id(b, c, tm)
            direct[p].add(lid)
            sites.append((p, c, lid))
    # transitive: fn -> lock ids acquired in it or below
    callees = {p: F.callees_of(F.bodies[p]) for p in reach}
    trans = {p: set(direct.get(p, ())) for p in reach}
    changed = True
    while changed:
        changed = False
        for p in reach:
            for q in callees[p]:
                if q in trans and not trans[q] <= trans[p]:
                    trans[p] |= trans[q]
                    changed = True
    edges = set()
    for p, c, lid in sites:
        b = F.bodies[p]
        # guard live region: from the lock to the first drop of a guard-typed local on each path
        drops = set()
        for bb, blk in enumerate(b.blocks):
            t = blk["term"]
            if t["k"] == "drop":
                ty = b.locals[t["place"]["l"]].get("ty", "")
                if "Guard" in ty:
                    drops.add(bb)
        region = set(b.reachable(start=c.bb, removed_blocks=list(drops - {c.bb})))
        for c2 in b.calls():
            if c2 is c or c2.bb not in region or c2.bb == c.bb:
                continue
            if c2.callee and LOCK.search(c2.callee):
                edges.add((lid, lock_id(b, c2, Terms(b))))
                continue
            for q in F.callees_of_site(b, c2) if hasattr(F, "callees_of_site") else ():
                for l2 in trans.get(q, ()):
                    edges.add((lid, l2))
            if not hasattr(F, "callees_of_site"):
                k = c2.callee
                if k in trans:
                    for l2 in trans[k]:
                        edges.add((lid, l2))
    graph = defaultdict(set)
    for x, y in edges:
        graph[x].add(y)
    cyc = []

    def dfs(n, stack):
        if n in stack:
            cyc.append(stack[stack.index(n):] + [n])
            return
        for m in graph.get(n, ()):
            if len(stack) < 20:
                dfs(m, stack + [n])

    for n in list(graph):
        dfs(n, [])
    self_edges = [e for e in edges if e[0] == e[1]]
    ctx.check(len(sites) >= 5, "lock-sites", "expected at least 5 lock sites reachable from run, found %d" % len(sites), None, detail="%d sites: %s" % (len(sites), sorted({l for _, _, l in sites})))
    real_cyc = [c for c in cyc if len(set(c)) > 1]
    ctx.check(not real_cyc, "acyclic", "lock-order cycle: %s" % (real_cyc[:1]), None, detail="edges %s" % sorted(edges))
    for a, b_ in self_edges:
        ctx.bad("reentrant:%s" % a, "a lock of kind %s may be acquired while a guard of the same kind is live (self-deadlock if it is the same mutex)" % a, None)


def R7_flatten_conserves(ctx):
    """one response per query *after expansion*: between two input plugins the working array is flattened (json_array_flatten_in_place)
    and every sub-query — nested or plain — must survive that step exactly once, in order (shared with C17.R2; round 6: a
    filter_map(as_array_mut).flatten() that dropped the plain entries of a mixed array)"""
    from props.C17 import R2_flatten
    R2_flatten(ctx)


def R8_expansion_intact(ctx):
    """C06.R8 "one response for every query after expansion": what the input stage hands to the search stage for one user query is
    the whole flattened result of the plugins — apply_input_plugins returns json_array_flatten(..) as it is"""
    F = ctx.F
    ctx.rule("C06.R8", "apply_input_plugins: the Ok value is the vector json_array_flatten returned, never shortened, filtered or re-ordered afterwards (no truncate / drain / retain / dedup / pop / remove / split_off / sort on it, no truncating adaptor): a cap on the number of expanded queries silently drops the remaining combinations of a grid search", floor=1)
    b = F.need(APP + "apply_input_plugins")
    tm = Terms(b)
    rt = tm.return_term()
    alts = list(rt[1]) if rt[0] == "phi" else [rt]
    is_flat = lambda x: x[0] == "call" and x[1].split("{")[0].endswith("input_plugin_ops::json_array_flatten")
    # (the fallible call may also be returned as it is: `in_ops::json_array_flatten(&mut plugin_state)` without `?` and `Ok(..)`)
    oks = [a for a in alts if (a[0] == "agg" and a[2] == "Ok") or is_flat(a)]
    okv = len(oks) >= 1
    why = "no Ok value"
    for a in oks:
        v = a if is_flat(a) else dict(a[3])["0"]
        while v[0] in ("field", "variant") or (v[0] == "call" and ("Try>::branch" in v[1] or "Try::branch" in v[1])):
            v = v[1] if v[0] != "call" else v[2][0]
        if v[0] == "mut":
            muts = [short(x)[:60] for x in (v[2] if len(v) > 2 else ())]
            okv = False
            why = "the flattened vector is modified after flattening: %s" % "; ".join(muts)[:160]
            continue
        if not (v[0] == "call" and v[1].split("{")[0].endswith("input_plugin_ops::json_array_flatten")):
            okv = False
            why = "the Ok value is %s" % short(v)[:120]
    ctx.check(okv, "apply_input_plugins:returns-the-flattened-result", "apply_input_plugins does not return json_array_flatten(..) unchanged (%s)" % why, b.where(), detail="Ok(json_array_flatten(&mut plugin_state)?)")


RULES = [R1_inventory, R2_cell_influence, R3_per_query, R4_conservation, R5_error_discipline, R6_lock_graph, R7_flatten_conserves, R8_expansion_intact]
