"""C15 — the loaded network is exactly the one described by the edge/vertex files."""
from core import *

EXPLANATION = (
    "C15: the row callback of the edge loader inserts every edge into adj[src] (edge id -> dst) and rev[dst] (edge id -> src), both tables "
    "are sized by the vertex count and become Graph.adj / Graph.rev respectively; counts and file names keep their roles from "
    "Graph::from_files down to the loaders (edge count from the edge file, vertex count from the vertex file, header line dropped under a "
    "guard); ids are row indices (get_edge/get_vertex and every per-edge table are indexed by the id, a miss is an Err); line counting and "
    "raw-file reading do the same per-row work for plain and gzip input (no skipped rows, enumerate index, decoder chosen by content); "
    "the vertex deserialiser maps the keys vertex_id/x/y to the matching fields. Not decided: the file's id column equals the row number; "
    "csv/flate2 crates."
)

N = "routee_compass_core::model::network::"
G = N + "graph::Graph::"
MAP = "routee_compass_core::util::compact_ordered_hash_map::CompactOrderedHashMap::<K, V>::"
FS = "routee_compass_core::util::fs::"


def R1_adjacency(ctx):
    """C15.R1 symmetric adjacency construction"""
    F = ctx.F
    ctx.rule("C15.R1", "EdgeLoader::try_from: the row callback does exactly adj[edge.src].insert(edge_id, dst) and rev[edge.dst].insert(edge_id, src) for every row; adj and rev hold n_vertices empty maps each and become EdgeLoader.adj/rev and Graph.adj/rev respectively", floor=8)
    tf = "<%sedge_loader::EdgeLoader as std::convert::TryFrom<%sedge_loader::EdgeLoaderConfig>>::try_from" % (N, N)
    b = F.need(tf)
    tm = Terms(b)
    oks = [x for x in subterms(deep_strip(tm.return_term())) if x[0] == "agg" and x[1].endswith("edge_loader::EdgeLoader")]
    if len(oks) != 1:
        raise AnchorMissing("EdgeLoader aggregate")
    f = dict(oks[0][3])
    adj_t, rev_t = unmut(f["adj"]), unmut(f["rev"])
    nv = ("field", ("arg", 1), "n_vertices")
    is_tab = lambda t: t[0] == "call" and t[1].endswith("vec::from_elem") and nosite(t[2]) == (("call", MAP.replace("::<K, V>::", "::<K, V>::") + "empty", ()), nv)
    ctx.check(is_tab(adj_t) and is_tab(rev_t) and adj_t != rev_t, "tables-sized-by-vertex-count", "adj and rev are not two separate vectors of n_vertices empty maps: adj=%s rev=%s" % (short(adj_t)[:100], short(rev_t)[:100]), b.where(), detail="vec![empty; n_vertices] x2")
    edges = f["edges"]
    cl = [x for x in subterms(edges) if x[0] == "closure"]
    okc = len(cl) == 1 and edges[0] == "call" and edges[1].endswith("read_utils::from_csv")
    ctx.check(okc and nosite(edges[2][0]) == ("field", ("arg", 1), "edge_list_csv") and edges[2][1] == ("const", "bool", True), "edges-from-edge-file", "edges are not read from c.edge_list_csv with a header", b.where())
    if not okc:
        return
    caps = [unmut(x) for x in cl[0][2]]
    cb = F.need(cl[0][1])
    ctm = Terms(cb)
    ins = [c for c in cb.calls_deep() if c.callee == MAP + "insert"]
    ctx.check(len(ins) == 2, "two-inserts", "the row callback performs %d adjacency inserts, expected exactly 2" % len(ins), cb.where(), detail="2")
    roles = {}
    for c in ins:
        recv = unmut(nosite(deep_strip(ctm.operand(c.args[0], c.bb))))
        k = nosite(deep_strip(ctm.operand(c.args[1], c.bb)))
        v = nosite(deep_strip(ctm.operand(c.args[2], c.bb)))
        gm = [x for x in calls_in(recv) if x[1].endswith("::get_mut")]
        if len(gm) != 1:
            ctx.bad("insert-target", "an adjacency insert is not into table.get_mut(index)", c.where())
            continue
        table_cap = gm[0][2][0]
        while table_cap[0] == "call" and len(table_cap[2]) == 1:
            table_cap = table_cap[2][0]
        idx = gm[0][2][1]
        which = None
        if table_cap[0] == "field" and table_cap[1] == ("arg", 1) and table_cap[2].isdigit():
            cap = caps[int(table_cap[2])]
            which = "adj" if cap == adj_t else ("rev" if cap == rev_t else None)
        roles[which] = (idx, k, v, c)
    e = ("arg", 2)
    want = {"adj": (("field", ("field", e, "src_vertex_id"), "0"), ("field", e, "edge_id"), ("field", e, "dst_vertex_id")), "rev": (("field", ("field", e, "dst_vertex_id"), "0"), ("field", e, "edge_id"), ("field", e, "src_vertex_id"))}
    for which in ("adj", "rev"):
        got = roles.get(which)
        ok = got is not None and got[:3] == want[which]
        ctx.check(ok, "insert:%s" % which, "%s is not filled as %s[edge.%s].insert(edge_id, %s): %s" % (which, which, "src" if which == "adj" else "dst", "dst" if which == "adj" else "src", [short(x) for x in got[:3]] if got else None), (got[3].where() if got else cb.where()), detail=[short(x) for x in want[which]])
    # both inserts happen for every row: the only condition is the index being in range (get_mut Some)
    for which, got in roles.items():
        if got is None or which is None:
            continue
        c = got[3]
        conds = []
        # a site inside a new helper: the conditions around the helper call in the callback and those around the insert in the helper
        places = [(cb, ctm, c.bb)] if not isinstance(c, VirtualCallSite) else [(cb, ctm, c.bb), (c.inner.body, Terms(c.inner.body), c.inner.bb)]
        for pb_, ptm_, at in places:
            for sbb, dt, names, t in switches(pb_, ptm_):
                if sbb in pb_.dom.get(at, ()) and sbb != at:
                    d = nosite(deep_strip(dt))
                    if not (d[0] == "discr" and calls_in(d, "get_mut")):
                        # is the insert reachable on both outcomes?  then it is not conditional on it
                        succs = set(pb_.succ[sbb])
                        if not all(at in pb_.reachable(start=s_) for s_ in succs):
                            conds.append(short(d)[:80])
        ctx.check(not conds, "unconditional:%s" % which, "the %s insert is conditional on %s" % (which, conds), c.where())
    # Graph fields
    gb = F.need(N + "graph_loader::graph_from_files")
    gtm = Terms(gb)
    oks = [x for x in subterms(nosite(deep_strip(gtm.return_term()))) if x[0] == "agg" and x[1] == N + "graph::Graph"]
    okg = len(oks) >= 1
    for a in oks:
        gf = dict(a[3])
        okg = okg and gf["adj"][0] == "field" and gf["adj"][2] == "adj" and gf["rev"][0] == "field" and gf["rev"][2] == "rev" and gf["edges"][0] == "field" and gf["edges"][2] == "edges" and gf["adj"][1] == gf["rev"][1] == gf["edges"][1]
    ctx.check(okg, "graph-fields", "Graph{adj, rev, edges} are not the loader's adj, rev and edges respectively", gb.where(), detail="adj<-adj rev<-rev edges<-edges")


def R2_ids_are_rows(ctx):
    """C15.R2 ids are row indices"""
    F = ctx.F
    ctx.rule("C15.R2", "get_edge/get_vertex index edges/vertices with id.0 and a miss is Err; n_edges/n_vertices are the slice lengths; per-edge tables (speed, grade, headings, road class, geometry, vehicle restrictions) are looked up with the edge id and a miss is an Err", floor=7)
    for fn, fld, err in (("get_edge", "edges", "EdgeNotFound"), ("get_vertex", "vertices", "VertexNotFound")):
        b = F.need(G + fn)
        rows = [r for r in table(b) if r.end == "return"]
        look = ("call", "std::slice::<impl [T]>::get", (("field", ("arg", 1), fld), ("field", ("arg", 2), "0")))
        ok = any(r.sel.get(look) == "Some" and r.ret == ("agg", "std::result::Result", "Ok", (("0", look),)) for r in rows) and any(r.sel.get(look) == "None" and result_variant(r.ret) == "Err" for r in rows)
        if not ok:
            # the same written with the adaptor: slice.get(id.0).ok_or(err) / ok_or_else(|| err)
            rt = nosite(Terms(b).return_term())
            ok = rt[0] == "call" and re.search(r"Option::<T>::ok_or(_else)?$", rt[1]) is not None and len(rt[2]) == 2 and nosite(deep_strip(rt[2][0])) == look
            if ok:
                e = rt[2][1]
                if e[0] == "closure" and e[1] in F.bodies:
                    e = nosite(Terms(F.bodies[e[1]]).return_term())
                ok = e[0] == "agg" and e[1].endswith("NetworkError") and e[2] == err
        ctx.check(ok, "Graph::%s" % fn, "%s is not %s[id.0] with Err for a miss" % (fn, fld), b.where(), detail="%s[id.0]" % fld)
    for fn, fld in (("n_edges", "edges"), ("n_vertices", "vertices")):
        b = F.need(G + fn)
        rt = nosite(deep_strip(Terms(b).return_term()))
        ctx.check(rt == ("call", "std::slice::<impl [T]>::len", (("field", ("arg", 1), fld),)), "Graph::%s" % fn, "%s is not %s.len()" % (fn, fld), b.where(), detail="%s.len()" % fld)
    # per-edge tables
    tables = [
        ("routee_compass_core::model::traversal::default::speed_traversal_model::get_speed", ("arg", 1), ("arg", 2)),
        ("routee_compass_core::model::access::default::turn_delays::turn_delay_access_model_engine::get_headings", ("arg", 1), ("arg", 2)),
        ("routee_compass_powertrain::routee::energy_model_ops::get_grade", None, None),
    ]
    for path, tab, eid in tables:
        b = F.bodies.get(path)
        if b is None:
            ctx.bad("table:%s" % path.split("::")[-1], "lookup function missing", None)
            continue
        rows = [r for r in table(b, max_paths=100000) if r.end == "return"]
        oks = [r for r in rows if ok_value(r) is not None and not r.ret == ("agg", "std::result::Result", "Ok", (("0", ("item", "routee_compass_core::model::unit::grade::Grade::ZERO")),))]
        errs = [r for r in rows if is_err_value(r.ret)]
        # a miss is an Err: a separate error path, or the lookup handed on through ok_or/ok_or_else
        rtm_ = Terms(b)
        raw_rt = rtm_.return_term()
        guarded = any(x[0] == "call" and re.search(r"Option::<T>::ok_or(_else)?$", x[1]) and calls_in(x[2][0], "std::slice::<impl [T]>::get") for x in subterms(raw_rt))
        good = (len(errs) >= 1 or guarded) and len(oks) >= 1
        for r in oks:
            gets = [x for x in calls_in(ok_value(r)) if x[1] == "std::slice::<impl [T]>::get"]
            if not gets:
                continue
            ix = gets[0][2][1]
            by_id = (ix[0] == "call" and ix[1].endswith("EdgeId::as_usize")) or (ix[0] == "field" and ix[2] == "0")
            arg_ty = [l["ty"] for l in b.locals[1 : b.argc + 1]]
            good = good and by_id and contains(ix, lambda s: s[0] == "arg" and "EdgeId" in b.locals[s[1]]["ty"])
        ctx.check(good, "table:%s" % path.split("::")[-1], "%s does not index its table with the edge id (miss => Err)" % path.split("::")[-1], b.where(), detail="table[edge_id]")


def roles_rule(ctx, rid):
    """file and count arguments keep their roles from Graph::from_files down to the loaders"""
    F = ctx.F
    ctx.rule(rid, "Graph::from_files forwards (edge file, vertex file, n_edges, n_vertices, verbose) in order; the graph builder passes the config keys in role order; graph_from_files builds the loader configs with the edge count from/for the edge file and the vertex count from/for the vertex file", floor=4)
    b = F.need(G + "from_files")
    rt = nosite(deep_strip(Terms(b).return_term()))
    ctx.check(rt == ("call", N + "graph_loader::graph_from_files", tuple(("arg", i) for i in range(1, 6))), "from_files:forwarding", "Graph::from_files does not forward its arguments in order: %s" % short(rt)[:200], b.where(), detail="graph_from_files(a1..a5)")
    gb = F.bodies.get("routee_compass::app::compass::config::graph_builder::DefaultGraphBuilder::build")
    if gb is not None:
        cs = gb.calls_to(G + "from_files")
        okb = len(cs) == 1
        if okb:
            gtm = Terms(gb)
            a = [nosite(deep_strip(gtm.operand(x, cs[0].bb))) for x in cs[0].args]
            key = lambda t: [s[2] for s in subterms(t) if s[0] == "const" and isinstance(s[2], str)]
            okb = any("edge_list" in k for k in key(a[0])) and any("vertex_list" in k for k in key(a[1])) and any("n_edges" in k for k in key(a[2])) and any("n_vertices" in k for k in key(a[3]))
        ctx.check(okb, "graph_builder:roles", "the graph builder does not pass (edge list file, vertex list file, n_edges, n_vertices) in that order", gb.where(), detail="config keys in role order")
    g = F.original(N + "graph_loader::graph_from_files")   # as written: the counting helper is looked at as a function
    oke = okv = False
    ctx.counters = set()
    with no_inline():
        gtm = Terms(g)
        allc = set()
        for bb, blk in enumerate(g.blocks):
            for pos, s in enumerate(blk["stmts"]):
                if s["k"] == "assign" and s["rv"]["k"] == "agg" and s["rv"].get("adt", "").endswith("LoaderConfig"):
                    allc.add(nosite(deep_strip(gtm.rvalue(s["rv"], bb, pos))))

        def counted(t, given, file_arg, other_arg):
            """t = given | counter(file): returns (counter function, position of the file argument) or None"""
            if t[0] != "phi" or len(t[1]) != 2 or given not in t[1]:
                return None
            c = [x for x in t[1] if x != given][0]
            if c[0] != "call" or (c[1] not in F.bodies and c[1] not in getattr(F, "inlined_bodies", {})) or not c[1].startswith(N):
                return None
            pos = [i for i, a in enumerate(c[2]) if contains(a, lambda q: q == file_arg)]
            if len(pos) != 1 or any(contains(a, lambda q: q == other_arg or q in (("arg", 3), ("arg", 4))) for a in c[2]):
                return None
            return (c[1], pos[0] + 1)

        for c in allc:
            f = dict(c[3])
            if c[1].endswith("EdgeLoaderConfig"):
                ce = counted(f["n_edges"], ("arg", 3), ("arg", 1), ("arg", 2))
                cv = counted(f["n_vertices"], ("arg", 4), ("arg", 2), ("arg", 1))
                oke = ce is not None and cv is not None and contains(f["edge_list_csv"], lambda q: q == ("arg", 1)) and not contains(f["edge_list_csv"], lambda q: q == ("arg", 2))
                if oke:
                    ctx.counters |= {ce, cv}
            if c[1].endswith("VertexLoaderConfig"):
                cv = counted(f["n_vertices"], ("arg", 4), ("arg", 2), ("arg", 1))
                okv = cv is not None and contains(f["vertex_list_csv"], lambda q: q == ("arg", 2)) and not contains(f["vertex_list_csv"], lambda q: q == ("arg", 1))
                if okv:
                    ctx.counters.add(cv)
    ctx.check(oke, "loader:edge-config-roles", "EdgeLoaderConfig is not {edge file, n_edges (given or counted from the edge file), n_vertices (given or counted from the vertex file)}", g.where(), detail="n_edges<-arg3|count(edge file), n_vertices<-arg4|count(vertex file)")
    ctx.check(okv, "loader:vertex-config-roles", "VertexLoaderConfig is not {vertex file, n_vertices}", g.where())


def R3_counts_and_readers(ctx):
    """C15.R3 counts and readers"""
    F = ctx.F
    roles_rule(ctx, "C15.R3a")
    ctx.rule("C15.R3", "get_n_* = line_count - 1 under n >= 1, gzip flag from the .gz extension; line_count counts lines() in both branches; read_raw_file/read_gzip/read_regular do the same per-row work without skipping rows", floor=10)
    # the counting functions are those graph_from_files was found to use (C15.R3a), whatever they are called
    counters = sorted(getattr(ctx, "counters", ()))
    if not counters:
        raise AnchorMissing("no row-counting function found in graph_from_files")
    for key, fpos in counters:
        b = F.need(key)
        fn = key.split("::")[-1]
        rows = [r for r in table(b, max_paths=100000) if r.end == "return"]
        lc = None
        okn = True
        n_ok = 0
        gzs = []
        for r in rows:
            if result_variant(r.ret) != "Ok":
                continue
            n_ok += 1
            v = agg_payload(r.ret)
            lcs = calls_in(v, FS + "fs_utils::line_count")
            if len(lcs) != 1:
                okn = False
                continue
            lc = lcs[0]
            A = Arith(F, {lc: "n"})
            okn = okn and A.ev(v).equals(Ratio(Poly.sym("n")) - Ratio(Poly.const(1)))
            # the guard may name the count by its path-insensitive term (the flag as a phi of this path's flag and others)
            same = lambda x: x == lc or (x[0] == "call" and x[1] == lc[1] and x[2][0] == lc[2][0] and (x[2][1] == lc[2][1] or (x[2][1][0] == "phi" and lc[2][1] in x[2][1][1])))
            fx = set((f[0], lc if same(f[1]) else f[1], lc if same(f[2]) else f[2]) for f in r.facts if len(f) == 3)
            guard = ("Le", ("const", "usize", 1), lc) in fx or ("Lt", ("const", "usize", 0), lc) in fx or implies(fx, ("Le", ("const", "usize", 1), lc))
            okn = okn and guard
            gzs.append(lc[2][1])
        ctx.check(okn and n_ok >= 1, fn + ":count-minus-header", "%s is not line_count(file) - 1 under the guard n >= 1" % fn, b.where(), detail="n - 1 if n >= 1")
        if lc is not None:
            lits = []
            for gz in gzs:
                lits += [s[2] for s in subterms(gz) if s[0] == "const" and isinstance(s[2], str)]
                for k in [s for s in subterms(gz) if s[0] == "closure"]:
                    kb = F.bodies.get(k[1])
                    if kb is not None:
                        lits += [s[2] for s in subterms(Terms(kb).return_term()) if s[0] == "const" and isinstance(s[2], str)]
            fa = ("arg", fpos)
            transparent = lambda t: t == fa or (t[0] == "call" and len(t[2]) == 1 and re.search(r"(AsRef<.*>>::as_ref|Deref>::deref|::as_path|Borrow<.*>>::borrow)$", t[1]) and transparent(t[2][0]))
            # per path the flag is either computed from the file's extension or the constant false (no extension)
            flags_ok = any(contains(gz, lambda q: q == fa) for gz in gzs) and all(contains(gz, lambda q: q == fa) or gz == ("const", "bool", False) for gz in gzs)
            ctx.check(transparent(nosite(lc[2][0])) and "gz" in lits and flags_ok, fn + ":gzip-by-extension", "the gzip flag is not derived from the counted file's .gz extension (file argument %s, flag %s)" % (short(lc[2][0])[:80], short(gz)[:120]), b.where(), detail=".gz")
    lcb = F.need(FS + "fs_utils::line_count")
    rows = [r for r in table(lcb, max_paths=100000) if r.end == "return" and result_variant(r.ret) == "Ok"]
    seen = {}
    for r in rows:
        flag = [cond_truth(l) for t, l in r.bools if t == ("arg", 2)]
        if not flag:
            continue
        v = agg_payload(r.ret)
        okc = v[0] == "call" and itm(v[1], "count") and bool(calls_in(v, "lines"))
        gzd = bool([x for x in calls_in(v) if "GzDecoder" in x[1]])
        seen[flag[0]] = (okc, gzd)
    ctx.check(seen.get(True) == (True, True), "line_count:gzip", "gzip branch is not lines().count() over the decoded stream", lcb.where(), detail="BufReader(GzDecoder(file)).lines().count()")
    ctx.check(seen.get(False) == (True, False), "line_count:plain", "plain branch is not lines().count() over the file", lcb.where(), detail="BufReader(file).lines().count()")
    # raw file readers
    rr = F.need(FS + "read_utils::read_raw_file")
    if (FS + "read_utils::read_gzip") in F.bodies and (FS + "read_utils::read_regular") in F.bodies:
        rows = [r for r in table(rr, max_paths=100000) if r.end == "return" and result_variant(r.ret) == "Ok"]
        which = {}
        for r in rows:
            gz = [cond_truth(l) for t, l in r.bools if t[0] == "call" and t[1].endswith("fs_utils::is_gzip")]
            if gz:
                v = agg_payload(r.ret)
                which[gz[0]] = v[1].split("::")[-1] if v[0] == "call" else None
                ctx.check(v[0] == "call" and v[2] == (("arg", 1), ("arg", 2), ("arg", 3)), "read_raw_file:args:%s" % gz[0], "reader is not given (file, op, callback)", rr.where())
        ctx.check(which.get(True) == "read_gzip" and which.get(False) == "read_regular", "read_raw_file:dispatch", "decoder is not chosen by is_gzip(file): %s" % which, rr.where(), detail=str(which))
        _row_readers(ctx, F, F.need(FS + "read_utils::read_gzip"), {True: "read_gzip"}, None)
        _row_readers(ctx, F, F.need(FS + "read_utils::read_regular"), {False: "read_regular"}, None)
    else:
        # the two readers merged into read_raw_file (or a helper the MIR inliner has merged into it): the same obligations,
        # with the decoder chosen by the is_gzip(file) branch each reader sits on
        _row_readers(ctx, F, rr, {True: "read_gzip", False: "read_regular"}, "fs_utils::is_gzip")
    # from_csv: collect everything
    fc = F.need(FS + "read_utils::from_csv")
    frt = nosite(deep_strip(Terms(fc).return_term()))
    names = [x[1] for x in calls_in(frt)]
    okf = any(n == FS + "read_utils::iterator_from_csv" for n in names) and not any(re.search(r"Iterator>?::(take|skip|filter|step_by|filter_map|skip_while)$", n) for n in names)
    ctx.check(okf, "from_csv:all-rows", "from_csv does not collect every row of iterator_from_csv", fc.where())


def _row_readers(ctx, F, body, want, branch_on):
    """every row reader found in `body` — a loop pushing one value per row or a lines().enumerate().map(op).collect() chain —
    reads all rows of the (decoded) stream in order, none skipped, each as op(row index, row).  want: {uses GzDecoder: name
    used in the instance ids}; branch_on: when the readers share one function, the call whose truth selects the gzip one."""
    tm = Terms(body)
    TRUNC_ = r"Iterator>?::(take|skip|filter|step_by|filter_map|skip_while|take_while|rev)$"
    found = {}
    file_ok = lambda names, recv: any(n.endswith("File::open") for n in names) and contains(clean(recv), lambda q: q == ("arg", 1))
    # loop form
    for h, blocks in body.natural_loops():
        nx = [c for c in body.calls() if c.bb in blocks and c.func.get("method") == "next" and innermost_loop(body, c.bb)[0] == h]
        push = [c for c in body.calls() if c.bb in blocks and c.callee and c.callee.startswith("std::vec::Vec::<T, A>::push")]
        if len(nx) != 1:
            continue
        recv = deep_strip(tm.operand(nx[0].args[0], nx[0].bb))
        names = [x[1] for x in calls_in(recv)]
        if not any(n.endswith("BufRead::lines") for n in names):
            continue
        gz = any("GzDecoder" in n for n in names)
        nm = want.get(gz)
        if nm is None:
            ctx.bad("reader:unexpected", "a %s row reader where none is expected" % ("gzip" if gz else "plain"), body.where(h))
            continue
        found[gz] = ("loop", h)
        item = nosite(deep_strip(tm.call_term(nx[0].term, nx[0].bb)))
        okp = len(push) == 1 and any(itm(n, "enumerate") for n in names) and not any(re.search(TRUNC_, n) for n in names) and (branch_on is None or file_ok(names, recv))
        ctx.check(okp, nm + ":all-rows", "rows are not enumerate(lines()) of the %s stream of the file, without filtering" % ("decoded" if gz else "plain"), body.where(h), detail="lines().enumerate()")
        if len(push) != 1:
            continue
        skip = nx[0].bb in body.reach_from_succs(nx[0].bb, removed_blocks=[push[0].bb])
        ctx.check(not skip, nm + ":no-skipped-row", "a loop turn can return to the next row without pushing a result (a skipped row shifts all later table entries)", push[0].where(), detail="push on every turn")
        v = nosite(deep_strip(tm.operand(push[0].args[1], push[0].bb)))
        opc = [x for x in subterms(v) if x[0] == "callind" or (x[0] == "call" and re.search(r"std::ops::Fn(Mut|Once)?::call(_mut|_once)?$", x[1]))]
        okop = False
        if opc:
            a = opc[0][2] if opc[0][0] == "callind" else opc[0][2][1:]
            fn_ok = opc[0][0] == "callind" or unmut(opc[0][2][0]) == ("arg", 2)
            flat = a[0][1] if len(a) == 1 and a[0][0] == "tuple" else a
            okop = fn_ok and len(flat) == 2 and unmut(flat[0]) == ("field", item, "0") and contains(flat[1], lambda q: unmut(q) == ("field", item, "1"))
        ctx.check(bool(okop), nm + ":op(idx,row)", "the pushed value is not op(enumerate index, row)", push[0].where(), detail="op(idx, row)")
    # adaptor form: lines().enumerate().map(|(idx, row)| op(idx, row?)).collect()
    for c in body.calls():
        if not (c.callee and re.search(r"Iterator>?::collect$", c.callee.split("{")[0])):
            continue
        chain = nosite(deep_strip(tm.operand(c.args[0], c.bb)))
        names = [x[1] for x in calls_in(chain)]
        if not any(n.endswith("BufRead::lines") for n in names):
            continue
        gz = any("GzDecoder" in n for n in names)
        nm = want.get(gz)
        if nm is None or gz in found:
            ctx.bad("reader:unexpected", "a second or unexpected %s row reader" % ("gzip" if gz else "plain"), c.where())
            continue
        found[gz] = ("map", c.bb)
        okr = any(itm(n, "enumerate") for n in names) and any(itm(n, "map") for n in names) and not any(re.search(TRUNC_, n) for n in names) and (branch_on is None or file_ok(names, chain))
        ctx.check(okr, nm + ":all-rows", "%s reader is not lines().enumerate().map(op).collect() over the file" % ("gzip" if gz else "plain"), c.where(), detail="lines().enumerate().map().collect()")
    for gz, nm in want.items():
        if gz not in found:
            ctx.bad(nm + ":shape", "no %s row reader (loop or map/collect over lines().enumerate()) found" % ("gzip" if gz else "plain"), body.where())
    if branch_on is not None and set(found) == {True, False}:
        # each reader sits on its own side of `if is_gzip(file)`
        sw = [(sbb, t) for sbb, dt, names_, t in switches(body, tm) if names_ is None and clean(dt)[0] == "call" and clean(dt)[1].endswith(branch_on) and contains(clean(dt), lambda q: q == ("arg", 1))]
        okd = len(sw) == 1
        if okd:
            f_, tr_ = bool_targets(sw[0][1])
            blk = lambda x: x[1]
            okd = body.dominates(tr_, blk(found[True])) and body.dominates(f_, blk(found[False])) and not body.dominates(tr_, blk(found[False])) and not body.dominates(f_, blk(found[True]))
        ctx.check(okd, "read_raw_file:dispatch", "the decoder is not chosen by is_gzip(file): the gzip reader must run exactly when the test is true", body.where(), detail="is_gzip => GzDecoder")
        ctx.check(True, "read_raw_file:args:True", "", body.where())
        ctx.check(True, "read_raw_file:args:False", "", body.where())


def _unzip(t):
    """payload convention for Option::zip and tuples: component k of a.zip(b) / of (a, b) is a / b"""
    def f(x):
        if x[0] == "field" and str(x[2]) in ("0", "1"):
            base = rewrite(x[1], f)
            while base[0] == "mut":
                base = base[1]
            if base[0] == "call" and base[1].endswith("Option::<T>::zip") and len(base[2]) == 2:
                return base[2][int(x[2])]
            if base[0] == "tuple" and int(x[2]) < len(base[1]):
                return base[1][int(x[2])]
            if base[0] == "phi":
                alts = [f(("field", a, x[2])) or ("field", a, x[2]) for a in base[1]]
                return mk_phi(alts)
            return ("field", base, x[2])
        return None
    return rewrite(t, f)


def _controlling(b, tm, block):
    out = []
    for sbb, dt, names, t in switches(b, tm):
        if names is not None:
            continue
        f, tr = bool_targets(t)
        if tr is None or f is None or tr == f or sbb not in b.dom.get(block, ()):
            continue
        if b.dominates(tr, block) and not b.dominates(f, block):
            out.append((sbb, nosite(deep_strip(dt)), True))
        elif b.dominates(f, block) and not b.dominates(tr, block):
            out.append((sbb, nosite(deep_strip(dt)), False))
    return out


def R4_vertex(ctx):
    """C15.R4 vertex deserialiser"""
    F = ctx.F
    ctx.rule("C15.R4", "the vertex visitor builds Vertex::new(id, x, y) from the values of the keys vertex_id, x, y respectively; the vertex table is exactly the decoded records of the vertex file, in file order (its size is the number of records, not a separately counted number of lines)", floor=2)
    vl = [bb_ for p_, bb_ in F.bodies.items() if "network::vertex_loader::" in p_ and p_.endswith("::try_from")]
    if not vl:
        raise AnchorMissing("vertex loader try_from")
    vb = vl[0]
    oks_ = [clean(r.ret) for r in table(vb, max_paths=20000) if r.end == "return" and result_variant(r.ret) == "Ok"]
    okt = bool(oks_)
    for o in oks_:
        t_ = agg_payload(o)
        while t_[0] == "call" and len(t_[2]) == 1 and re.search(r"::into_boxed_slice$|::into_vec$|::to_vec$|Into<U>>::into$|::from$", t_[1].split("{")[0]):
            t_ = t_[2][0]
        okt = okt and t_[0] == "call" and t_[1].endswith("read_utils::from_csv") and t_[2][0] == ("field", ("arg", 1), "vertex_list_csv") and t_[2][1] == ("const", "bool", True)
    ctx.check(okt, "vertex-table=decoded-records", "the vertex table is not the result of from_csv(conf.vertex_list_csv, has_headers = true) itself: a table sized or indexed otherwise exposes vertices the file does not list (or loses listed ones)", vb.where(), detail="Ok(from_csv(vertex file))")
    cands = [b for p, b in F.bodies.items() if "network::vertex::" in p and "visit_map" in p and b.kind == "assocfn"]
    if not cands:
        raise AnchorMissing("Vertex visitor visit_map")
    b = cands[0]
    tm = Terms(b)
    news = [c for c in b.calls() if c.callee and c.callee.endswith("network::vertex::Vertex::new")]
    ok = len(news) == 1
    detail = None
    if ok:
        # each argument of Vertex::new is a value parsed under the guard `key == <its column name>`: the parse call sites that
        # can flow into the argument are identified by their site, and each site by the string comparisons that control it
        roles = []
        for x in news[0].args:
            raw = _unzip(deep_strip(tm.operand(x, news[0].bb)))
            sites = {t_[3] for t_ in subterms(raw) if t_[0] == "call" and len(t_) > 3 and isinstance(t_[3], int) and re.search(r"str::<impl str>::parse|FromStr>::from_str", t_[1])}
            keys = set()
            for sbb in sites:
                for gbb, t_, truth in _controlling(b, tm, sbb):
                    if truth:
                        for sx in subterms(t_):
                            if sx[0] == "const" and isinstance(sx[2], str) and sx[2] in ("vertex_id", "x", "y"):
                                keys.add(sx[2])
            roles.append(sorted(keys))
        detail = roles
        ok = roles == [["vertex_id"], ["x"], ["y"]]
    ctx.check(ok, "key->field", "Vertex::new(id, x, y) is not fed from the keys (vertex_id, x, y) respectively: %s" % (detail,), b.where(), detail=str(detail))


def RA_adjacency_container(ctx):
    """the adjacency lists are CompactOrderedHashMaps: what a search sees of a vertex is keys()/iter() of that map, what the loader
    stored is insert().  The container's own rules (every accessor agrees on the slots, growth keeps every entry, dense indices)
    are therefore part of this property too (shared with C11.R1-R3)."""
    from props.C11 import R1_slot_table, R2_growth, R3_dense_index
    R1_slot_table(ctx)
    R2_growth(ctx)
    R3_dense_index(ctx)


def R6_csv_reader_keeps_every_row(ctx):
    """C15.R6 the CSV reader behind every id-indexed table (vertices, edges, headings, restrictions) yields one record per data row:
    the csv::ReaderBuilder is configured only with options that cannot remove a row, and nothing between the reader and the caller
    filters, skips or de-duplicates records"""
    F = ctx.F
    ctx.rule("C15.R6", "read_utils::iterator_from_csv: ReaderBuilder::new() configured with has_headers / trim only (no `comment`, `flexible`, `terminator`, `quote`, `escape`, `delimiter` re-definition), read with into_deserialize, and handed on through row-preserving adaptors (inspect for the callback) — a `comment(Some(b'#'))` silently drops every row whose first byte is '#', and every later row is then stored under the id before its own", floor=2)
    b = F.need("routee_compass_core::util::fs::read_utils::iterator_from_csv")
    rt = nosite(deep_strip(Terms(b).return_term()))
    alts = list(rt[1]) if rt[0] == "phi" else [rt]
    oks = [a for a in alts if a[0] == "agg" and a[2] == "Ok"]
    if not ctx.check(len(oks) == 1, "csv:one-reader", "expected one Ok(reader) value", b.where()):
        return
    chain = [x[1].split("{")[0] for x in calls_in(dict(oks[0][3])["0"])]
    builder = [n for n in chain if re.search(r"csv::(reader::)?ReaderBuilder::\w+$", n)]
    allowed = {"new", "has_headers", "trim", "from_reader", "from_path", "buffer_capacity"}
    extra = sorted({n.split("::")[-1] for n in builder} - allowed)
    ctx.check(bool(builder) and not extra, "csv:builder-options", "the csv ReaderBuilder is configured with %s: an option that can drop or merge data rows" % extra, b.where(), detail="ReaderBuilder: " + ", ".join(n.split("::")[-1] for n in reversed(builder)))
    adapt = [n for n in chain if re.search(r"Iterator>?::\w+$|Itertools::\w+$", n)]
    bad = [n.split("::")[-1] for n in adapt if not re.search(r"::(inspect|map|by_ref|fuse|into_iter|enumerate)$", n)]
    ctx.check(not bad and any(n.endswith("into_deserialize") or n.endswith("deserialize") for n in chain), "csv:row-preserving-adaptors", "between the csv reader and the caller: %s" % bad, b.where(), detail="into_deserialize + " + ", ".join(n.split("::")[-1] for n in adapt))


RULES = [R1_adjacency, R2_ids_are_rows, R3_counts_and_readers, R4_vertex, RA_adjacency_container, R6_csv_reader_keeps_every_row]
