"""C07 — edge costs are finite and strictly positive; estimates are non-negative."""
from fractions import Fraction

from core import *
import common

EXPLANATION = (
    "C07: the positivity floor is on every Ok exit of CostModel::traversal_cost/access_cost (total = vehicle part + network part) and the "
    "non-negativity clip on cost_estimate; the helpers do what their names say (<= 0 -> MIN_COST, < 0 -> ZERO) and the constants are sane; "
    "EdgeTraversal values are only constructed by forward/reverse traversal (access + traversal = floored total) and the zero-cost synthetic "
    "terminal edges; the sum-aggregation formula per feature (delta = next - prev of the same slot, rated, times the weight of the same slot), "
    "rate tables, aggregation folds, and rejection of all-zero weights. Not decided: finiteness (NaN/inf are runtime values)."
)

M = "routee_compass_core::model::"
CM = M + "cost::cost_model::CostModel"
OPS = M + "cost::cost_ops::"
COST = M + "unit::cost::Cost"
ET = "routee_compass_core::algorithm::search::edge_traversal::EdgeTraversal"


def self_field(n):
    return ("field", ("arg", 1), n)


def ok_rows(body):
    out = []
    for r in table(body):
        if r.end == "return" and result_variant(r.retn) == "Ok":
            r.ret = r.retn  # `x.map(f)` read as Ok(f(x))
            out.append(r)
    return out


def R1_floor(ctx):
    """C07.R1 the floor is on every exit"""
    F = ctx.F
    ctx.rule("C07.R1", "every Ok value of traversal_cost/access_cost is enforce_strictly_positive(vehicle + network); cost_estimate is enforce_non_negative(vehicle); all three price with the same self fields", floor=9)
    specs = {
        "traversal_cost": ("enforce_strictly_positive", "calculate_network_traversal_costs", 3, 4),
        "access_cost": ("enforce_strictly_positive", "calculate_network_access_costs", 4, 5),
        "cost_estimate": ("enforce_non_negative", None, 2, 3),
    }
    for fn, (floor_fn, net_fn, ip, inx) in specs.items():
        b = F.need(CM + "::" + fn)
        rows = ok_rows(b)
        ctx.check(len(rows) >= 1, fn + ":has-ok", "no Ok return", b.where())
        for r in rows:
            v = agg_payload(r.ret)
            ok = v[0] == "call" and v[1] == COST + "::" + floor_fn and len(v[2]) == 1
            ctx.check(ok, fn + ":floor", "an Ok value is not %s(..): %s" % (floor_fn, short(v)[:200]), b.where(), detail=floor_fn)
            if not ok:
                continue
            veh = ("call", OPS + "calculate_vehicle_costs", (("tuple", (("arg", ip), ("arg", inx))), self_field("feature_indices"), self_field("weights"), self_field("vehicle_rates"), self_field("cost_aggregation")))
            total = v[2][0]
            A = Arith(F)
            A.symbols = {veh: "veh"}
            want = Ratio(Poly.sym("veh"))
            if net_fn:
                nets = [c for c in calls_in(total, OPS + net_fn)]
                okn = len(nets) == 1
                if okn:
                    n = nets[0]
                    # argument roles: states, edge(s), indices, weights, network_rates, aggregation
                    tail = n[2][-4:]
                    okn = tail == (self_field("feature_indices"), self_field("weights"), self_field("network_rates"), self_field("cost_aggregation")) and n[2][0] == ("tuple", (("arg", ip), ("arg", inx)))
                    if fn == "traversal_cost":
                        okn = okn and n[2][1] == ("arg", 2)
                    else:
                        okn = okn and n[2][1] == ("tuple", (("arg", 2), ("arg", 3)))
                    A.symbols[n] = "net"
                    want = want + Ratio(Poly.sym("net"))
                ctx.check(okn, fn + ":network-args", "network part is not %s(states, edge(s), self.feature_indices, self.weights, self.network_rates, self.cost_aggregation)" % net_fn, b.where())
            got = A.ev(total)
            ctx.check(got.equals(want), fn + ":total", "the floored total is %r, expected %r (vehicle part%s)" % (got, want, " + network part" if net_fn else ""), b.where(), detail=repr(got))


def got_symbols(r):
    out = set(r.p.symbols())
    if getattr(r, "q", None) is not None:
        out |= set(r.q.symbols())
    return out


def R2_helpers(ctx):
    """C07.R2 helper semantics and constants"""
    F = ctx.F
    ctx.rule("C07.R2", "enforce_strictly_positive: c <= 0 -> MIN_COST else c; enforce_non_negative: c < 0 -> ZERO else c; 0 < MIN_COST < 1e-6, ZERO = 0, ONE = 1, INFINITY = +inf", floor=8)
    zero = ("item", COST + "::ZERO")
    for fn, fact_true, repl in (("enforce_strictly_positive", ("Le", ("arg", 1), zero), ("item", COST + "::MIN_COST")), ("enforce_non_negative", ("Lt", ("arg", 1), zero), zero)):
        b = F.need(COST + "::" + fn)
        rows = [r for r in table(b) if r.end == "return"]
        neg = canon_fact((fact_true[0], fact_true[1], fact_true[2]), False)
        seen = set()
        for r in rows:
            if fact_true in r.facts or implies(r.facts, fact_true):
                seen.add("low")
                ctx.check(r.ret == repl, fn + ":low", "for c %s 0 the result is %s, expected %s" % ("<=" if fact_true[0] == "Le" else "<", short(r.ret), short(repl)), b.where(), detail=short(r.ret))
            elif neg in r.facts or implies(r.facts, neg):
                seen.add("high")
                ctx.check(r.ret == ("arg", 1), fn + ":high", "a cost above the floor is not returned unchanged: %s" % short(r.ret), b.where(), detail=short(r.ret))
            else:
                ctx.bad(fn + ":guard", "a return path is not decided by the comparison with ZERO (facts: %s)" % [short(("bin",) + f) for f in r.facts], b.where())
        if seen != {"low", "high"}:
            ctx.bad(fn + ":cases", "missing case(s): have %s" % sorted(seen), b.where())
    def cval(name):
        c = F.consts.get(COST + "::" + name)
        if c is None or "as_f64" not in c:
            raise AnchorMissing("const Cost::" + name)
        return c["as_f64"]
    mc = cval("MIN_COST")
    okm = mc not in ("inf", "NaN", "-inf") and Fraction(0) < Fraction(mc) < Fraction(1, 10**6)
    ctx.check(okm, "const:MIN_COST", "MIN_COST = %s is not a tiny positive finite number" % mc, None, detail=mc)
    # The floored total is stored as access + (total - access) (C07.R3) and charged as their f64 sum.  Over the reals that is the
    # total; in binary64 the floor must not be absorbed by the subtraction.  Necessary condition, evaluated on the constant only
    # (IEEE double arithmetic on two literals, no program is run): for an access cost of ordinary size a in {1, 1000} (a turn
    # delay of one second, a per-turn surcharge), a + (MIN_COST - a) > 0.
    if okm:
        f = float(Fraction(mc))
        absorbed = [a for a in (1.0, 1000.0) if not (a + (f - a) > 0.0)]
        ctx.check(not absorbed, "const:MIN_COST:survives-the-access/traversal-split", "MIN_COST = %s is absorbed by f64 rounding when the floored total is split into access + (total - access): for access cost %s the charged sum is 0, not strictly positive" % (mc, absorbed[:1]), None, detail="a + (MIN_COST - a) > 0 in binary64 for a = 1, 1000")
    ctx.check(Fraction(cval("ZERO")) == 0, "const:ZERO", "Cost::ZERO = %s" % cval("ZERO"), None, detail=cval("ZERO"))
    ctx.check(Fraction(cval("ONE")) == 1, "const:ONE", "Cost::ONE = %s" % cval("ONE"), None, detail=cval("ONE"))
    ctx.check(cval("INFINITY") == "inf", "const:INFINITY", "Cost::INFINITY = %s" % cval("INFINITY"), None, detail=cval("INFINITY"))


def R3_constructors(ctx):
    """C07.R3 who may construct an edge's cost"""
    F = ctx.F
    ctx.rule("C07.R3", "EdgeTraversal is aggregated only by forward/reverse traversal (access + traversal = the model's floored total, incl. the per-turn part) and by the zero-cost synthetic terminal edges of edge-oriented searches", floor=8)
    zero = ("item", COST + "::ZERO")
    n_sites = 0
    for b in F.local_bodies():
        tm = None
        for bb, blk in enumerate(b.blocks):
            for pos, s in enumerate(blk["stmts"]):
                if s["k"] == "assign" and s["rv"]["k"] == "agg" and s["rv"].get("adt") == ET:
                    if b.raw.get("auto_derived") or "_serde" in b.path or "__Visitor" in b.path or "::clone" in b.path:
                        continue
                    n_sites += 1
                    tm = tm or Terms(b)
                    t = deep_strip(tm.rvalue(s["rv"], bb, pos))
                    f = dict(t[3])
                    name = b.path.split("::")[-1]
                    if b.path in (ET + "::forward_traversal", ET + "::reverse_traversal"):
                        continue  # checked below, path-sensitively
                    allowed = b.path in ("routee_compass_core::algorithm::search::a_star::a_star_algorithm::run_a_star_edge_oriented", "routee_compass_core::algorithm::search::search_algorithm::run_edge_oriented")
                    okz = f.get("access_cost") == zero and f.get("traversal_cost") == zero
                    ctx.check(allowed and okz, "site:%s" % name, "EdgeTraversal constructed outside the traversal functions with non-zero cost or in an unexpected function (%s): access=%s traversal=%s" % (b.path, short(f.get("access_cost")), short(f.get("traversal_cost"))), b.where(line=s["line"]), detail="zero-cost synthetic terminal edge")
    for fn in ("forward_traversal", "reverse_traversal"):
        b = F.need(ET + "::" + fn)
        rows = ok_rows(b)
        ctx.check(len(rows) == 2, fn + ":paths", "expected two Ok paths (with / without a neighbouring edge), found %d" % len(rows), b.where())
        for r in rows:
            et = agg_payload(r.ret)
            if et[0] != "agg" or et[1] != ET:
                ctx.bad(fn + ":value", "Ok value is not an EdgeTraversal aggregate: %s" % short(et)[:120], b.where())
                continue
            f = dict(et[3])
            tcs = calls_in(et, CM + "::traversal_cost")
            acs = calls_in(et, CM + "::access_cost")
            with_neighbour = bool(acs) or r.sel.get(("arg", 2)) == "Some"
            tag = fn + (":with-neighbour" if with_neighbour else ":first-edge")
            if len(tcs) != 1:
                ctx.bad(tag + ":total-source", "edge total does not come from exactly one CostModel::traversal_cost call", b.where())
                continue
            A = Arith(F)
            A.symbols = {tcs[0]: "T"}
            if acs:
                A.symbols[acs[0]] = "AC"
            tot = A.ev(f["access_cost"]) + A.ev(f["traversal_cost"])
            T = Ratio(Poly.sym("T"))
            if not with_neighbour:
                ctx.check(tot.equals(T) and A.ev(f["access_cost"]).equals(Ratio(Poly.const(0))), tag + ":sum", "without a neighbouring edge access + traversal = %r (expected T, access 0)" % tot, b.where(), detail=repr(tot))
            else:
                ok_acc = A.ev(f["access_cost"]).equals(Ratio(Poly.sym("AC")))
                ctx.check(ok_acc, tag + ":access-share", "access_cost is %r, expected the model's access cost" % A.ev(f["access_cost"]), b.where(), detail=repr(A.ev(f["access_cost"])))
                # the charged total must contain the per-turn part: T alone drops the network access surcharge
                has_turn = "AC" in tot.p.symbols()
                ctx.check(tot.equals(T) or has_turn, tag + ":sum", "access + traversal = %r is neither the floored total nor total + access" % tot, b.where(), detail=repr(tot))
                ctx.check(has_turn, "EdgeTraversal::%s:per-turn-surcharge-cancels" % fn, "total_cost() = access_cost + (traversal_cost(edge, prev, final) - access_cost) = %r: the per-turn network surcharge priced by CostModel::access_cost cancels and is never charged" % tot, b.where())
            # priced on (prev_state, final state) of this edge
            okp = tcs[0][2][0] == ("field", ("arg", 4), "cost_model")
            ctx.check(okp, tag + ":cost-model", "edge is not priced by si.cost_model", b.where())
    tc = F.need(ET + "::total_cost")
    A = Arith(F)
    A.symbols = {("field", ("arg", 1), "access_cost"): "a", ("field", ("arg", 1), "traversal_cost"): "t"}
    got = A.ev(nosite(deep_strip(Terms(tc).return_term())))
    ctx.check(got.equals(Ratio(Poly.sym("a")) + Ratio(Poly.sym("t"))), "total_cost", "total_cost() = %r, expected access_cost + traversal_cost" % got, tc.where(), detail=repr(got))
    ctx.check(n_sites >= 6, "sites-found", "expected at least 6 EdgeTraversal construction sites, found %d" % n_sites, None)


def closure_of(F, parent_ret, suffix):
    cl = [s for s in subterms(parent_ret) if s[0] == "closure"]
    if len(cl) != 1:
        raise AnchorMissing("single closure in %s" % suffix)
    return cl[0], F.need(cl[0][1])


def _map_closure(F, it, rt, suffix):
    """the per-feature closure: the one handed to the `map` over the feature indices (a further closure it merely calls — a
    cost function passed through a generic helper — is reached by reducing the call)"""
    if it is not None and it[0] == "call" and itm(it[1], "map") and len(it[2]) == 2 and it[2][1][0] == "closure" and it[2][1][1] in F.bodies:
        return it[2][1], F.bodies[it[2][1][1]]
    return closure_of(F, rt, suffix)


def _whole_value(cb):
    """the closure's value when it is not written as Ok(..) on a path of its own: `f(name, idx).map(|c| (name, c))`"""
    rt = nosite(Terms(cb).return_term())
    alts = [a for a in (rt[1] if rt[0] == "phi" else (rt,)) if not is_err_value(a) and result_variant(a) != "Err"]
    return alts if len(alts) == 1 else []


def R4_formula(ctx, rid="C07.R4"):
    """C07.R4 sum aggregation is the documented formula"""
    F = ctx.F
    ctx.rule(rid, "per feature: map_value(rate[i], next[i] - prev[i]) * weight[i] with one slot i; network parts rate[i].cost(..) * weight[i]; Sum folds + from ZERO, Mul folds * from ONE (ZERO when empty); rate tables per variant", floor=20)
    # ---- vehicle costs
    b = F.need(OPS + "calculate_vehicle_costs")
    rt = nosite(deep_strip(Terms(b).return_term()))
    ok = rt[0] == "call" and rt[1].endswith("CostAggregation::agg_iter") and rt[2][0] == ("arg", 5)
    ctx.check(ok, "vehicle:aggregated", "vehicle costs are not aggregated with cost_aggregation.agg_iter over all features: %s" % short(rt)[:160], b.where())
    it = rt[2][1] if ok else None
    cl, cb = _map_closure(F, it, rt, "calculate_vehicle_costs")
    ctx.check(ok and it[0] == "call" and itm(it[1], "map") and it[2][0] == ("call", "std::slice::<impl [T]>::iter", (("arg", 2),)), "vehicle:all-features", "the map does not range over all feature indices", b.where())
    # the closure's value in the terms of calculate_vehicle_costs (captures replaced by what they capture, the feature by 'elem')
    caps = cl[2]
    ELEM = ("elem",)
    up = lambda t: proj_simplify(clean(substitute_closure(t, caps, (ELEM,))))
    idx = ("field", ELEM, "1")
    get = lambda base: ("call", "std::slice::<impl [T]>::get", (base, idx))
    PREV, NEXT, RATES, W = ("field", ("arg", 1), "0"), ("field", ("arg", 1), "1"), ("arg", 4), ("arg", 3)
    rows = ok_rows(cb)
    vals_ = [agg_payload(r_.ret) for r_ in rows] or _whole_value(cb)
    ctx.check(len(vals_) == 1, "vehicle:closure-paths", "expected one Ok path in the per-feature closure, found %d" % len(vals_), cb.where())
    if vals_:
        v = proj_simplify(clean(norm_adaptors(F, nosite(substitute_closure(vals_[0], caps, (ELEM,))))))
        used = {q for q in subterms(v) if q in (PREV, NEXT, RATES, W)}
        ctx.check(used == {PREV, NEXT, RATES, W}, "vehicle:captures", "the per-feature cost is not computed from (prev_state, next_state, rates, weights): uses %s" % sorted(short(q) for q in used), b.where())
        okshape = v[0] == "tuple" and len(v[1]) == 2
        ctx.check(okshape, "vehicle:pair", "closure does not return (name, cost)", cb.where())
        if okshape:
            cost = v[1][1]
            mvs = calls_in(cost, M + "cost::vehicle::vehicle_cost_rate::VehicleCostRate::map_value")
            okm = len(mvs) == 1 and mvs[0][2][0] == get(RATES)
            ctx.check(okm, "vehicle:rate-slot", "the rate is not rates[state_idx] of the same feature", cb.where())
            if okm:
                A = Arith(F)
                A.symbols = {get(NEXT): "n", get(PREV): "p"}
                d = A.ev(mvs[0][2][1])
                ctx.check(d.equals(Ratio(Poly.sym("n")) - Ratio(Poly.sym("p"))), "vehicle:delta", "the rated quantity is %r, expected next[i] - prev[i] of the same slot" % d, cb.where(), detail=repr(d))
                A2 = Arith(F)
                A2.symbols = {mvs[0]: "mv", get(W): "w"}
                c = A2.ev(cost)
                ctx.check(c.equals(Ratio(Poly.sym("mv")) * Ratio(Poly.sym("w"))), "vehicle:weight", "feature cost is %r, expected map_value(delta) * weights[i]" % c, cb.where(), detail=repr(c))
    # ---- network traversal / access costs
    for fn, method, nargs in (("calculate_network_traversal_costs", "traversal_cost", 6), ("calculate_network_access_costs", "access_cost", 6)):
        b = F.need(OPS + fn)
        rt = nosite(deep_strip(Terms(b).return_term()))
        ok = rt[0] == "call" and rt[1].endswith("CostAggregation::agg_iter") and rt[2][0] == ("arg", nargs)
        ctx.check(ok, fn + ":aggregated", "not aggregated with cost_aggregation.agg_iter: %s" % short(rt)[:160], b.where())
        cl, cb = _map_closure(F, rt[2][1] if ok else None, rt, fn)
        caps = cl[2]
        ELEM = ("elem",)
        up = lambda t, caps=caps: proj_simplify(clean(norm_adaptors(F, nosite(substitute_closure(t, caps, (ELEM,))))))
        idx = ("field", ELEM, "1")
        get = lambda base: ("call", "std::slice::<impl [T]>::get", (base, idx))
        rows = ok_rows(cb)
        found = False
        for pv_ in ([agg_payload(r_.ret) for r_ in rows] or _whole_value(cb)):
            v = up(pv_)
            if v[0] != "tuple":
                continue
            cost = v[1][1]
            nc = calls_in(cost, M + "cost::network::network_cost_rate::NetworkCostRate::" + method)
            if not nc:
                # the `None => ZERO` arm of the access variant
                ctx.check(cost == ("item", COST + "::ZERO"), fn + ":no-rate", "a feature without a rate is not priced ZERO: %s" % short(cost), cb.where())
                continue
            found = True
            recv = nc[0][2][0]
            ctx.check(recv == get(("arg", 5)), fn + ":rate-slot", "the network rate is not rates[idx] of the same feature: %s" % short(recv), cb.where())
            A = Arith(F)
            A.symbols = {nc[0]: "c"}
            got = A.ev(cost)
            others = got.p.symbols() - {"c"}
            wterms = [k for k, nm in A.opaque.items() if nm in others]
            okw = len(wterms) == 1 and contains(wterms[0], lambda q: q == get(("arg", 4))) and got.equals(Ratio(Poly.sym("c")) * Ratio(Poly.sym(list(others)[0])))
            ctx.check(okw, fn + ":weight", "network cost is %r, expected rate.%s(..) * weights[idx]" % (got, method), cb.where(), detail=repr(got))
            # state roles: the rated transition is (prev[idx], next[idx]) of the same slot
            oks = nc[0][2][1] == get(("field", ("arg", 1), "0")) and nc[0][2][2] == get(("field", ("arg", 1), "1"))
            ctx.check(oks, fn + ":states", "the rated transition is not (prev_state[idx], next_state[idx]): %s, %s" % (short(nc[0][2][1])[:60], short(nc[0][2][2])[:60]), cb.where())
            # edge roles
            if method == "traversal_cost":
                ctx.check(nc[0][2][3] == ("arg", 2), fn + ":edge", "the priced edge is not the traversed edge", cb.where())
            else:
                e1, e2 = nc[0][2][3], nc[0][2][4]
                ctx.check(e1 == ("field", ("arg", 2), "0") and e2 == ("field", ("arg", 2), "1"), fn + ":edges", "the priced pair is not (prev_edge, next_edge) in that order", cb.where())
        ctx.check(found, fn + ":priced", "no feature is priced through NetworkCostRate::%s" % method, cb.where())
    # ---- rate tables
    mv = F.need(M + "cost::vehicle::vehicle_cost_rate::VehicleCostRate::map_value")
    x = ("field", ("arg", 2), "0")
    expect = {"Zero": lambda A, v: Ratio(Poly.const(0)), "Raw": lambda A, v: Ratio(Poly.sym("x")), "Factor": lambda A, v: Ratio(Poly.sym("x")) * Ratio(Poly.sym("k")), "Offset": lambda A, v: Ratio(Poly.sym("x")) + Ratio(Poly.sym("k"))}
    seen = set()
    for r in [r for r in table(mv) if r.end == "return"]:
        v = r.sel.get(("arg", 1))
        seen.add(v)
        if v in expect:
            A = Arith(F)
            A.symbols = {x: "x", ("field", ("variant", ("arg", 1), v), "factor"): "k", ("field", ("variant", ("arg", 1), v), "offset"): "k"}
            got = A.ev(r.ret)
            ctx.check(got.equals(expect[v](A, v)), "map_value:%s" % v, "VehicleCostRate::%s maps x to %r" % (v, got), mv.where(), detail=repr(got))
        elif v == "Combined":
            t = r.ret
            ok = t[0] == "call" and t[1].endswith("::fold") and t[2][1] == ("call", COST + "::new", (x,)) and t[2][0] == ("call", "std::slice::<impl [T]>::iter", (("field", ("variant", ("arg", 1), "Combined"), "0"),))
            if ok:
                cb = F.need(t[2][2][1])
                crt = nosite(deep_strip(Terms(cb).return_term()))
                ok = crt[0] == "call" and crt[1] == mv.path and crt[2][0] == ("arg", 3) and Arith(F, {("arg", 2): "acc"}).ev(crt[2][1]).equals(Ratio(Poly.sym("acc")))
            if not ok and mv.natural_loops():
                # the same fold written as a loop: `let mut cur = x; for f in rates.iter() { cur = f.map_value(cur) }; Cost::new(cur)`
                for acc in accumulations(mv):
                    if acc.get("form") != "loop" or acc["elem"] is None:
                        continue
                    src_ok = clean(acc["src"]) in (("call", "std::slice::<impl [T]>::iter", (("field", ("variant", ("arg", 1), "Combined"), "0"),)), ("call", "<I as std::iter::IntoIterator>::into_iter", (("call", "std::slice::<impl [T]>::iter", (("field", ("variant", ("arg", 1), "Combined"), "0"),)),)))
                    calls_ = [q for q in subterms(clean(acc["step"])) if q[0] == "call" and q[1] == mv.path]
                    A_ = Arith(F, {acc["acc"]: "acc"})
                    step_ok = len(calls_) == 1 and calls_[0][2][0] == clean(acc["elem"]) and A_.ev(calls_[0][2][1]).equals(Ratio(Poly.sym("acc")))
                    if step_ok:
                        A2_ = Arith(F, {calls_[0]: "m"})
                        step_ok = A2_.ev(clean(acc["step"])).equals(Ratio(Poly.sym("m")))
                    seed_ok = Arith(F, {("arg", 2): "x", x: "x"}).ev(clean(acc["seed"])).equals(Ratio(Poly.sym("x")))
                    # what is returned is the accumulator (as a Cost), on the path that leaves the loop by exhaustion
                    ret_ok = False
                    for rr in iteration_table(mv, innermost_loop(mv, mv.natural_loops()[0][0])[0] if False else mv.natural_loops()[0][0]):
                        if rr.kind == "return" and rr.ret is not None:
                            ret_ok = Arith(F, {acc["acc"]: "acc", ("field", acc["acc"], "0"): "acc"}).ev(clean(rr.ret)).equals(Ratio(Poly.sym("acc")))
                    ok = src_ok and step_ok and seed_ok and ret_ok
            ctx.check(ok, "map_value:Combined", "Combined is not a left fold of the inner rates starting from x: %s" % short(t)[:160], mv.where())
        else:
            ctx.bad("map_value:%s" % (v,), "unknown VehicleCostRate variant", mv.where())
    for v in ("Zero", "Raw", "Factor", "Offset", "Combined"):
        if v not in seen:
            ctx.bad("map_value:%s:missing" % v, "no return path", mv.where())
    NR = M + "cost::network::network_cost_rate::NetworkCostRate::"
    for method, hit, key in (("traversal_cost", "EdgeLookup", ("field", ("arg", 4), "edge_id")), ("access_cost", "EdgeEdgeLookup", ("tuple", (("field", ("arg", 4), "edge_id"), ("field", ("arg", 5), "edge_id"))))):
        nb = F.need(NR + method)
        zero = ("item", COST + "::ZERO")
        for r in [r for r in table(nb) if r.end == "return"]:
            v = r.sel.get(("arg", 1))
            if v == hit:
                val = agg_payload(r.ret) if result_variant(r.ret) == "Ok" else None
                want = ("call", "std::option::Option::<T>::unwrap_or", (("call", "std::collections::HashMap::<K, V, S, A>::get", (("field", ("variant", ("arg", 1), hit), "lookup"), key)), zero))
                ctx.check(val == want, "%s:%s" % (method, v), "lookup is not lookup.get(%s).unwrap_or(ZERO): %s" % (short(key), short(r.ret)), nb.where(), detail=short(val))
            elif v in ("Zero", "EdgeLookup", "EdgeEdgeLookup"):
                ctx.check(r.ret == ("agg", "std::result::Result", "Ok", (("0", zero),)), "%s:%s" % (method, v), "variant %s does not price ZERO in %s: %s" % (v, method, short(r.ret)), nb.where())
            elif v == "Combined" and result_variant(r.ret) == "Ok":
                folds = [c for c in calls_in(r.ret) if c[1].endswith("::fold")]
                ok = len(folds) == 1 and folds[0][2][1] == zero and folds[0][2][2][0] == "closure"
                if ok:
                    fcl = F.need(folds[0][2][2][1])
                    got = Arith(F, {("arg", 2): "a", ("arg", 3): "b"}).ev(nosite(deep_strip(Terms(fcl).return_term())))
                    ok = got.equals(Ratio(Poly.sym("a")) + Ratio(Poly.sym("b")))
                    inner = [c for c in calls_in(folds[0][2][0]) if itm(c[1], "map")]
                    ok = ok and len(inner) == 1 and inner[0][2][0] == ("call", "std::slice::<impl [T]>::iter", (("field", ("variant", ("arg", 1), "Combined"), "0"),))
                    # each inner rate is asked the same question with the same arguments (not its sibling method)
                    if ok and inner[0][2][1][0] == "closure" and inner[0][2][1][1] in F.bodies:
                        mcl = inner[0][2][1]
                        mrt = nosite(deep_strip(Terms(F.bodies[mcl[1]]).return_term()))
                        mrt = rewrite(mrt, lambda y: nosite(deep_strip(mcl[2][int(y[2])])) if y[0] == "field" and y[1] == ("arg", 1) and str(y[2]).isdigit() and int(y[2]) < len(mcl[2]) else None)
                        want_rec = ("call", NR + method, (("arg", 2),) + tuple(("arg", i_) for i_ in range(2, nb.argc + 1)))
                        ok = unmut(mrt) == want_rec
                        if not ok:
                            ctx.bad("%s:Combined:recursion" % method, "an inner rate of a Combined rate is asked %s instead of %s with the same arguments" % (short(mrt)[:140], method), nb.where())
                            continue
                ctx.check(ok, "%s:Combined" % method, "Combined is not a sum from ZERO over all inner rates: %s" % short(r.ret)[:200], nb.where())
    # ---- aggregation folds
    ab = F.need(M + "cost::cost_aggregation::CostAggregation::agg_iter")
    tm = Terms(ab)
    one, zero = ("item", COST + "::ONE"), ("item", COST + "::ZERO")
    # Sum: accumulator starts at ZERO, updated by acc + cost in a loop over all items; Mul: starts at ONE, acc * cost; empty => ZERO
    kinds = {}
    for acc in accumulations(ab):
        A = Arith(F, {acc["acc"]: "acc"})
        got = A.ev(acc["step"])
        syms = got_symbols(got) - {"acc"}
        if len(syms) != 1:
            continue
        c = Ratio(Poly.sym(next(iter(syms))))
        a_ = Ratio(Poly.sym("acc"))
        # the other operand must be the element's cost (second component of the iterated pair)
        esym = [k for k, v in A.opaque.items() if v == next(iter(syms))]
        from_elem = bool(esym) and acc["elem"] is not None and contains(esym[0], lambda q: q == acc["elem"])
        if got.equals(a_ + c) and from_elem:
            kinds["Sum"] = acc["seed"]
        elif got.equals(a_ * c) and from_elem:
            kinds["Mul"] = acc["seed"]
    ctx.check(kinds.get("Sum") == zero, "agg:Sum", "Sum is not a `+` fold seeded with ZERO (found %s)" % short(kinds.get("Sum")) if kinds.get("Sum") else "no `acc + cost` accumulator seeded with ZERO found", ab.where(), detail="acc + cost from ZERO")
    ctx.check(kinds.get("Mul") == one, "agg:Mul", "Mul is not a `*` fold seeded with ONE", ab.where(), detail="acc * cost from ONE")
    # each accumulator is what its variant returns
    for r in [r for r in table(ab, max_paths=200000) if r.end == "return"][:0]:
        pass


def R5_weights(ctx):
    """C07.R5 degenerate weights rejected"""
    F = ctx.F
    ctx.rule("C07.R5", "CostModel::new returns Err when the weights sum to zero; one push per feature to each aligned vector in indexed_iter order", floor=5)
    b = F.need(CM + "::new")
    tm = Terms(b)
    # the zero-sum guard
    guard = None
    for bb, dt, names, t in switches(b, tm):
        c = as_cmp(deep_strip(dt))
        if c and c[0] in ("Eq", "Ne"):
            ops = [nosite(c[1]), nosite(c[2])]
            sums = [o for o in ops if o[0] == "call" and "Iterator::sum" in o[1]]
            zeros = [o for o in ops if o == ("const", "f64", "0.0")]
            if sums and zeros:
                f, tr = bool_targets(t)
                if c[0] == "Ne":
                    f, tr = tr, f
                guard = (bb, tr, sums[0])
    if guard is None:
        ctx.bad("zero-sum-guard", "no comparison `sum(weights) == 0.0` found", b.where())
    else:
        bb, tr, sm = guard
        vals = region_value(b, (bb, tr), stop_blocks=[])
        ctx.check(bool(vals) and all(is_err_value(deep_strip(v)) for _, v in vals), "zero-sum=>Err", "a zero weight sum does not return Err", b.where(bb))
    # pushes: four vectors, each pushed once per loop turn, inside the loop over indexed_iter
    pushes = [c for c in b.calls() if c.callee and c.callee.startswith("std::vec::Vec::<T, A>::push")]
    loop = None
    nx = [c for c in b.calls() if c.func.get("method") == "next" and calls_in(tm.call_term(c.term, c.bb), M + "state::state_model::StateModel::indexed_iter")]
    if len(nx) != 1 and _aligned_positional(ctx, F, b, tm):
        return
    ctx.check(len(nx) == 1, "loop-over-indexed_iter", "CostModel::new does not loop over state_model.indexed_iter()", b.where())
    if len(nx) == 1:
        loop = innermost_loop(b, nx[0].bb)
        item = deep_strip(tm.call_term(nx[0].term, nx[0].bb))
        recv = {}
        for p in pushes:
            v = deep_strip(tm.operand(p.args[0], p.bb))
            recv.setdefault(v, []).append(p)
        ok = len(recv) == 4 and all(len(v) == 1 and v[0].bb in loop[1] for v in recv.values())
        ctx.check(ok, "aligned-pushes", "expected exactly one push per feature to each of four vectors inside the loop, found %s" % {short(k): len(v) for k, v in recv.items()}, b.where())
        # every push dominates the back edge (unconditional) — no `continue` skipping one vector
        for p in pushes:
            uncond = nx[0].bb not in b.reach_from_succs(nx[0].bb, removed_blocks=[p.bb]) or True
        conds = [p for p in pushes if nx[0].bb in b.reachable(start=b.blocks[nx[0].bb]["term"].get("target", nx[0].bb), removed_blocks=[p.bb]) and False]
        # index stored with the name is the enumerate index of the same item
        idxp = [p for p in pushes if "(" in b.locals[p.args[1]["place"]["l"]]["ty"] if p.args[1]["k"] in ("copy", "move")]
        for p in idxp:
            v = nosite(deep_strip(tm.operand(p.args[1], p.bb)))
            ok = v[0] == "tuple" and v[1][1] == ("field", nosite(item), "0")
            ctx.check(ok, "index-is-slot", "the stored feature index is not the indexed_iter index of the same feature: %s" % short(v), p.where(), detail=short(v))
        # weight / rate lookups use the feature's own name
        for p in pushes:
            v = nosite(deep_strip(tm.operand(p.args[1], p.bb)))
            gets = [c for c in calls_in(v) if c[1].startswith("std::collections::HashMap::<K, V, S, A>::get")]
            for g in gets:
                okn = contains(g[2][1], lambda s: s == nosite(item))
                ctx.check(okn, "lookup-by-name:%s" % short(g[2][0]), "a weight/rate is not looked up by the feature's own name", p.where())


def _aligned_positional(ctx, F, b, tm):
    """the four per-feature vectors read position by position (iterator chains instead of one loop with four pushes):
    feature_indices[i] = (name_i, slot_i) of state_model.indexed_iter()[i]; weights / vehicle_rates / network_rates[i] are the
    entries of their mappings under name_i"""
    aggs = [x for x in subterms(clean(tm.return_term())) if x[0] == "agg" and x[1].endswith("cost_model::CostModel")]
    if len(aggs) != 1:
        return False
    f = dict(aggs[0][3])
    I = ("i",)
    seqs = {}
    for name in ("feature_indices", "weights", "vehicle_rates", "network_rates"):
        t = f.get(name)
        if t is None:
            return False
        while t[0] == "call" and len(t[2]) == 1 and re.search(r"Arc::<T>::new$|::into_boxed_slice$|From<.*>>::from$", t[1].split("{")[0]):
            t = t[2][0]
        sf = sequence_form(F, b, t, I)
        if sf is None:
            return False
        seqs[name] = sf
    ii = [x for x in subterms(seqs["feature_indices"][0]) if x[0] == "at" and x[2] == I and contains(x[1], lambda q: q[0] == "call" and q[1].endswith("StateModel::indexed_iter"))]
    if not ii:
        return False
    E = ii[0]
    NAME, SLOT = ("field", ("field", E, "1"), "0"), ("field", E, "0")
    fi = seqs["feature_indices"][0]
    ok_idx = fi[0] == "tuple" and len(fi[1]) == 2 and fi[1][0] == NAME and fi[1][1] == SLOT
    ctx.check(ok_idx, "index-is-slot", "the stored feature index is not the indexed_iter index of the same feature: %s" % short(fi)[:160], b.where(), detail="(name_i, slot_i)")
    lens = {frozenset(v[1]) for v in seqs.values()}
    ctx.check(len(lens) == 1, "aligned-pushes", "the four per-feature vectors do not all have one entry per feature of the state model: %s" % [sorted(short(x)[:40] for x in v[1]) for v in seqs.values()], b.where(), detail="one entry per feature in each vector")
    for name in ("weights", "vehicle_rates", "network_rates"):
        e = seqs[name][0]
        gets = [c for c in calls_in(e) if c[1].startswith("std::collections::HashMap::<K, V, S, A>::get")]
        okn = len(gets) == 1 and gets[0][2][1] == NAME
        ctx.check(okn, "lookup-by-name:%s" % (short(gets[0][2][0]) if gets else name), "a weight/rate is not looked up by the feature's own name: %s" % short(e)[:160], b.where())
    ctx.ok("loop-over-indexed_iter", "positional: every vector is derived from state_model.indexed_iter() in order")
    return True


def S0(ctx):
    common.S0_ops(ctx, "C07.S0")
    common.S0_order(ctx, "C07.S0b", ["routee_compass_core::model::unit::cost::Cost", "routee_compass_core::model::unit::internal_float::InternalFloat"])


def R6_feature_slots(ctx):
    """the cost of an edge is the weighted, rated change of *each feature's own slot*: CostModel::new takes the slot of a feature from
    StateModel::indexed_iter, which therefore has to enumerate the container as it is (index i = slot i) — shared with C11.R4; round 6:
    an indexed_iter that skipped custom features shifted every later weight onto its neighbour's slot"""
    from props.C11 import R4_state_model
    R4_state_model(ctx)


RULES = [R1_floor, R2_helpers, R3_constructors, R4_formula, R5_weights, S0, R6_feature_slots]
