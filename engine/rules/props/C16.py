"""C16 — map matching picks the nearest admissible element and honours the tolerance."""
from core import *
import common
import units

EXPLANATION = (
    "C16: tolerance comparisons are dimensionally consistent (the value compared with the tolerance is a great-circle distance in meters "
    "converted into the tolerance's unit, or the tolerance converted to meters; unit typestate incl. comparisons); the vertex handed to "
    "validation is the nearest vertex of the same coordinate and the query is only written after a successful validation; the edge matcher "
    "iterates the r-tree nearest-first and returns the first record whose road class is allowed and whose restrictions are all valid for "
    "the vehicle, looked up by the record's own edge id; a tolerance failure ends the search without a match (=> error); records are built "
    "with the enumerate index of the geometry file; distance_2 is the squared coordinate distance to the record's reference point and the "
    "envelope is the geometry's own; a failed match is an error and never a partial write; the plugins write only through the four add_* "
    "helpers (origin/destination vertex/edge keys). Not decided: rstar's nearest-neighbour query equals an exhaustive scan (external crate)."
)

V = "routee_compass::plugin::input::default::vertex_rtree::plugin::"
E = "routee_compass::plugin::input::default::edge_rtree::"
IP = "routee_compass::plugin::input::input_plugin::InputPlugin"
U = "routee_compass_core::model::unit::"
METERS = ("agg", U + "distance_unit::DistanceUnit", "Meters", ())
HV = "routee_compass_core::util::geo::haversine::"


def R1_tolerance_units(ctx):
    """C16.R1 tolerance comparisons are dimensionally consistent"""
    F = ctx.F
    sel = lambda fn: fn.startswith(V) or fn.startswith(E) or fn.startswith("<" + E) or fn.startswith("<" + V)
    common.unit_rule(ctx, "C16.R1", "unit typestate in the map-matching plugins: conversions start from the unit the value is expressed in; a distance is compared with the tolerance only in the same unit", sel, floor=1)
    ctx.rule("C16.R1b", "validate_tolerance compares Meters.convert(haversine(src, dst), tolerance_unit) with the tolerance and returns Err on the exceeding side; within_tolerance receives a great-circle distance in meters at every call site and compares it with the tolerance converted to meters", floor=5)
    b = F.need(V + "validate_tolerance")
    rows = [r for r in table(b, max_paths=100000) if r.end == "return"]
    tol = ("field", ("variant", ("arg", 3), "Some"), "0")
    seen = set()
    hv = ("call", HV + "coord_distance_meters", (("arg", 1), ("arg", 2)))
    for r in rows:
        v = r.sel.get(("arg", 3))
        if v == "None":
            ctx.check(result_variant(r.ret) == "Ok", "vertex:no-tolerance=>Ok", "without a tolerance the match is not accepted", b.where())
            continue
        for (op, a, c) in r.facts:
            sides = [a, c]
            conv = [s for s in sides if s[0] == "call" and s[1].endswith("DistanceUnit::convert")]
            if not conv:
                continue
            other = sides[0] if sides[1] is conv[0] else sides[1]
            okc = conv[0][2][0] == METERS and conv[0][2][1] == hv and contains(conv[0][2][2], lambda s: s[0] == "field" and s[2] == "1") and contains(other, lambda s: s[0] == "field" and s[2] == "0")
            ctx.check(okc, "vertex:compared-quantities", "the compared values are not (haversine(src,dst) converted Meters -> tolerance unit) and the tolerance: %s" % short(("bin", op, a, c))[:200], b.where(), detail="Meters.convert(haversine, unit) vs tolerance")
            # which side exceeds?
            dist_lt_tol = (op == "Lt" and a is conv[0]) or (op == "Le" and a is conv[0])
            tol_le_dist = (op in ("Le", "Lt") and c is conv[0])
            if dist_lt_tol:
                seen.add("within")
                ctx.check(result_variant(r.ret) == "Ok", "vertex:within=>Ok", "a distance within the tolerance is rejected", b.where())
            elif tol_le_dist:
                seen.add("beyond")
                ctx.check(is_err_value(r.ret) or result_variant(r.ret) == "Err", "vertex:beyond=>Err", "a distance beyond the tolerance is accepted", b.where())
    ctx.check(seen == {"within", "beyond"}, "vertex:both-sides", "validate_tolerance does not decide both sides of the comparison (seen %s)" % sorted(seen), b.where())
    # edge: call sites of within_tolerance
    wt = F.need(E + "edge_rtree_input_plugin::within_tolerance")
    n = 0
    summ = {}
    for p, cb in sorted(F.bodies.items()):
        cs = [c for c in cb.calls() if c.callee == wt.path]
        if not cs:
            continue
        ut = units.UnitTags(F, cb, summ)
        for c in cs:
            n += 1
            v = ut.tm.operand(c.args[1], c.bb)
            tag = ut.tag(v)
            # ... measured to the point the r-tree ranks candidates by (PointDistance::distance_2: the centroid of the record's
            # geometry), between that point and the query coordinate: a tolerance tested against another point of the edge
            # accepts far candidates and rejects near ones although the ranking is right
            vt = ut.tm.operand(c.args[1], c.bb)
            with no_inline():
                vt_ = clean(Terms(cb).operand(c.args[1], c.bb))
            hv = [x for x in subterms(clean(vt)) if x[0] == "call" and x[1] == HV + "coord_distance_meters"]
            if not hv:
                # through the helper record_distance_meters(record, coord)
                for x in subterms(vt_):
                    if x[0] == "call" and x[1] in F.bodies and x[1] != HV + "coord_distance_meters":
                        hb_ = F.bodies[x[1]]
                        inner = [y for y in subterms(clean(Terms(hb_).return_term())) if y[0] == "call" and y[1] == HV + "coord_distance_meters"]
                        hv += [substitute_args(y, x[2]) for y in inner]
            hv = sorted(set(hv), key=repr)
            okpt = len(hv) == 1
            if okpt:
                a0, a1 = hv[0][2]
                rec_pts = [q for q in subterms(a0) if q[0] == "call" and q[1].endswith("::centroid") and len(q[2]) == 1 and q[2][0][0] == "field" and q[2][0][2] == "geometry"]
                others = [q for q in subterms(a0) if q[0] == "call" and re.search(r"::(envelope|center|bounding_rect|first|last|lower|upper|start_point|end_point)$", q[1].split("{")[0])]
                okpt = len(rec_pts) == 1 and not others and contains(a1, lambda q: q == ("arg", 1)) and not contains(a1, lambda q: q[0] == "call" and q[1].endswith("::centroid"))
            ctx.check(okpt, "edge:tolerance-measured-to-ranking-point:%s" % short_fn_name(p), "the distance tested against the tolerance is not haversine(centroid(record.geometry), query coordinate) — the point PointDistance::distance_2 ranks by: %s" % (short(hv[0])[:160] if hv else "no haversine distance found"), c.where(), detail="haversine(centroid(record.geometry), coord)")
            ctx.check(tag == METERS, "edge:compared-distance-in-meters:%s" % short_fn_name(p), "the value handed to within_tolerance is %s (unit %s), not a great-circle distance in meters: the r-tree's squared coordinate distance is not comparable with a tolerance in meters" % (short(nosite(deep_strip(v)))[:120], short(tag) if tag else "unknown"), c.where(), detail="tag = Meters")
    ctx.check(n >= 1, "edge:call-sites", "within_tolerance is never called", wt.where())
    rows = [r for r in table(wt) if r.end == "return"]
    okw = False
    for r in rows:
        ret = r.ret
        if ("arg", 1) not in r.sel:
            # tolerance.map_or(true, |(t, unit)| ..): the closure's value is the Some case, the default the None case
            nv = norm_adaptors(F, nosite(deep_strip(ret)))
            if nv[0] == "default":
                ctx.check(nv[2] == ("const", "bool", True), "edge:no-tolerance=>within", "without a tolerance a candidate is not within tolerance", wt.where())
                ret = nv[1]
        if r.sel.get(("arg", 1)) == "Some" or ret is not r.ret:
            c = as_cmp(ret)
            if c:
                c = canon_cmp(c)
                conv = [s for s in subterms(c[2]) if s[0] == "call" and s[1].endswith("DistanceUnit::convert")]
                okw = c[0] == "Le" and unmut(c[1]) == ("arg", 2) and len(conv) == 1 and conv[0][2][2] == METERS and conv[0][2][0] == ("field", ("arg", 1), "1") and conv[0][2][1] == ("field", ("arg", 1), "0")
        elif r.sel.get(("arg", 1)) == "None":
            ctx.check(r.ret == ("const", "bool", True), "edge:no-tolerance=>within", "without a tolerance a candidate is not within tolerance", wt.where())
    ctx.check(okw, "edge:within-tolerance", "within_tolerance is not `distance_meters <= unit.convert(tolerance, Meters)`", wt.where(), detail="d <= tolerance in meters")


def R2_nearest_admissible(ctx):
    """C16.R2 nearest-first with admissibility filter"""
    F = ctx.F
    ctx.rule("C16.R2", "edge search: iterate rtree.nearest_neighbor_iter* and return the first record with allowed road class (lookup[record.edge_id.0] in the query's classes, miss => Err) and all restrictions valid for the vehicle (looked up by record.edge_id); tolerance failure => Ok(None); exhaustion => Ok(None); records = EdgeId(enumerate index); distance_2 = dx^2+dy^2 to the centroid; envelope = geometry.envelope()", floor=12)
    b = F.need(E + "edge_rtree_input_plugin::search")
    tm = Terms(b)
    nn = [c for c in b.calls() if c.callee and re.search(r"RTree::<T, Params>::nearest_neighbor_iter(_with_distance_2)?$", c.callee)]
    nx = [c for c in b.calls() if c.func.get("method") == "next"]
    ok = len(nn) == 1 and len(nx) == 1
    ctx.check(ok, "nearest-first", "candidates are not taken from rtree.nearest_neighbor_iter*(point)", b.where(), detail="nearest_neighbor_iter")
    if not ok:
        return
    a = [nosite(deep_strip(tm.operand(x, nn[0].bb))) for x in nn[0].args]
    ctx.check(a[0] == ("arg", 2) and contains(a[1], lambda s: s == ("arg", 1)), "query-point", "the r-tree is not queried with the query coordinate", nn[0].where())
    recv = deep_strip(tm.operand(nx[0].args[0], nx[0].bb))
    ctx.check(not [x for x in calls_in(recv) if re.search(r"Iterator>?::(take|skip|filter|step_by|rev)$", x[1])], "unfiltered-iteration", "the nearest-first iterator is truncated or re-ordered", nx[0].where())
    item = nosite(deep_strip(tm.call_term(nx[0].term, nx[0].bb)))
    rec = ("field", item, "0") if nn[0].callee.endswith("_with_distance_2") else item
    eid = ("field", rec, "edge_id")
    # returns
    ok_some = []
    for bb, blk in enumerate(b.blocks):
        for pos, s in enumerate(blk["stmts"]):
            if s["k"] == "assign" and s["place"]["l"] == 0 and not s["place"]["p"] and s["rv"]["k"] == "agg" and s["rv"].get("variant") == "Ok":
                v = nosite(deep_strip(tm.rvalue(s["rv"], bb, pos)))
                pay = agg_payload(v)
                if result_variant(pay) == "Some":
                    ok_some.append((bb, agg_payload(pay)))
    ctx.check(len(ok_some) == 1 and ok_some[0][1] == eid, "returns-record-edge-id", "a match does not return the candidate record's own edge id", b.where(), detail="Ok(Some(record.edge_id))")
    if len(ok_some) != 1:
        return
    mb = ok_some[0][0]
    # the match is controlled by valid_class && valid_truck
    ctl = [t for sbb, t in controlling_true_terms(b, tm, mb)]
    cls_ok = truck_ok = False
    for t in ctl:
        alts = set()
        for x in (t[1] if t[0] == "phi" else (t,)):
            x = norm_adaptors(F, x)
            if x[0] == "default" and x[2] == ("const", "bool", True):
                x = x[1]            # no entry => nothing to test
            alts |= set(x[1]) if x[0] == "phi" else {x}
        for x in alts:
            if x[0] == "call" and x[1].endswith("HashSet::<T, S, A>::contains"):
                look = x[2][1]
                cls_ok = unmut(x[2][0]) == ("arg", 5) and look[0] == "call" and look[1] == "std::slice::<impl [T]>::get" and unmut(look[2][0]) == ("arg", 4) and look[2][1] == ("field", eid, "0")
            if x[0] == "call" and itm(x[1], "all"):
                src = x[2][0]
                gets = [y for y in calls_in(src) if y[1].endswith("HashMap::<K, V, S, A>::get")]
                truck_ok = len(gets) == 1 and unmut(gets[0][2][0]) == ("arg", 6) and gets[0][2][1] == eid and x[2][1][0] == "closure"
                if truck_ok:
                    crt = nosite(deep_strip(Terms(F.need(x[2][1][1])).return_term()))
                    truck_ok = crt[0] == "call" and crt[1].endswith("VehicleRestriction::valid") and crt[2][0] == ("arg", 2)
            if x[0] == "call" and itm(x[1], "any"):
                truck_ok = False
    ctx.check(cls_ok, "road-class-filter", "a match is not conditional on lookup[record.edge_id.0] being in the query's road classes", b.where(mb), detail="classes.contains(lookup[record.edge_id.0])")
    ctx.check(truck_ok, "vehicle-restriction-filter", "a match is not conditional on *all* restrictions of record.edge_id being valid for the vehicle", b.where(mb), detail="restrictions[record.edge_id].iter().all(valid)")
    # road class miss => Err
    gets = [c for c in b.calls() if c.callee == "std::slice::<impl [T]>::get"]
    for c in gets:
        ct = tm.call_term(c.term, c.bb)
        guards = [x for x in b.calls() if x.callee and re.search(r"Option::<T>::ok_or(_else)?$", x.callee) and contains(tm.operand(x.args[0], x.bb), lambda s: s == ct)]
        okg = bool(guards) and all(try_propagation(b, g, tm)["kind"] == "propagated" for g in guards)
        if not okg and not guards:
            # `match lookup.get(i) { Some(c) => .., None => Err(..) }` (in a loop: every path of the turn on which the lookup
            # is None ends in an Err return)
            okg = core_none_is_err(b, c, tm)
        ctx.check(okg, "road-class-miss=>Err", "a missing road-class row is not a propagated Err", c.where())
    # tolerance failure => Ok(None) (search ends), exhaustion => Ok(None)
    wts = [c for c in b.calls() if c.callee == E + "edge_rtree_input_plugin::within_tolerance"]
    okt = len(wts) == 1
    if okt:
        verdict = nosite(deep_strip(tm.call_term(wts[0].term, wts[0].bb)))
        okt = False
        for sbb, dt, names, t in switches(b, tm):
            if nosite(deep_strip(dt)) == verdict:
                f_, tr_ = bool_targets(t)
                vals = region_value(b, (sbb, f_), stop_blocks=[nx[0].bb])
                okt = bool(vals) and all(nosite(deep_strip(v)) == ("agg", "std::result::Result", "Ok", (("0", ("agg", "std::option::Option", "None", ())),)) for _, v in vals) and mb not in b.reachable(start=f_, removed_blocks=[nx[0].bb])
        # every path from the candidate to the match passes the tolerance test unless no tolerance is configured
        skip = []
        for sbb, dt, names, t in switches(b, tm):
            d = nosite(deep_strip(dt))
            if d[0] == "call" and d[1].endswith("Option::<T>::is_some") and unmut(d[2][0]) == ("arg", 3):
                skip.append((sbb, bool_targets(t)[0]))
            if d[0] == "discr" and unmut(d[1]) == ("arg", 3) and names:
                skip.append((sbb, switch_target(t, names, "None")))
        r = b.reachable(start=nx[0].bb, removed_blocks=[wts[0].bb], removed_edges=skip)
        ctx.check(mb not in r, "tolerance-before-match", "a candidate can be returned without the tolerance test although a tolerance is configured", wts[0].where(), detail="tolerance.is_some() => within_tolerance tested")
    ctx.check(okt, "beyond-tolerance=>no-match", "a candidate beyond the tolerance does not end the search with Ok(None) (later candidates are farther)", b.where(), detail="!within => return Ok(None)")
    # records and geometry
    nb = F.need(E + "edge_rtree_input_plugin::EdgeRtreeInputPlugin::new")
    cls = [F.bodies[p] for p in F.bodies if p.startswith(nb.path + "::{closure")]
    okr = False
    for cb in cls:
        rt = nosite(deep_strip(Terms(cb).return_term()))
        if rt[0] == "call" and rt[1].endswith("EdgeRtreeRecord::new"):
            okr = rt[2] == (("agg", "routee_compass_core::model::network::edge_id::EdgeId", "EdgeId", (("0", ("field", ("arg", 2), "0")),)), ("field", ("arg", 2), "1"))
    nrt = nosite(deep_strip(Terms(nb).return_term()))
    en = [x for x in calls_in(nrt) if itm(x[1], "enumerate")]
    # read position by position: record i is (EdgeId(i), geometry of row i) — nothing filtered or skipped before the numbering
    ntm = Terms(nb)
    bl = [c for c in nb.calls() if (c.callee or "").endswith("RTree::<T>::bulk_load") or "bulk_load" in (c.callee or "")]
    okpos = False
    got_pf = None
    if len(bl) == 1:
        got_pf = sequence_form(F, nb, ntm.operand(bl[0].args[0], bl[0].bb))
        if got_pf is not None:
            e_ = got_pf[0]
            okpos = e_[0] == "call" and e_[1].endswith("EdgeRtreeRecord::new") and len(e_[2]) == 2 and e_[2][0] == ("agg", "routee_compass_core::model::network::edge_id::EdgeId", "EdgeId", (("0", ("i",)),)) and e_[2][1][0] == "at" and e_[2][1][2] == ("i",) and not contains(e_[2][1][1], lambda q: q == ("i",))
    ctx.check(okr and len(en) >= 1 and okpos, "records:row=edge-id", "r-tree records are not built as EdgeRtreeRecord::new(EdgeId(enumerate index), geometry) for every row of the geometry file: %s" % (short(got_pf[0])[:120] if got_pf else None), nb.where(), detail="record i = (EdgeId(i), geometry[i])")
    R = E + "edge_rtree_record::EdgeRtreeRecord"
    db = F.one("EdgeRtreeRecord as rstar::object::PointDistance>::distance_2")
    oks = [r for r in table(db, max_paths=100000) if r.end == "return"]
    okd = len(oks) >= 1
    for r in oks:
        A = Arith(F)
        got = A.ev(r.ret)
        syms = sorted(got.p.symbols())
        cen = [x for x in subterms(r.ret) if x[0] == "call" and x[1].endswith("::centroid")]
        okd = okd and len(cen) >= 1 and contains(cen[0], lambda s: s == ("field", ("arg", 1), "geometry"))
        # dx*dx + dy*dy with dx = cx - px, dy = cy - py
        okd = okd and len(syms) == 4
        if okd:
            xs = [s for s in syms if "::x" in s or ".x" in s or "x(" in s]
            S = lambda n: Ratio(Poly.sym(n))
            cx = [s for s in syms if "x(" in s and "centroid" in s or "Centroid" in s and "x(" in s]
            px = [s for s in syms if "x(" in s and s not in cx]
            cy = [s for s in syms if "y(" in s and ("centroid" in s or "Centroid" in s)]
            py = [s for s in syms if "y(" in s and s not in cy]
            if len(cx) == len(px) == len(cy) == len(py) == 1:
                want = (S(cx[0]) - S(px[0])) * (S(cx[0]) - S(px[0])) + (S(cy[0]) - S(py[0])) * (S(cy[0]) - S(py[0]))
                okd = got.equals(want)
            else:
                okd = False
    ctx.check(okd, "distance_2:squared-euclid-to-centroid", "distance_2 is not dx^2 + dy^2 between the geometry's centroid and the query point", db.where(), detail="dx*dx + dy*dy")
    eb = F.one("EdgeRtreeRecord as rstar::object::RTreeObject>::envelope")
    ert = nosite(deep_strip(Terms(eb).return_term()))
    ctx.check(ert[0] == "call" and ert[1].endswith("::envelope") and ert[2] == (("field", ("arg", 1), "geometry"),), "envelope:of-geometry", "the r-tree envelope is not the geometry's own envelope (the reference point may fall outside a smaller box and the nearest-first order breaks): %s" % short(ert)[:120], eb.where(), detail="geometry.envelope()")
    # vertex r-tree
    vb = F.one("RTreeVertex as rstar::object::PointDistance>::distance_2")
    A = Arith(F)
    got = A.ev(nosite(deep_strip(Terms(vb).return_term())))
    syms = sorted(got.p.symbols())
    okv = len(syms) == 4
    if okv:
        S = lambda n: Ratio(Poly.sym(n))
        sx = [s for s in syms if "x" in s.split(".")[-1] or "::x" in s]
        vx = [s for s in syms if s.startswith("RTreeVertex::x") or "::x(" in s]
        px = [s for s in syms if s.endswith(".x")]
        vy = [s for s in syms if "::y(" in s]
        py = [s for s in syms if s.endswith(".y")]
        okv = len(vx) == len(px) == len(vy) == len(py) == 1 and got.equals((S(vx[0]) - S(px[0])) * (S(vx[0]) - S(px[0])) + (S(vy[0]) - S(py[0])) * (S(vy[0]) - S(py[0])))
    ctx.check(okv, "vertex:distance_2", "vertex distance_2 is not dx^2 + dy^2 of the vertex and the query point: %r" % got, vb.where(), detail="dx*dx + dy*dy")
    nvb = F.need(V + "VertexRTree::nearest_vertex")
    nrt = nosite(deep_strip(Terms(nvb).return_term()))
    ctx.check(bool([x for x in calls_in(nrt) if x[1].endswith("::nearest_neighbor") and x[2][0] == ("field", ("arg", 1), "rtree")]), "vertex:nearest", "nearest_vertex is not rtree.nearest_neighbor(point)", nvb.where(), detail="rtree.nearest_neighbor(point)")


def controlling_true_terms(b, tm, block):
    out = []
    for sbb, dt, names, t in switches(b, tm):
        if names is not None:
            continue
        f, tr = bool_targets(t)
        if tr is not None and tr != f and sbb in b.dom.get(block, ()) and b.dominates(tr, block):
            out.append((sbb, nosite(deep_strip(dt))))
    return out


def R3_no_partial_write(ctx):
    """C16.R3 a failed match is an error, never a partial write"""
    F = ctx.F
    ctx.rule("C16.R3", "both process() functions write origin/destination only after the successful match (and tolerance validation) of the corresponding coordinate; a destination that is present but unmatched is an Err", floor=6)
    # vertex plugin
    b = F.need("<%sRTreePlugin as %s>::process" % (V, IP))
    tm = Terms(b)
    vt = [c for c in b.calls() if c.callee == V + "validate_tolerance"]
    nv = [c for c in b.calls() if c.callee == V + "VertexRTree::nearest_vertex"]
    adds = [c for c in b.calls() if c.func.get("method") in ("add_origin_vertex", "add_destination_vertex")]
    ctx.check(len(vt) == 2 and len(nv) == 2 and len(adds) == 2, "vertex:shape", "expected two nearest/validate/add triples (found %d/%d/%d)" % (len(nv), len(vt), len(adds)), b.where())
    for c in adds:
        role = "origin" if "origin" in c.func["method"] else "destination"
        v = nosite(deep_strip(tm.operand(c.args[1], c.bb)))
        near = [x for x in calls_in(v) if x[1] == V + "VertexRTree::nearest_vertex"]
        coord_ok = len(near) == 1 and contains(near[0][2][1], lambda s: s[0] == "call" and s[1].endswith("get_%s_coordinate" % role))
        ctx.check(coord_ok and v[0] == "field" and v[2] == "vertex_id", "vertex:%s:nearest-of-own-coordinate" % role, "the %s vertex written is not the vertex id of the nearest vertex of the %s coordinate" % (role, role), c.where(), detail="nearest_vertex(%s coord).vertex_id" % role)
        doms = [x for x in vt if b.dominates(x.bb, c.bb)]
        okd = False
        for x in doms:
            a = [nosite(deep_strip(tm.operand(y, x.bb))) for y in x.args]
            if near and contains(a[1], lambda s: s == near[0]) and contains(a[0], lambda s: s[0] == "call" and s[1].endswith("get_%s_coordinate" % role)) and a[2] == ("field", ("arg", 1), "tolerance"):
                okd = try_propagation(b, x, tm)["kind"] == "propagated"
        ctx.check(okd, "vertex:%s:validated-before-write" % role, "the %s vertex is written without a dominating, propagated tolerance validation of (its coordinate, that vertex)" % role, c.where(), detail="validate_tolerance(coord, vertex.coordinate, tolerance)?")
    # edge plugin
    eb = F.need("<%sedge_rtree_input_plugin::EdgeRtreeInputPlugin as %s>::process" % (E, IP))
    etm = Terms(eb)
    adds = [c for c in eb.calls_deep() if c.func.get("method") in ("add_origin_edge", "add_destination_edge")]
    srch = [c for c in eb.calls_deep() if c.callee == E + "edge_rtree_input_plugin::search"]
    ctx.check(len(adds) == 2 and len(srch) == 2, "edge:shape", "expected two searches and two writes", eb.where())
    for c in adds:
        role = "origin" if "origin" in c.func["method"] else "destination"
        v = etm.operand(c.args[1], c.bb)
        sv = norm_adaptors(F, nosite(deep_strip(v)))
        ss = [x for x in calls_in(sv) if x[1] == E + "edge_rtree_input_plugin::search"]
        okc = len(ss) == 1 and contains(ss[0][2][0], lambda s: s[0] == "call" and s[1].endswith("get_%s_coordinate" % role))
        ctx.check(okc, "edge:%s:match-of-own-coordinate" % role, "the %s edge written is not the search result of the %s coordinate" % (role, role), c.where(), detail="search(%s coord)" % role)
        # None => Err: the value passes ok_or_else, or the function holding the search returns an Err on every path where the
        # search result is None (and that Err is propagated)
        guards = [x for x in calls_in(v) if re.search(r"Option::<T>::ok_or(_else)?$", x[1])]
        okn = bool(guards)
        if not okn:
            for sc in srch:
                if nosite(deep_strip(etm.call_term(sc.term, sc.bb))) != (ss[0] if ss else None):
                    continue
                inner = sc.inner if isinstance(sc, VirtualCallSite) else sc
                okn = none_is_err(inner.body, inner) and (not isinstance(sc, VirtualCallSite) or try_propagation(eb, sc.via, etm)["kind"] == "propagated")
        ctx.check(okn, "edge:%s:no-match=>Err" % role, "an unmatched %s coordinate is not turned into an error" % role, c.where(), detail="ok_or_else(matching_error)")
    for c in srch:
        inner = c.inner if isinstance(c, VirtualCallSite) else c
        ib = inner.body
        itm_ = etm if ib is eb else Terms(ib)
        okp = error_flow(F, ib, inner, itm_)["ok"] or try_propagation(ib, inner, itm_)["kind"] == "propagated"
        if isinstance(c, VirtualCallSite):
            okp = okp and try_propagation(eb, c.via, etm)["kind"] == "propagated"
        ctx.check(okp, "edge:search-error", "Err of the search is not propagated", c.where())


def core_none_is_err(b, c, tm):
    import core as _core
    return _core.none_is_err(b, c, tm)


def none_is_err(body, call):
    """every returning path of `body` on which the Option produced by `call` is None returns an Err value"""
    tm = Terms(body)
    st = nosite(deep_strip(tm.call_term(call.term, call.bb)))
    seen = False
    # the function's value is `found.ok_or_else(err)` itself: None is an Err by construction
    rt = nosite(tm.return_term())
    alts = list(rt[1]) if rt[0] == "phi" else [rt]
    for a in alts:
        while a[0] == "mut":
            a = unmut(a)
        if a[0] == "call" and re.search(r"Option::<T>::ok_or(_else)?$", a[1].split("{")[0]) and nosite(deep_strip(a[2][0])) == st:
            seen = True
    for r in table(body, max_paths=20000):
        if r.end != "return":
            continue
        for k, v in r.sel.items():
            if nosite(k) == st and v == "None":
                seen = True
                if not is_err_value(r.ret) and result_variant(r.ret) != "Err":
                    return False
    return seen


def R5_configured_tolerance(ctx):
    """C16.R5 a configured tolerance is the one enforced"""
    F = ctx.F
    ctx.rule("C16.R5", "both plugin constructors store tolerance = Some((distance, unit or BASE_DISTANCE_UNIT)) whenever a tolerance distance is configured (None only when none is), and both builders pass the parsed `distance_tolerance` / `distance_unit` settings in those positions", floor=8)
    BASE = ("item", "routee_compass_core::model::unit::builders::BASE_DISTANCE_UNIT")
    for key, tpos, upos, label in ((V + "RTreePlugin::new", 2, 3, "vertex"), (E + "edge_rtree_input_plugin::EdgeRtreeInputPlugin::new", None, None, "edge")):
        b = F.need(key)
        if tpos is None:
            tys = [b.locals[i]["ty"] for i in range(1, b.argc + 1)]
            tp = [i + 1 for i, t in enumerate(tys) if t.startswith("std::option::Option<") and "Distance>" in t and "DistanceUnit" not in t]
            up = [i + 1 for i, t in enumerate(tys) if t.startswith("std::option::Option<") and "DistanceUnit>" in t]
            if len(tp) != 1 or len(up) != 1:
                raise AnchorMissing("tolerance/unit parameters of " + key)
            tpos, upos = tp[0], up[0]
        vals = {}
        for tv in ("Some", "None"):
            for uv in ("Some", "None"):
                vals[(tv, uv)] = tolerance_under(F, b, {tpos: tv, upos: uv})
        T, U_ = ("arg", tpos), ("arg", upos)
        want = {("Some", "Some"): ("tuple", (T, U_)), ("Some", "None"): ("tuple", (T, BASE)), ("None", "Some"): "None", ("None", "None"): "None"}
        for k in sorted(want):
            ctx.check(vals[k] == want[k], "%s:new:tolerance(%s,%s)" % (label, k[0], k[1]), "with distance %s and unit %s the stored tolerance is %s" % (k[0], k[1], short(vals[k])[:120] if isinstance(vals[k], tuple) else ("undetermined" if vals[k] is None else vals[k])), b.where(), detail=short(want[k]) if isinstance(want[k], tuple) else want[k])
    for key, callee, label in ((V.replace("plugin::", "builder::") + "VertexRTreeBuilder", V + "RTreePlugin::new", "vertex"), (E + "edge_rtree_input_plugin_builder::EdgeRtreeInputPluginBuilder", E + "edge_rtree_input_plugin::EdgeRtreeInputPlugin::new", "edge")):
        bs = [b for p_, b in F.bodies.items() if b.kind != "closure" and any(c.callee == callee for c in b.calls_deep()) and p_ != callee]
        bs = [b for b in bs if "Builder" in b.path]
        if not ctx.check(len(bs) == 1, "%s:builder" % label, "expected one builder calling %s (found %d)" % (callee.split("::")[-2], len(bs)), None):
            continue
        b = bs[0]
        tm = Terms(b)
        c = [c for c in b.calls_deep() if c.callee == callee][0]
        nb = F.need(callee)
        tys = [nb.locals[i]["ty"] for i in range(1, nb.argc + 1)]
        for i, a in enumerate(c.args):
            ty = tys[i]
            if not ty.startswith("std::option::Option<"):
                continue
            want_key = "distance_tolerance" if ("Distance>" in ty and "DistanceUnit" not in ty) else ("distance_unit" if "DistanceUnit>" in ty else None)
            if want_key is None:
                continue
            t = nosite(deep_strip(tm.operand(a, c.bb)))
            lits = [x[2] for x in subterms(t) if x[0] == "const" and isinstance(x[2], str)]
            okk = t[0] == "call" and t[1].split("{")[0].endswith("get_config_serde_optional") and want_key in lits
            ctx.check(okk, "%s:builder:%s" % (label, want_key), "the %s argument of the constructor is not the parsed `%s` setting: %s" % (want_key, want_key, short(t)[:160]), c.where(), detail="get_config_serde_optional(%s)" % want_key)


def tolerance_under(F, b, env):
    """the `tolerance` field of the constructed plugin when the given Option arguments have the given variants:
    'None', a (distance, unit) tuple term, or None when it cannot be determined"""
    # trace partitioning: switches on the variants of the known arguments only take the consistent branch
    tm0 = Terms(b)
    removed = set()
    for sbb, dt, names, t in switches(b, tm0):
        d = nosite(deep_strip(dt))
        if d[0] != "discr" or names is None:
            continue
        base = d[1]
        while base[0] == "mut":
            base = unmut(base)
        if base[0] == "arg" and base[1] in env:
            keep = switch_target(t, names, env[base[1]])
            for tgt in set([x[1] for x in t["targets"]] + [t["otherwise"]]):
                if tgt != keep:
                    removed.add((sbb, tgt))
    live = set()
    work = [0]
    while work:
        x = work.pop()
        if x in live:
            continue
        live.add(x)
        work += [y for y in b.succ[x] if (x, y) not in removed]
    tm = Terms(b, edge_ok=lambda x, y: (x, y) not in removed and x in live)
    vals = set()
    for bb, blk in enumerate(b.blocks):
        for pos, st in enumerate(blk["stmts"]):
            if st["k"] == "assign" and st["rv"]["k"] == "agg" and st["rv"].get("adt", "").endswith("Plugin") and "tolerance" in (st["rv"].get("fnames") or []):
                a = tm.rvalue(st["rv"], bb, pos)
                vals.add(nosite(dict(a[3])["tolerance"]))
    if len(vals) != 1:
        return None
    t = list(vals)[0]
    if t[0] == "phi":
        # the arms left after partitioning must agree
        rs = set()
        for a in t[1]:
            r = eval_option(F, a, env)
            rs.add(r if r is not None else ("?", a))
        return list(rs)[0] if len(rs) == 1 and not (isinstance(list(rs)[0], tuple) and list(rs)[0][0] == "?") else None
    return eval_option(F, t, env)


def eval_option(F, t, env, depth=0):
    """evaluate an Option-valued term under known variants of Option arguments: returns 'None' or the payload term.
    In the payload convention Some(x) is x and the payload of an argument is the argument itself."""
    if depth > 6:
        return None
    t = unmut(t) if t[0] == "mut" else t
    if t[0] == "arg" and t[1] in env:
        return "None" if env[t[1]] == "None" else t
    if t[0] == "agg" and t[1].endswith("option::Option"):
        return "None" if t[2] == "None" else eval_payload(F, agg_payload(t), env, depth + 1)
    if t[0] == "phi":
        return None
    if t[0] == "call":
        name = t[1].split("{")[0]
        if re.search(r"Option::<T>::map$", name) and len(t[2]) == 2:
            r = eval_option(F, t[2][0], env, depth + 1)
            if r == "None" or r is None:
                return r
            cl = t[2][1]
            if cl[0] == "closure" and cl[1] in F.bodies:
                rt = nosite(deep_strip(Terms(F.bodies[cl[1]]).return_term()))
                return eval_payload(F, substitute_closure(rt, cl[2], (r,)), env, depth + 1)
            return None
        if re.search(r"Option::<T>::zip$", name) and len(t[2]) == 2:
            a, b_ = eval_option(F, t[2][0], env, depth + 1), eval_option(F, t[2][1], env, depth + 1)
            if a is None or b_ is None:
                return None
            return "None" if "None" in (a, b_) else ("tuple", (a, b_))
        if re.search(r"Option::<T>::(or|or_else)$", name) and len(t[2]) == 2:
            a = eval_option(F, t[2][0], env, depth + 1)
            if a != "None":
                return a
            o = t[2][1]
            if o[0] == "closure" and o[1] in F.bodies:
                o = substitute_closure(nosite(deep_strip(Terms(F.bodies[o[1]]).return_term())), o[2], ())
            return eval_option(F, o, env, depth + 1)
    return eval_payload(F, t, env, depth + 1) if t[0] in ("tuple",) else None


def eval_payload(F, t, env, depth=0):
    """a plain value under known variants: unwrap_or / unwrap_or_else / canonical default forms of Option arguments are decided"""
    if depth > 8 or t is None:
        return None
    t = nosite(deep_strip(t))

    def f(x):
        if x[0] == "mut":
            return f(unmut(x)) or unmut(x)
        if x[0] == "call" and re.search(r"Option::<T>::unwrap_or(_else|_default)?$", x[1].split("{")[0]) and len(x[2]) >= 1:
            a = eval_option(F, x[2][0], env, depth + 1)
            if a is None:
                return None
            if a != "None":
                return a
            if len(x[2]) < 2:
                return None
            d = x[2][1]
            if d[0] == "closure" and d[1] in F.bodies:
                d = substitute_closure(nosite(deep_strip(Terms(F.bodies[d[1]]).return_term())), d[2], ())
            return eval_payload(F, d, env, depth + 1)
        if x[0] == "default" and len(x) == 3:
            a = eval_option(F, x[1], env, depth + 1)
            if a is None:
                return None
            return a if a != "None" else eval_payload(F, x[2], env, depth + 1)
        return None
    return rewrite(t, f)




def R4_who_may_write(ctx):
    """C16.R4 nothing else in the query changes"""
    F = ctx.F
    ctx.rule("C16.R4", "the two plugins modify the query only through add_origin_vertex / add_destination_vertex / add_origin_edge / add_destination_edge, which insert exactly their own InputField key", floor=6)
    allowed = {"add_origin_vertex": "OriginVertex", "add_destination_vertex": "DestinationVertex", "add_origin_edge": "OriginEdge", "add_destination_edge": "DestinationEdge"}
    n = 0
    for pfx in (V, E):
        for p, b in sorted(F.bodies.items()):
            if not (p.startswith(pfx) or p.startswith("<" + pfx)) or "process" not in p:
                continue
            tm = Terms(b)
            for c in b.calls():
                if not c.args:
                    continue
                a0 = c.args[0]
                ty = a0.get("ty", "")
                if "&mut serde_json::value::Value" in ty or "&mut serde_json::Value" in ty:
                    m = c.func.get("method") or (c.callee or "").split("::")[-1]
                    n += 1
                    ctx.check(m in allowed, "%s:%s" % (short_fn_name(p), m), "the plugin modifies the query through %s (only the four add_* helpers may write)" % m, c.where(), detail="add_* helper")
    ctx.check(n >= 4, "matcher-live", "expected at least 4 query writes in the two plugins, found %d" % n, None)
    X = "routee_compass::plugin::input::input_json_extensions::InputJsonExtensions"
    for m, fld in allowed.items():
        cands = [F.bodies[p] for p in F.bodies if p.endswith("InputJsonExtensions>::" + m)]
        if len(cands) != 1:
            ctx.bad("helper:%s" % m, "helper not found", None)
            continue
        b = cands[0]
        tm = Terms(b)
        ins = [c for c in b.calls() if c.func.get("method") == "insert" or (c.callee or "").endswith("Map::<K, V>::insert") or (c.callee or "").endswith("::insert")]
        ok = len(ins) == 1
        if ok:
            k = nosite(deep_strip(tm.operand(ins[0].args[1], ins[0].bb)))
            ok = contains(k, lambda s: s[0] == "agg" and s[1].endswith("InputField") and s[2] == fld)
            v = nosite(deep_strip(tm.operand(ins[0].args[2], ins[0].bb)))
            ok = ok and contains(v, lambda s: unmut(s) == ("arg", 2) or (s[0] == "field" and s[1] == ("arg", 2)))
        others = [c for c in b.calls() if c.func.get("method") in ("remove", "clear", "retain", "index_mut")]
        ctx.check(ok and not others, "helper:%s" % m, "%s does not insert exactly (InputField::%s, its argument) into the query object" % (m, fld), b.where(), detail="insert(%s, value)" % fld)


def R6_restriction_table(ctx):
    """the edge matcher filters by the same restriction table the frontier model uses: the shared loader keeps every row of an edge (shared with C04.R6)"""
    from props.C04 import R6_plumbing
    R6_plumbing(ctx)


def R7_class_filter_parsed(ctx):
    """the edge matcher "skips candidates excluded by the query's road classes": the filter it applies is what RoadClassParser::read_query
    makes of the query — unknown names are errors and only an absent field means "no filter" (shared with C04.R3b)"""
    from props.C04 import R3b_parser
    R3b_parser(ctx)


RULES = [R1_tolerance_units, R2_nearest_admissible, R3_no_partial_write, R4_who_may_write, R5_configured_tolerance, R6_restriction_table, R7_class_filter_parsed]
