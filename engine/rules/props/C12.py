"""C12 — no query batch can make the application panic, abort or run without bound."""
from core import *
import sys
import common

EXPLANATION = (
    "C12 is decided as an inventory with discharge over everything reachable from CompassApp::run in the resolved call graph (dyn calls => "
    "all workspace impls, closures included): (R1) every panic-capable construct — MIR asserts (overflow, bounds, division), unwrap/expect, "
    "explicit panics, Index/IndexMut calls, and calls with a panicking precondition (par_chunks(0), Vec::insert/remove, f64::clamp, "
    "% through the Rem trait, vec![x; n], with_capacity) — must be discharged by a structural rule (index drawn from the indexed "
    "collection's own range/enumerate/position, dominating guard facts, constant non-zero divisor, json! serialisation of an infallible "
    "type, IndexMut on a value that is an object by construction, counter/length additions, poison-only lock unwraps, the interpolation "
    "group under the clamp+validate guards of C14) or be listed in the audited table with the reason it does not depend on the query; "
    "a new site is a violation; (R2) every loop and recursion cycle on the query path is classified as bounded by construction (for over a "
    "finite collection/range) or carries an audited progress argument whose structural part is re-checked (work-list pops once per turn, "
    "cursor strictly advances, workspace Iterator impls reach None); (R3) every per-query failure becomes a {request, error} value (shared "
    "with C06.R4/R5). Not decided: termination in general, memory bounds, panics inside external crates given valid preconditions."
)

APP = "routee_compass::app::compass::compass_app::"
LIBS = ("routee_compass", "routee_compass_core", "routee_compass_powertrain")
ROOTS = [APP + "CompassApp::run"]

PANIC_CALL = re.compile(r"(Option::<T>::(unwrap|expect)$|Result::<T, E>::(unwrap|expect|unwrap_err|expect_err)$|^std::panicking::|^core::panicking::|^std::rt::(begin_panic|panic)|panic_fmt|panic_display|::begin_panic|assert_failed|unreachable_display|panic_explicit|panic_str|^std::process::(exit|abort)$|^std::intrinsics::abort$)")
INDEX_CALL = re.compile(r"(ops::Index(Mut)?<.*>>::index(_mut)?$|ops::Index(Mut)?<I>.*::index(_mut)?$)")
PRECOND_CALL = re.compile(
    r"(^rayon::slice::ParallelSlice::par_chunks\w*$|^std::slice::<impl \[T\]>::(chunks\w*|windows|rchunks\w*|split_at\w*|copy_from_slice|clone_from_slice|swap|rotate_\w+|select_nth\w*)$"
    r"|^std::vec::Vec::<T, A>::(insert|remove|swap_remove|drain|split_off)$|^std::vec::Vec::<T>::with_capacity$|^std::vec::from_elem$"
    r"|^f64::clamp$|^f32::clamp$|^std::cmp::Ord::clamp$|ops::(Rem|Div)<.*>>::(rem|div)$|^std::iter::Iterator::step_by$|^std::time::Duration::from_secs_f\d+$"
    r"|^std::string::String::(insert|insert_str|remove|drain|split_off|truncate)$|^std::str::<impl str>::split_at$|RefCell<T>::(borrow|borrow_mut)$"
    r"|^serde_json::map::Map::<std::string::String, serde_json::value::Value>::with_capacity$|^std::collections::\w+::<.*>::with_capacity$"
    r"|^std::num::<impl \w+>::(div_ceil|div_floor|div_euclid|rem_euclid|next_multiple_of|ilog|ilog2|ilog10|isqrt)$)"
)
IGNORED_ASSERTS = ("Misaligned", "NullDeref", "NullPointerDereference", "InvalidEnumConstruction")

INTERP = "routee_compass_powertrain::routee::prediction::interpolation::"

# ---------------------------------------------------------------------------------------------
# audited table: key -> reason the site cannot be triggered by a query (configuration / build / by construction)
# keys: "<short fn>|<kind>|<detail>" — no line numbers
# ---------------------------------------------------------------------------------------------
AUDITED = {}


def audited(key, reason):
    AUDITED[key] = reason


def collect_sites(F, reach):
    sites = []
    for p in sorted(reach):
        b = F.bodies[p]
        tm = None
        for bb, blk in enumerate(b.blocks):
            if blk.get("cleanup"):
                continue
            t = blk["term"]
            if t["k"] == "assert":
                msg = t.get("msg")
                if msg in IGNORED_ASSERTS:
                    continue
                tm = tm or Terms(b)
                sites.append({"fn": p, "b": b, "bb": bb, "kind": "assert", "what": "%s%s" % (msg, (":" + t["op"]) if t.get("op") else ""), "t": t, "tm": tm})
            elif t["k"] == "call":
                k = callee_key(t["func"]) or ""
                kk = re.sub(r"\{.*\}$", "", k)
                kind = None
                if PANIC_CALL.search(kk):
                    kind = "panic-call"
                elif INDEX_CALL.search(kk):
                    kind = "index"
                elif PRECOND_CALL.search(kk):
                    kind = "precondition"
                    if re.search(r"ops::(Rem|Div)<.*>>::(rem|div)$", kk):
                        st = (t["func"].get("self_ty") or "").lstrip("&").strip()
                        if st not in ("u8", "u16", "u32", "u64", "u128", "usize", "i8", "i16", "i32", "i64", "i128", "isize"):
                            kind = None  # float / newtype-of-float division does not panic
                if kind:
                    tm = tm or Terms(b)
                    sites.append({"fn": p, "b": b, "bb": bb, "kind": kind, "what": kk, "t": t, "tm": tm})
    return sites


def arg_terms(s):
    t, tm, bb = s["t"], s["tm"], s["bb"]
    if t["k"] == "call":
        return [unmut_all(nosite(deep_strip(tm.operand(a, bb)))) for a in t["args"]]
    out = []
    for x in ("a", "b", "index", "len"):
        if isinstance(t.get(x), dict):
            out.append(unmut_all(nosite(deep_strip(tm.operand(t[x], bb)))))
    return out


def unmut_all(t):
    return rewrite(t, lambda x: unmut(x) if x[0] == "mut" else None)


_LOOP_BODY = {}


def loop_body_closure(F, path):
    """a closure handed to try_fold / fold / for_each / try_for_each by its parent is that parent's loop body:
    returns (parent path, initial accumulator term or None) or None"""
    if path in _LOOP_BODY:
        return _LOOP_BODY[path]
    out = None
    if "{closure" in path:
        for p_, pb in F.bodies.items():
            if path not in pb.closures_created():
                continue
            ptm = Terms(pb)
            for c in pb.calls():
                if c.callee and re.search(r"Iterator>?::(try_fold|fold|for_each|try_for_each)$", c.callee.split("{")[0]):
                    cl = ptm.operand(c.args[-1], c.bb)
                    if cl[0] == "closure" and cl[1] == path:
                        init = unmut_all(nosite(deep_strip(ptm.operand(c.args[1], c.bb)))) if len(c.args) == 3 else None
                        out = (p_, init)
    _LOOP_BODY[path] = out
    return out


def site_key(s):
    args = arg_terms(s)
    lb = loop_body_closure(s["b"].facts, s["fn"])
    if lb is not None:
        # written as a fold over the collection instead of a loop: the site is keyed as a site of the parent's loop, the
        # accumulator parameter read as the value the fold starts from
        parent, init = lb
        if init is not None and init[0] == "tuple":
            args = [rewrite(a, lambda y: init[1][int(y[2])] if y[0] == "field" and y[1] == ("arg", 2) and str(y[2]).isdigit() and int(y[2]) < len(init[1]) else None) for a in args]
        elif init is not None:
            args = [rewrite(a, lambda y: init if y == ("arg", 2) else None) for a in args]
        what = re.sub(r"<[^<>]*>", "", s["what"])
        what = re.sub(r"<[^<>]*>", "", what).split("::")[-1] if s["kind"] != "assert" else s["what"]
        d = "; ".join(short(loopfree(a))[:70] for a in args[:2])
        return "%s|%s:%s|%s" % (short_fn_name(parent), s["kind"], what, d)
    what = re.sub(r"<[^<>]*>", "", s["what"])
    what = re.sub(r"<[^<>]*>", "", what).split("::")[-1] if s["kind"] != "assert" else s["what"]
    d = "; ".join(short(loopfree(a))[:70] for a in args[:2])
    return "%s|%s:%s|%s" % (short_fn_name(s["fn"]), s["kind"], what, d)


# ---------------------------------------------------------------------------------------------
# generic discharge rules
# ---------------------------------------------------------------------------------------------

JSON_OK_PRIMS = re.compile(r"^(bool|u8|u16|u32|u64|usize|i8|i16|i32|i64|isize|f32|f64|str|char|\(\))$")


def json_infallible_type(F, ty, depth=0, seen=None):
    """serde_json::to_value of this type cannot fail: only string-keyed maps, no foreign Serialize impls"""
    seen = seen if seen is not None else set()
    ty = ty.strip()
    while ty.startswith("&"):
        ty = re.sub(r"^&('\w+ )?(mut )?", "", ty).strip()
    if JSON_OK_PRIMS.match(ty):
        return True
    if ty.startswith("[") and ty.endswith("]"):
        return json_infallible_type(F, ty[1:-1].split(";")[0], depth + 1, seen)
    if ty.startswith("(") and ty.endswith(")"):
        return all(json_infallible_type(F, x, depth + 1, seen) for x in split_top(ty[1:-1]) if x.strip())
    m = re.match(r"^([\w:]+)(<(.*)>)?$", ty)
    if not m:
        return False
    head, args = m.group(1), split_top(m.group(3) or "")
    args = [a for a in args if a.strip() and not a.strip().startswith("'")]
    if head in ("serde_json::Value", "serde_json::value::Value", "std::string::String", "serde_json::Number", "serde_json::value::Number"):
        return True
    if head in ("serde_json::Map", "serde_json::map::Map"):
        return True
    if head == "ordered_float::OrderedFloat":
        return True  # serialises as the wrapped float
    if head in ("std::vec::Vec", "std::option::Option", "std::boxed::Box", "std::sync::Arc", "std::rc::Rc", "std::collections::HashSet", "std::collections::BTreeSet", "std::collections::VecDeque", "std::vec::IntoIter"):
        return json_infallible_type(F, args[0], depth + 1, seen) if args else False
    if head in ("std::collections::HashMap", "std::collections::BTreeMap"):
        if len(args) < 2:
            return False
        k = args[0].strip().lstrip("&").strip()
        key_ok = k in ("std::string::String", "str", "u8", "u16", "u32", "u64", "usize", "i8", "i16", "i32", "i64", "isize", "bool", "char")
        ka = F.adts.get(k)
        if not key_ok and ka and ka.get("local") and ka["kind"] == "struct" and len(ka["variants"][0]["fields"]) == 1 and ka["variants"][0]["fields"][0]["ty"] in ("usize", "u64", "u32", "i64", "i32"):
            # integer newtype with derived Serialize: serde_json turns it into a string key
            key_ok = all(i.get("exp") or i.get("auto_derived") for i in F.impls if i.get("self_adt") == k and (i.get("trait") or "").endswith("ser::Serialize"))
        return key_ok and json_infallible_type(F, args[1], depth + 1, seen)
    if head in ("std::result::Result",):
        return False
    a = F.adts.get(head)
    if a and a.get("local"):
        if head in seen:
            return True
        seen.add(head)
        # Serialize must be derived (macro-generated impl), and all fields infallible
        impls = [i for i in F.impls if i.get("self_adt") == head and (i.get("trait") or "").endswith("ser::Serialize")]
        if not impls or not all(i.get("exp") or i.get("auto_derived") for i in impls):
            return False
        for v in a["variants"]:
            for f in v["fields"]:
                if not json_infallible_type(F, f["ty"], depth + 1, seen):
                    return False
        return True
    return False


def split_top(s):
    out, depth, cur = [], 0, ""
    for ch in s:
        if ch in "<([":
            depth += 1
        elif ch in ">)]":
            depth -= 1
        if ch == "," and depth == 0:
            out.append(cur)
            cur = ""
        else:
            cur += ch
    if cur.strip():
        out.append(cur)
    return out


def raw_def_call(s, op):
    """the terminator (callee key, args) that defines the operand's root local, looking through moves/refs"""
    b = s["b"]
    l = root_local(b, op)
    if l is None:
        return None
    defs = [d for d in b.defs.get(l, []) if not d[2]]
    if len(defs) != 1 or defs[0][1] != "term":
        return None
    t = b.blocks[defs[0][0]]["term"]
    return (callee_key(t["func"]), t, defs[0][0])


def _only_lens(t):
    """apart from constants and loop-carried earlier values of itself, the term is made of lengths of existing collections"""
    z = rewrite(t, lambda y: ("const", "usize", 0) if y[0] == "call" and re.search(r"::len$", y[1]) else None)
    return not contains(z, lambda q: q[0] in ("arg", "call", "item"))


def index_from_own_range(coll, idx):
    """idx is drawn from 0..len(coll), enumerate over coll, position over coll"""
    if idx[0] == "phi":
        # a variable that only ever holds such indices (`let mut best = None; for (i, x) in v.iter().enumerate() { .. best = Some(i) }`):
        # every assigned value is in range; the loop-carried alternative is an earlier value of the same variable
        # (payload convention: an Option-typed variable shows its None as an alternative; the index is read under Some)
        alts = [a for a in idx[1] if a[0] not in ("loop", "carried", "undef") and not (a[0] == "agg" and a[1].endswith("option::Option") and a[2] == "None")]
        rs = [index_from_own_range(coll, a) for a in alts]
        if alts and all(rs):
            return "a variable holding only: " + rs[0]
        return None
    def same(x):
        return unmut_all(x) == coll or (x[0] == "call" and x[1].endswith("::deref") and unmut_all(x[2][0]) == coll)
    if idx[0] == "call" and itm(idx[1], "next"):
        src = idx[2][0]
        rng = [x for x in subterms(src) if x[0] == "agg" and x[1] == "std::ops::Range"]
        for r in rng:
            f = dict(r[3])
            end = f.get("end")
            if f.get("start") == ("const", "usize", 0) and end is not None and end[0] == "call" and re.search(r"::len$", end[1]) and same(end[2][0]):
                return "0..len(same collection)"
    if idx[0] == "field" and idx[2] == "0" and idx[1][0] == "call" and itm(idx[1][1], "next"):
        src = idx[1][2][0]
        en = [x for x in subterms(src) if x[0] == "call" and itm(x[1], "enumerate")]
        for e in en:
            inner = e[2][0]
            if contains(inner, lambda q: q[0] == "call" and re.search(r"::(iter|iter_mut|into_iter)$", q[1]) and same(q[2][0])) and not [y for y in calls_in(inner) if re.search(r"Iterator>?::(chain|flat_map|flatten|cycle)$", y[1])]:
                return "enumerate index of the same collection"
    if idx[0] == "call" and itm(idx[1], "position"):
        if contains(idx[2][0], lambda q: q[0] == "call" and re.search(r"::(iter|iter_mut)$", q[1]) and same(q[2][0])):
            return "position() in the same collection"
    if idx[0] == "call" and itm(idx[1], "find") and len(idx[2]) == 2:
        # (0..coll.len()).find(p): an element of the range, hence < len
        r = idx[2][0]
        while r[0] == "call" and len(r[2]) == 1 and re.search(r"::into_iter$|Iterator>?::by_ref$", r[1].split("{")[0]):
            r = r[2][0]
        if r[0] == "agg" and r[1] == "std::ops::Range":
            f = dict(r[3])
            end = f.get("end")
            if f.get("start") == ("const", "usize", 0) and end is not None and end[0] == "call" and re.search(r"::len$", end[1]) and same(end[2][0]):
                return "(0..len(same collection)).find(..)"
    # a prefix coll[..i] / coll[..=i] with i in range is in range as well
    if idx[0] == "agg" and idx[1] in ("std::ops::RangeTo", "std::ops::RangeToInclusive"):
        e = dict(idx[3]).get("end")
        if e is not None:
            r = index_from_own_range(coll, e)
            if r:
                return "prefix up to an index from " + r
    return None


def guard_facts(s):
    """comparison facts that hold on every path to the site (intersection over acyclic paths is approximated by dominating switches)"""
    b, bb, tm = s["b"], s["bb"], s["tm"]
    facts = set()
    for sbb, dt, names, t in switches(b, tm):
        if names is not None or sbb == bb:
            continue
        # `match n { 0 => .., 1 => .., _ => .. }` on an integer: the arm that dominates the site fixes the value
        dl = root_local(b, t["discr"]) if t["discr"].get("k") in ("copy", "move") else None
        ty = b.locals[dl]["ty"] if dl is not None else ""
        if ty in ("usize", "u64", "u32", "u16", "u8", "isize", "i64", "i32"):
            d_ = nosite(deep_strip(dt))
            for v_, tgt in t["targets"]:
                others = [y[1] for y in t["targets"] if y[0] != v_] + [t["otherwise"]]
                if tgt not in others and b.dominates(tgt, bb):
                    facts.add(canon_fact(("Eq", d_, ("const", ty, v_)), True))
            continue
        f, tr = bool_targets(t)
        c = as_cmp(nosite(deep_strip(dt)))
        if c is None or f is None or tr is None or f == tr:
            continue
        if b.dominates(tr, bb) and not b.dominates(f, bb) and sbb in b.dom.get(tr, {sbb}) | {sbb}:
            if must_pass_edge(b, sbb, (sbb, tr), bb) or b.dominates(tr, bb):
                facts.add(canon_fact(c, True))
        elif b.dominates(f, bb) and not b.dominates(tr, bb):
            facts.add(canon_fact(c, False))
    return facts


_POS_CACHE = {}


def positive_at_construction(F, adt, variant, field):
    """every construction of adt::variant in the workspace gives `field` a value that is a positive constant
    or is guarded by `0 < value` on the constructing path; returns (ok, detail)"""
    key = (adt, variant, field)
    if key in _POS_CACHE:
        return _POS_CACHE[key]
    builders = []
    for p, b in F.bodies.items():
        for blk in b.blocks:
            for st in blk["stmts"]:
                if st["k"] == "assign" and st["rv"]["k"] == "agg" and st["rv"].get("adt") == adt and st["rv"].get("variant") == variant and p not in builders:
                    builders.append(p)
    ok_all, n = bool(builders), 0
    detail = []
    for p in builders:
        b = F.bodies[p]
        for r in table(b, max_paths=200000):
            if r.end != "return" or r.ret is None:
                continue
            for a in [x for x in subterms(r.ret) if x[0] == "agg" and x[1] == adt and x[2] == variant]:
                v = dict(a[3]).get(field)
                if v is None:
                    ok_all = False
                    continue
                if result_variant(v) == "Err":
                    continue  # infeasible: `?` on an Err value does not continue
                if result_variant(v) in ("Ok", "Some"):
                    v = agg_payload(v)
                inner = v
                while inner[0] == "cast":
                    inner = inner[2]
                n += 1
                good = (inner[0] == "const" and isinstance(inner[2], int) and inner[2] > 0) or any(f[0] == "Lt" and f[1][0] == "const" and f[1][2] == 0 and f[2] == inner for f in r.facts) or any(f[0] == "Le" and f[1][0] == "const" and f[1][2] == 1 and f[2] == inner for f in r.facts)
                if not good:
                    ok_all = False
                    detail.append("%s: %s unguarded" % (short_fn_name(p), short(v)[:60]))
    res = (ok_all and n > 0, "; ".join(detail[:2]) or "%d constructing paths in %s" % (n, ", ".join(short_fn_name(x) for x in builders)))
    _POS_CACHE[key] = res
    return res


GRID_PROCESS = "<routee_compass::plugin::input::default::grid_search::plugin::GridSearchPlugin as routee_compass::plugin::input::input_plugin::InputPlugin>::process"


def _grid_overlay_site(F, s, recv_ty):
    """an index into the per-axis option lists (Vec<Vec<Value>> / Vec<Value>) inside the code that builds the children of a
    grid search: the closure of GridSearchPlugin::process, its closures and any helper extracted from it"""
    pat = r"^(std::vec::Vec<|\[)(std::vec::Vec<)?serde_json::(value::)?Value"
    if s["kind"] == "assert" and s["t"].get("msg") == "BoundsCheck":
        # indexing a slice parameter: the length operand is PtrMetadata of the indexed slice
        b, bb = s["b"], s["bb"]
        tys = []
        for st in b.blocks[bb]["stmts"]:
            if st["k"] == "assign" and st["rv"]["k"] == "un" and st["rv"].get("op") == "PtrMetadata":
                op = st["rv"]["a"]
                if op["k"] in ("copy", "move"):
                    tys.append(re.sub(r"^((&('\w+ )?(mut )?)|(\*const )|(\*mut ))+", "", op.get("ty") or b.locals[op["place"]["l"]]["ty"]).strip())
        if not tys or not all(re.match(pat, ty) for ty in tys):
            return False
    elif s["kind"] != "index" or not s["what"].endswith("::index"):
        return False
    elif not re.match(pat, recv_ty):
        return False
    tree = {b_.path for b_ in tree_of(F, GRID_PROCESS)} if GRID_PROCESS in F.bodies else set()
    # (in `process` itself only the typed slice form: the per-combination code written as a loop instead of a closure)
    return s["fn"] in tree and (s["fn"] != GRID_PROCESS or s["kind"] == "assert")


def json_object_provenance(F, body, raw, depth=0):
    """why the serde_json::Value denoted by the (raw, site-carrying) term is known to be an object, or None:
    built as Value::Object, json!(Map), a clone of such a value, a closure capture or a new helper's parameter whose every
    actual is one"""
    if depth > 5:
        return None
    t = raw
    while t[0] == "mut":
        t = t[1]
    if t[0] == "phi":
        rs = [json_object_provenance(F, body, a, depth + 1) for a in t[1]]
        return rs[0] if rs and all(rs) else None
    if t[0] == "agg" and t[1] == "serde_json::value::Value":
        return "built as Value::Object" if t[2] == "Object" else None
    if t[0] == "call":
        key = t[1].split("{")[0]
        if key.startswith("serde_json::value::to_value") and len(t) > 3 and isinstance(t[3], int):
            term = body.blocks[t[3]]["term"]
            if term["k"] == "call" and re.search(r"serde_json::(map::)?Map<", term["args"][0].get("ty", "")):
                return "json!(map): a Map serialises to Value::Object"
            return None
        if re.search(r"Result::<T, E>::(unwrap|expect)$|Clone>?::clone$|::to_owned$", key) and t[2]:
            return json_object_provenance(F, body, t[2][0], depth + 1)
        return None
    if t[0] == "field" and t[1] == ("arg", 1) and body.kind == "closure" and str(t[2]).isdigit():
        # the function(s) that create this closure: its lexical parent, or the functions a helper holding it was inlined into
        par = body.path.rsplit("::{closure", 1)[0]
        creators = [F.bodies[par]] if par in F.bodies else []
        creators += [pb_ for p_, pb_ in F.bodies.items() if pb_ not in creators and body.path in pb_.closures_created()]
        rs = []
        for pb in creators:
            ptm = Terms(pb)
            for pbb, blk in enumerate(pb.blocks):
                for pos, st in enumerate(blk["stmts"]):
                    if st["k"] == "assign" and st["rv"]["k"] == "agg" and st["rv"].get("agg") == "closure" and st["rv"].get("closure") == body.path:
                        rs.append(json_object_provenance(F, pb, ptm.operand(st["rv"]["fields"][int(t[2])], pbb, pos), depth + 1))
        return ("captured: " + rs[0]) if rs and all(rs) else None
    if t[0] == "arg" and body.kind != "closure" and known_functions() and body.path not in known_functions():
        # a parameter of a helper that did not exist when the rules were written: every call site must pass an object
        rs = []
        for q, qb in F.bodies.items():
            for c in qb.calls():
                if c.callee == body.path and len(c.args) >= t[1]:
                    rs.append(json_object_provenance(F, qb, Terms(qb).operand(c.args[t[1] - 1], c.bb), depth + 1))
        return ("every caller passes: " + rs[0]) if rs and all(rs) else None
    return None


MULTISET_MOD = "routee_compass_core::util::multiset::"


def _odometer_site(s, args):
    """Bounds of the indexing inside the mixed-radix iterator rest on its data-structure invariant, not on a guard next to the
    site: pos, final_pos and sets have equal lengths (MultiSet::from, C17.R3 from:*), indices are the loop variable of a range
    over 0..sets.len() or the paired element of a positional walk over those vectors, and pos[i] <= final_pos[i] = len_i - 1 is
    preserved by the step function (C17.R3 next:*: every comparison and store of the step is at [idx] of pos/final_pos, the
    emitted combination is sets[i][pos[i]] position by position).  Those rules run below (odometer-group:*), so the discharge
    holds for whichever function of the module the indexing sits in.  Only index expressions of those two kinds qualify."""
    kind, t = s["kind"], s["t"]
    is_loop_var = lambda x: x[0] == "call" and re.search(r"ops::Range<.*>>::next$|range::.*::next$", x[1]) is not None and contains(x, lambda q: q[0] == "agg" and q[1].endswith("ops::Range") and dict(q[3]).get("start") == ("const", "usize", 0))
    is_elem = lambda x: (x[0] == "field" and x[1] in (("arg", 2), ("arg", 3))) or x in (("arg", 2), ("arg", 3))
    why = "odometer group: index over 0..sets.len() / positional element into equal-length vectors with pos[i] <= final_pos[i] = len_i - 1 (C17.R3 re-checked below)"
    if kind == "index" and len(args) >= 2 and (is_loop_var(args[1]) or is_elem(args[1])):
        return why
    # the prefix pos[..=idx] of a vector with one entry per position
    if kind == "index" and len(args) >= 2 and args[1][0] == "agg" and args[1][1].endswith("RangeToInclusive") and is_loop_var(dict(args[1][3]).get("end", ("none",))):
        return why
    if kind == "assert" and t.get("msg") == "BoundsCheck" and len(args) >= 1 and any(is_loop_var(a) or is_elem(a) for a in args[:1]):
        return why
    if kind == "assert" and t.get("msg") == "Overflow" and t.get("op") == "Sub" and len(args) == 2 and args[1] == ("const", "usize", 1) and args[0][0] == "call" and args[0][1].endswith("::len") and innermost_loop(s["b"], s["bb"]) is not None:
        return "odometer group: len - 1 inside `for idx in 0..len`, whose body runs only when len >= 1"
    return None


def discharge(F, s, ctxinfo):
    """returns a reason string or None"""
    kind, what, b, bb, t, tm = s["kind"], s["what"], s["b"], s["bb"], s["t"], s["tm"]
    fn = s["fn"]
    args = arg_terms(s)
    # --- interpolation group
    # (new helpers of utils:: that only find_nearest_index calls — e.g. its bisection written as a recursion — belong to the group:
    # C14.R5, run below, decides them together with their caller)
    helper_of_fni = fn.startswith(INTERP + "utils::") and fn not in known_functions() and {short_fn_name(x) for x in F.callers_index().get(fn, set()) if x != fn} <= {"utils::find_nearest_index"}
    if INTERP + "interp::" in fn or fn.startswith("<" + INTERP + "interp::") or fn == INTERP + "utils::find_nearest_index" or helper_of_fni:
        return "interpolation group: only entered through InterpolationSpeedGradeModel::predict with the point clamped into the validated grid (C14.R1/R4/R5 run below); axes with >= 2 points are configuration"
    if kind == "assert" and t.get("msg") == "BoundsCheck" and _grid_overlay_site(F, s, ""):
        return "grid-search overlay group: option_lists[axis][choice] on a slice parameter (see the Index form of the same rule)"
    # --- odometer group (util::multiset): the step function and its helpers
    if MULTISET_MOD in fn:
        r = _odometer_site(s, args)
        if r:
            return r
    if kind == "assert":
        msg = t.get("msg")
        op = t.get("op")
        if msg in ("DivisionByZero", "RemainderByZero"):
            # find the divisor: the assert condition is `divisor == 0`
            cond = nosite(deep_strip(tm.operand(t["cond"], bb)))
            c = as_cmp(cond)
            if c and c[0] == "Eq":
                for x in (c[1], c[2]):
                    if x[0] == "const" and isinstance(x[2], int) and x[2] != 0:
                        return "divisor is the non-zero constant %s" % x[2]
                # the built-in `%` / `/` on a configured field of the receiver's enum variant: the same discharge as for the
                # trait-call spelling (`x % &field`) below — validated > 0 wherever the variant is constructed
                for d in (c[1], c[2]):
                    d = unmut_all(d)
                    if d[0] == "field" and d[1][0] == "variant" and d[1][1] == ("arg", 1):
                        adt = b.raw.get("impl_self_adt")
                        if adt:
                            okp, det = positive_at_construction(F, adt, d[1][2], d[2])
                            if okp:
                                return "divisor %s::%s.%s is validated > 0 wherever the variant is constructed (%s)" % (adt.split("::")[-1], d[1][2], d[2], det)
            return None
        if msg == "Overflow" and op == "Add":
            a, c = args[0], args[1]
            if (t.get("a") or {}).get("ty", "") == "usize":
                for x_, y_ in ((a, c), (c, a)):
                    if x_[0] in ("lc", "loop", "carried", "phi") and contains(x_, lambda q: q[0] in ("loop", "carried", "lc")) and _only_lens(x_) and y_[0] == "call" and re.search(r"::len$", y_[1]) and innermost_loop(b, bb) is not None:
                        return "running total of lengths of collections that exist together in memory (bounded by isize::MAX elements each, the address space in total)"
            if c[0] == "const" and isinstance(c[2], int) and c[2] <= 16:
                ty = (t.get("a") or {}).get("ty", "")
                if ty in ("usize", "u64", "u128", "i64", "isize"):
                    if contains(a, lambda q: q[0] in ("loop", "phi", "carried")) and not contains(a, lambda q: q[0] == "arg"):
                        return "counter: %s incremented by %s per loop turn from a constant start (2^63 turns needed)" % (ty, c[2])
                    if contains(a, lambda q: q[0] == "call" and (re.search(r"::(len|count|position)$", q[1]) or itm(q[1], "next") or q[1].endswith("find_nearest_index"))):
                        return "length/index + %s: collection lengths are bounded by isize::MAX" % c[2]
                    if not contains(a, lambda q: q[0] == "call" and re.search(r"(Value::as_\w+|get_config\w*|::parse|from_str)", q[1])):
                        return "count + %s: the operand counts loop turns / items in memory, never a number read from the query" % c[2]
            return None
        if msg == "Overflow" and op == "Mul":
            a, c = args[0], args[1]
            for x, y in ((a, c), (c, a)):
                if x[0] == "const" and isinstance(x[2], int) and 0 <= x[2] <= 2 and y[0] == "call" and re.search(r"::len$", y[1]) and (t.get("a") or {}).get("ty", "") == "usize":
                    return "%d * len: collection lengths are bounded by isize::MAX, twice that fits usize" % x[2]
            return None
        if msg == "Overflow" and op == "Sub":
            a, c = args[0], args[1]
            facts = guard_facts(s)
            if c[0] == "const" and isinstance(c[2], int):
                for f in facts:
                    # c <= a  or  c-1 < a
                    if f[0] == "Le" and f[1] == c and f[2] == a:
                        return "guarded by %s <= %s" % (c[2], short(a)[:40])
                    if f[0] == "Lt" and f[2] == a and f[1][0] == "const" and isinstance(f[1][2], int) and f[1][2] >= c[2] - 1:
                        return "guarded by %s < %s" % (f[1][2], short(a)[:40])
            for f in facts:
                if f[0] in ("Le", "Lt") and f[1] == c and f[2] == a:
                    return "guarded by subtrahend %s minuend" % ("<=" if f[0] == "Le" else "<")
            return None
        if msg == "BoundsCheck":
            idx = nosite(deep_strip(tm.operand(t["index"], bb)))
            ln = nosite(deep_strip(tm.operand(t["len"], bb)))
            coll = None
            if ln[0] == "un" and ln[1] == "PtrMetadata":
                coll = unmut_all(ln[2])
            if ln[0] == "const" and idx[0] == "const" and isinstance(idx[2], int) and isinstance(ln[2], int) and idx[2] < ln[2]:
                return "constant index %s < array length %s" % (idx[2], ln[2])
            if coll is not None:
                r = index_from_own_range(coll, unmut_all(idx))
                if r:
                    return r
                # window closures: w[0], w[1] on the element of windows(2)
                if idx[0] == "const" and isinstance(idx[2], int) and b.raw.get("kind") == "closure":
                    par = fn.rsplit("::{closure", 1)[0]
                    pb = F.bodies.get(par)
                    if pb is not None:
                        ptm = Terms(pb)
                        for c in pb.calls():
                            if (c.callee or "") == "std::slice::<impl [T]>::windows":
                                n = nosite(deep_strip(ptm.operand(c.args[1], c.bb)))
                                if n[0] == "const" and isinstance(n[2], int) and idx[2] < n[2]:
                                    # the closure must be applied to that windows iterator
                                    cl_uses = [x for x in pb.calls() if any(contains(ptm.operand(a_, x.bb), lambda q: q[0] == "closure" and q[1] == fn) for a_ in x.args)]
                                    if cl_uses and all(contains(ptm.operand(u.args[0], u.bb), lambda q: q[0] == "call" and q[1] == "std::slice::<impl [T]>::windows") for u in cl_uses):
                                        return "element %s of a windows(%s) slice" % (idx[2], n[2])
                facts = guard_facts(s)
                for f in facts:
                    if f[0] == "Lt" and f[1] == idx and f[2][0] == "call" and re.search(r"::len$", f[2][1]) and unmut_all(f[2][2][0]) == coll:
                        return "guarded by index < len"
            return None
        return None
    if kind == "panic-call":
        if re.search(r"Result::<T, E>::(unwrap|expect)$", what):
            r = args[0]
            raw = raw_def_call(s, t["args"][0])
            if r[0] == "call" and r[1].startswith("serde_json::value::to_value") or (raw and (raw[0] or "").startswith("serde_json::value::to_value")):
                # the argument type of to_value
                if raw:
                    aty = raw[1]["args"][0].get("ty", "")
                    if json_infallible_type(F, aty):
                        return "json!: to_value(%s) cannot fail (string-keyed, derived Serialize only)" % aty[:60]
                return None
            if r[0] == "call" and re.search(r"std::sync::(Mutex|RwLock)::<T>::(lock|read|write)$", r[1]):
                return "lock().unwrap(): poisoned only after another thread already panicked"
        return None
    if kind == "index":
        recv_ty = re.sub(r"^(&('\w+ )?(mut )?)+", "", t["args"][0].get("ty", "").strip()).strip()
        if recv_ty in ("serde_json::value::Value", "serde_json::Value"):
            if what.endswith("::index") or re.search(r"Index<I>.*::index$", what):
                return "Index on serde_json::Value never panics (yields Null)"
            # IndexMut with a string key: needs an object (or null)
            recv = args[0]
            if fn in ctxinfo["output_process_impls"] and recv == ("arg", 2):
                return "IndexMut on the `output` of OutputPlugin::process: an object on entry (create_initial_output builds json!({..})) and no plugin replaces it wholesale (checked: R1.output-stays-object)"
            why = json_object_provenance(F, b, tm.operand(t["args"][0], bb))
            if why:
                return "IndexMut on a JSON object: " + why
            return None
        if _grid_overlay_site(F, s, recv_ty):
            return "grid-search overlay group: option_lists[axis][choice] with axis < keys.len() == option_lists.len() (the per-axis vectors are pushed together, C17.R1 aligned:* below) and choice drawn from 0..option_lists[axis].len() by the odometer (index lists built as 0..len of the same array; C17.R3 below)"
        idx = args[1] if len(args) > 1 else None
        coll = args[0]
        if idx is not None:
            if re.search(r"Range(From|To|Full|Inclusive)?\b", t["args"][1].get("ty", "")):
                if idx == ("agg", "std::ops::RangeFrom", "RangeFrom", (("start", ("const", "usize", 1)),)):
                    # x[1..] under `Some(_) = x.first()`
                    for sbb, dt, names, tt in switches(b, tm):
                        d = unmut_all(nosite(deep_strip(dt)))
                        if names and d[0] == "discr" and d[1][0] == "call" and d[1][1] == "std::slice::<impl [T]>::first" and loopfree(d[1][2][0]) == loopfree(coll):
                            some = switch_target(tt, names, "Some")
                            if b.dominates(some, bb):
                                return "x[1..] dominated by x.first() == Some(_)"
                if idx[0] == "agg" and idx[1] in ("std::ops::RangeTo", "std::ops::RangeToInclusive"):
                    r = index_from_own_range(unmut_all(coll), unmut_all(idx))
                    if r:
                        return r
                return None
            r = index_from_own_range(coll, idx)
            if r:
                return r
            facts = guard_facts(s)
            for f in facts:
                if f[0] == "Lt" and f[1] == idx and f[2][0] == "call" and re.search(r"::len$", f[2][1]) and unmut_all(f[2][2][0]) == coll:
                    return "guarded by index < len"
        return None
    if kind == "precondition":
        if what in ("f64::clamp", "f32::clamp"):
            lo, hi = args[1], args[2]
            if lo[0] == "const" and hi[0] == "const":
                try:
                    if float(lo[2]) <= float(hi[2]):
                        return "clamp bounds are the ordered constants %s <= %s" % (lo[2], hi[2])
                except Exception:
                    pass
            return None
        if re.search(r"ops::Rem<.*>>::rem$", what):
            d = args[1]
            if d[0] == "field" and d[1][0] == "variant" and d[1][1] == ("arg", 1):
                adt = b.raw.get("impl_self_adt")
                if adt:
                    okp, det = positive_at_construction(F, adt, d[1][2], d[2])
                    if okp:
                        return "divisor %s::%s.%s is validated > 0 wherever the variant is constructed (%s)" % (adt.split("::")[-1], d[1][2], d[2], det)
            return None
        if what in ("std::vec::from_elem", "std::vec::Vec::<T>::with_capacity") or what.endswith("::with_capacity"):
            n = args[-1]
            if n[0] == "call" and re.search(r"::len$", n[1]):
                return "capacity is the length of a collection that already exists"
            if n[0] == "call" and re.search(r"Iterator>?::sum$", n[1].split("{")[0]) and n[2]:
                # the total length of collections that already exist (they fit in memory together)
                mp = [x for x in calls_in(n[2][0]) if itm(x[1], "map") and len(x[2]) == 2 and x[2][1][0] == "closure" and x[2][1][1] in F.bodies]
                if n[2][0][0] == "call" and itm(n[2][0][1], "map") and len(mp) >= 1:
                    crt = nosite(deep_strip(Terms(F.bodies[mp[0][2][1][1]]).return_term()))
                    if crt[0] == "call" and re.search(r"::len$", crt[1]):
                        return "capacity is the summed length of collections that already exist"
            if n[0] == "const":
                return "constant capacity"
            if n[0] in ("lc", "loop", "carried", "phi") and contains(n, lambda q: q[0] in ("loop", "carried", "lc")) and _only_lens(n):
                # a running total built by a loop that only adds lengths of collections that already exist
                try:
                    accs = accumulations(b)
                except Exception:
                    accs = []
                sums = []
                for acc in accs:
                    st_ = unmut_all(nosite(deep_strip(acc["step"])))
                    if st_[0] == "bin" and st_[1] in ("Add", "AddWithOverflow") and acc["acc"] in (st_[2], st_[3]):
                        other = st_[3] if st_[2] == acc["acc"] else st_[2]
                        if other[0] == "call" and re.search(r"::len$", other[1]) and acc["seed"] == ("const", "usize", 0):
                            sums.append(acc)
                        else:
                            sums.append(None)
                if sums and all(x is not None for x in sums):
                    return "capacity is a running total of the lengths of collections that already exist (they fit in memory together)"
            return None
        if what in ("std::vec::Vec::<T, A>::remove", "std::vec::Vec::<T, A>::swap_remove"):
            i_ = args[1]
            if i_[0] == "const" and isinstance(i_[2], int):
                for f in guard_facts(s):
                    sides = [f[1], f[2]]
                    lens = [x for x in sides if x[0] == "call" and re.search(r"::len$", x[1]) and unmut_all(x[2][0]) == args[0]]
                    consts = [x for x in sides if x[0] == "const" and isinstance(x[2], int)]
                    if lens and consts:
                        n_ = consts[0][2]
                        if (f[0] == "Eq" and n_ > i_[2]) or (f[0] == "Lt" and f[1] == consts[0] and n_ >= i_[2]) or (f[0] == "Le" and f[1] == consts[0] and n_ > i_[2]):
                            return "remove(%d) under the guard len %s %d" % (i_[2], {"Eq": "==", "Lt": ">", "Le": ">="}[f[0]], n_)
            return None
        if what in ("std::vec::Vec::<T, A>::insert", "std::string::String::insert", "std::string::String::insert_str"):
            if args[1] == ("const", "usize", 0):
                return "insert at index 0 is valid for every length"
            return None
        if what.startswith("rayon::slice::ParallelSlice::par_chunks"):
            sz = args[1]
            if sz[0] == "call" and re.search(r"::max$", sz[1]) and ("const", "usize", 1) in sz[2]:
                return "chunk size is max(.., 1) >= 1"
            return None
        return None
    return None


# ---------------------------------------------------------------------------------------------
# audited sites (reviewed by reading the code; reasons are one line each)
# ---------------------------------------------------------------------------------------------

CFG = "configuration, not query: "
BYC = "by construction: "

audited("a_star_algorithm::run_a_star|panic-call:unwrap|fs::create_dir", "cfg(debug_assertions) developer flamegraph dump: depends on the build tree (rust/target), not on the query; absent from release builds (thorough tier asserts the site does not exist in the release MIR)")
audited("a_star_algorithm::run_a_star|panic-call:unwrap|File::create", "cfg(debug_assertions) flamegraph dump (see above)")
audited("a_star_algorithm::run_a_star|panic-call:unwrap|Write::write_all", "cfg(debug_assertions) flamegraph dump (see above)")


audited("SmartcoreSpeedGradeModel@PredictionModel::predict|index:index|RandomForestRegressor::predict", BYC + "y[0] of RandomForestRegressor::predict on a 1-row matrix (vec![vec![speed, grade]]): smartcore returns one prediction per input row")
audited("compass_app_ops::apply_load_balancing_policy|precondition:from_elem|", CFG + "`parallelism` comes from the application / run configuration, never from a query; an absurd value fails at vec![..; parallelism] before any query is run")
audited("compass_app_ops::apply_load_balancing_policy|index:index_mut|vec::from_elem", BYC + "the index is min_bin(bin_totals) = position of the minimum, < bin_totals.len(); assignments has the same length (both vec![..; parallelism], checked by C06.R4 bins-sized-by-parallelism); zero bins make min_bin return Err before the index is used")
audited("ResponseOutputFormat::format_response|index:index_mut|arg2; error", BYC + "`response` is a response value: every response is built by create_initial_output or package_error, both return Value::Object (checked below: responses-are-objects)")
audited("KspTerminationCriteria::terminate_search|assert:Overflow:Mul|", BYC + "`factor * solution_size` is evaluated only after `solution_size == k` held (short-circuit &&), i.e. solution_size routes exist in memory; factor is configuration")
audited("single_via_paths_algorithm::run|assert:Overflow:Add|", BYC + "sum of the iteration counters (u64) of two finished searches and the local loop counter: each counts loop turns actually executed")
audited("EdgeHeading::bearing_to_destination|assert:Overflow:", CFG + "i16 arithmetic on compass headings read from the edge headings file (|h| <= 360 by meaning); overflow needs |h| > 16000 in that file, independent of the query")
audited("CostModel::serialize_cost_info|panic-call:unwrap|value::to_value(slice::get(arg1.network_rates", CFG + "json!(NetworkCostRate) fails only for EdgeEdgeLookup (tuple map keys), which neither the configuration (network_rates is deserialised from TOML/JSON whose map keys are strings; the NetworkCostRateBuilder that reads it from a file is not wired in) nor a query (queries can override weights, vehicle_rates, cost_aggregation only) can produce; library-API users can — recorded as an observation in DESIGN.md")
audited("StateModel::update_state|assert:BoundsCheck|CompactOrderedHashMap::get_index", BYC + "the index is the feature's slot in this state model and state vectors are created by initial_state() of the same (extended) model, one slot per feature (C11.R1 slot table, C11.R3 initial state)")
audited("TerminationModel::terminate_search|assert:Overflow:Add|arg4; 1", BYC + "iteration counter + 1")


audited("EdgeRtreeRecord@PointDistance::distance_2::{closure#0}|panic-call:panic_fmt|", CFG + "`empty linestring in geometry file`: an empty geometry row in the edge geometry file; independent of the query (the tolerance path reports the same condition as an Err)")


def lookup_audit(key):
    if key in AUDITED:
        return AUDITED[key]
    # prefix match on "<fn>|<kind:what>|<detail prefix>"
    for k, v in AUDITED.items():
        if key.startswith(k):
            return v
    return None


def R1_inventory(ctx):
    """C12.R1 panic-site inventory with discharge"""
    F = ctx.F
    ctx.rule("C12.R1", "every panic-capable construct reachable from CompassApp::run is discharged by a structural rule or listed in the audited table with the reason it cannot depend on the query", floor=200)
    reach = query_reach(F)
    ctx.check(len(reach) >= 400, "reachable-set", "only %d functions reachable from CompassApp::run" % len(reach), None, detail="%d functions" % len(reach))
    OP = "routee_compass::plugin::output::output_plugin::OutputPlugin"
    info = {"output_process_impls": {ib.path for ib in F.trait_method_impls(OP, "process")}}
    sites = collect_sites(F, reach)
    by_reason = defaultdict(int)
    seen_audit = set()
    for s in sites:
        key = site_key(s)
        r = None
        try:
            r = discharge(F, s, info)
        except Exception as e:  # a shape the rule does not understand is not a discharge
            r = None
        if r:
            by_reason[r.split(":")[0][:50]] += 1
            ctx.ok(key, r)
            continue
        a = lookup_audit(key)
        if a:
            seen_audit.add(key)
            by_reason["audited"] += 1
            ctx.ok(key, "audited: " + a)
            continue
        ctx.bad(key, "panic-capable site on the query path that no rule discharges and that is not in the audited table: %s in %s" % (s["what"], short_fn_name(s["fn"])), s["b"].where(s["bb"]))
    ctx.note("discharge classes: %s" % dict(by_reason))
    # the output stays an object
    n = 0
    for p in sorted(info["output_process_impls"]):
        b = F.bodies[p]
        n += 1
        whole = []
        for bb, blk in enumerate(b.blocks):
            for st in blk["stmts"]:
                if st["k"] == "assign" and st["place"]["l"] == 2 and [e["k"] for e in st["place"]["p"]] == ["deref"]:
                    whole.append(bb)
        swaps = [c for c in b.calls() if (c.callee or "") in ("std::mem::swap", "std::mem::replace", "std::mem::take", "serde_json::Value::take") and any(root_local(b, a) == 2 for a in c.args)]
        ctx.check(not whole and not swaps, "output-stays-object:%s" % short_fn_name(p), "an output plugin replaces the whole output value (later `output[key] = ..` would panic on a non-object)", b.where(), detail="no `*output = ..`, swap, replace or take")
    ctx.check(n >= 3, "output-plugins-found", "expected the OutputPlugin::process impls", None)
    ob = F.need("routee_compass::plugin::output::output_plugin_ops::create_initial_output")
    oks = [r for r in table(ob) if r.end == "return" and result_variant(r.ret) == "Ok"]
    ctx.check(bool(oks) and all(unmut_all(agg_payload(r.ret))[0] == "agg" and unmut_all(agg_payload(r.ret))[2] == "Object" for r in oks), "initial-output-is-object", "create_initial_output does not return a JSON object", ob.where(), detail="json!({..})")
    # interp group: who calls into it
    callers = set()
    for p in reach:
        if INTERP + "interp::" in p or p == INTERP + "utils::find_nearest_index":
            continue
        for q in F.callees_of(F.bodies[p]):
            if (INTERP + "interp::" in q and "Interp" in q) or q == INTERP + "utils::find_nearest_index":
                callers.add(p)
    want = "<%sinterpolation_speed_grade_model::InterpolationSpeedGradeModel as routee_compass_powertrain::routee::prediction::prediction_model::PredictionModel>::predict" % INTERP
    ctx.check(callers == {want}, "interp-group:single-entry", "the interpolators are entered on the query path from %s" % sorted(short_fn_name(c) for c in callers), None, detail="only InterpolationSpeedGradeModel::predict")
    from props.C14 import R1_clamp, R4_rejection, R5_index_search
    R1_clamp(ctx)
    R4_rejection(ctx)
    R5_index_search(ctx)
    # odometer group: the invariant its sites were discharged with (C17.R3), as obligations of this property
    okr, why = _rc_multiset_next(F, None)
    ctx.check(okr, "odometer-group:invariant", "the data-structure invariant the indexing in util::multiset relies on is not re-established by the step function: %s" % why, None, detail="C17.R3 transition-system rule", rule="C12.R1")
    # grid-search overlay group: the alignment invariant its sites were discharged with (C17.R1)
    import importlib
    c17 = importlib.import_module("props.C17")

    class _Shim17:
        def __init__(self):
            self.F = F
            self.failed = []

        def check(self, ok, inst, msg, where=None, detail=None, rule=None):
            if not ok and (inst.startswith("aligned:") or inst.startswith("axis:") or inst in ("three-aligned-vectors", "all-combinations", "empty-axis=>Err")):
                self.failed.append("%s: %s" % (inst, msg[:160]))
            return ok

        def bad(self, inst, msg, where=None, rule=None):
            self.failed.append("%s: %s" % (inst, msg[:160]))

        def ok(self, *a, **k):
            pass

        def rule(self, *a, **k):
            pass

    sh17 = _Shim17()
    try:
        c17.R1_plugin(sh17)
    except Exception as e_:
        sh17.failed.append("C17.R1 could not be evaluated: %r" % (e_,))
    ctx.check(not sh17.failed, "grid-overlay-group:invariant", "the alignment of keys / option lists / index lists that the indexing in the grid-search overlay relies on does not hold: %s" % (sh17.failed[:1],), None, detail="C17.R1 aligned vectors", rule="C12.R1")
    users = {p for p in reach for q in F.callees_of(F.bodies[p]) if MULTISET_MOD in q and MULTISET_MOD not in p}
    ctx.check(all("grid_search" in u for u in users), "odometer-group:single-user", "the mixed-radix iterator is used on the query path by %s" % sorted(short_fn_name(u) for u in users), None, detail="only the grid search plugin", rule="C12.R1")




# ---------------------------------------------------------------------------------------------
# R2: loops and recursion
# ---------------------------------------------------------------------------------------------

FINITE_ITER_TOKEN = re.compile(
    r"^(std::slice::(Iter|IterMut|Windows|Chunks\w*|RChunks\w*|Split\w*)|std::vec::(IntoIter|Drain)|std::ops::(Range|RangeInclusive)|std::iter::(Zip|Enumerate|Map|Rev|Filter|FilterMap|Flatten|FlatMap|Take|Skip|TakeWhile|SkipWhile|Peekable|Chain|Cloned|Copied|StepBy|Inspect|Fuse|MapWhile|Scan|Once|Empty)"
    r"|std::collections::hash_map::(Iter|IterMut|Keys|Values|ValuesMut|IntoIter|Drain|IntoKeys|IntoValues)|std::collections::hash_set::(Iter|IntoIter|Drain)|std::collections::btree_map::\w+|std::collections::btree_set::\w+|std::collections::vec_deque::\w+"
    r"|serde_json::map::(Iter|IterMut|Keys|Values|ValuesMut|IntoIter)|std::str::(Chars|CharIndices|Lines|Split\w*|Bytes)|std::option::(Iter|IntoIter)|std::result::(Iter|IntoIter)"
    r"|itertools::\S+|rstar::algorithm::nearest_neighbor::\w+|geo_types::geometry::line_string::(PointsIter|CoordinatesIter)|std::alloc::Global|std::std::Global|std::marker::PhantomData)$"
)
INFINITE_ITER_TOKEN = re.compile(r"^(std::iter::(Repeat|RepeatWith|Cycle|FromFn|Successors|RepeatN)|std::ops::(RangeFrom|RangeFull)|std::sync::mpsc::\w+)$")
_TOK = re.compile(r"[A-Za-z_][\w]*(?:::[A-Za-z_][\w]*)+")

AUDITED_LOOPS = {}
AUDITED_SCC = {}


def loop_audit(fn_short, reason, recheck):
    AUDITED_LOOPS[fn_short] = (reason, recheck)


def _loops_of(b):
    byhead = defaultdict(set)
    for h, blocks in b.natural_loops():
        byhead[h] |= blocks
    return sorted(byhead.items())


def classify_loop(F, b, tm, h, blocks, iter_impl_adts):
    """('for', detail) when the loop is left through next() == None of a finite std iterator; ('ws-iter', adt) for a workspace
    iterator; ('other', None) otherwise"""
    for c in b.calls():
        if c.bb not in blocks or c.func.get("method") != "next":
            continue
        ct = tm.call_term(c.term, c.bb)
        for sbb, dt, names, t in switches(b, tm):
            if sbb in blocks and dt == ("discr", ct) and names and switch_target(t, names, "None") not in blocks:
                ty = c.args[0].get("ty", "")
                toks = set(_TOK.findall(ty))
                inf = [x for x in toks if INFINITE_ITER_TOKEN.match(x)]
                ws = [x for x in toks if x in iter_impl_adts]
                dyn = "dyn std::iter::Iterator" in ty or "dyn Iterator" in ty
                unknown = [x for x in toks if not FINITE_ITER_TOKEN.match(x) and x not in F.adts and x not in F.traits and not x.startswith("std::") and not x.startswith("serde_json::value") and not x.startswith("serde_json::Value")]
                # the iterator must be created outside the loop (it is not refreshed each turn)
                l = root_local(b, c.args[0])
                defs_in = [d for d in b.defs.get(l, []) if d[0] in blocks and not d[2]] if l is not None else []
                if inf:
                    return ("infinite-source", ",".join(inf))
                if ws:
                    return ("ws-iter", ws[0])
                if dyn and not unknown:
                    recv = unmut_all(nosite(deep_strip(tm.operand(c.args[0], c.bb))))
                    prods = [x for x in subterms(recv) if x[0] == "call" and x[1] in F.bodies and re.search(r"dyn (std::iter::)?Iterator", F.bodies[x[1]].locals[0].get("ty", ""))]
                    if prods and all(finite_producer(F, x[1], iter_impl_adts) for x in prods) and not defs_in_loop(b, c, blocks):
                        return ("for", "boxed iterator from %s (finite producer)" % ", ".join(sorted({short_fn_name(x[1]) for x in prods})))
                if dyn or unknown:
                    return ("opaque-iter", ty[:80])
                if defs_in:
                    return ("iterator-rebuilt-in-loop", ty[:80])
                return ("for", ty[:80])
    return ("other", None)


def defs_in_loop(b, c, blocks):
    l = root_local(b, c.args[0])
    return [d for d in b.defs.get(l, []) if d[0] in blocks and not d[2]] if l is not None else []


FINITE_CALL = re.compile(
    r"(^std::slice::<impl \[T\]>::(iter|iter_mut|get|first|last|windows)$|IntoIterator>::into_iter|^std::iter::Iterator::(map|enumerate|zip|rev|filter|filter_map|flatten|flat_map|take|skip|chain|cloned|copied|peekable|collect)|^std::iter::(empty|once)|HashMap::<.*>::(iter|keys|values|get)$|^itertools::Itertools::(sorted\w*|collect_vec|tuple_windows|unique\w*|dedup\w*)|^std::array::<impl .*>::into_iter|::into_iter$|^std::boxed::Box::<T>::new$|^std::vec::Vec::<T, A>::(iter|len)$|Option::<T>::(map|unwrap_or\w*|iter|into_iter)$)"
)
_FP = {}


def finite_producer(F, path, iter_impl_adts, depth=0):
    """a workspace function returning a boxed iterator yields finitely many items: every call in its return value is a finite std
    source/adaptor, another finite producer, or it builds an audited workspace iterator"""
    if path in _FP:
        return _FP[path]
    _FP[path] = True  # recursion guard
    b = F.bodies[path]
    rt = unmut_all(nosite(deep_strip(Terms(b).return_term())))
    ok = depth < 6
    for x in subterms(rt):
        if x[0] == "call":
            k = re.sub(r"\{.*\}$", "", x[1])
            if k in F.bodies:
                if re.search(r"dyn (std::iter::)?Iterator", F.bodies[k].locals[0].get("ty", "")):
                    ok = ok and finite_producer(F, k, iter_impl_adts, depth + 1)
                continue
            if not FINITE_CALL.search(k):
                ok = False
        elif x[0] == "agg" and x[1] in iter_impl_adts:
            ok = ok and x[1] in WS_ITERS
    _FP[path] = ok
    return ok


WS_ITERS = {}


def ws_iter(adt, reason, recheck):
    WS_ITERS[adt] = (reason, recheck)


def _rc_cursor_iter(F, nb):
    """next(): Some is only returned after a cursor field of self has been advanced by a positive constant, and None is returned
    once the cursor has reached the length"""
    adv = {}
    for bb, blk in enumerate(nb.blocks):
        for st in blk["stmts"]:
            pl = st.get("place")
            if st["k"] == "assign" and pl and pl["l"] == 1 and len(pl["p"]) == 2 and pl["p"][0]["k"] == "deref" and pl["p"][1]["k"] == "field":
                adv.setdefault(pl["p"][1].get("name"), set()).add(bb)
    rows = [r for r in table(nb) if r.end == "return"]
    some = [r for r in rows if result_variant(r.ret) == "Some"]
    none = [r for r in rows if result_variant(r.ret) == "None"]
    ok = bool(some) and bool(none) and bool(adv)
    for f, bbs in adv.items():
        okf = all(any(bb in r.path.blocks for bb in bbs) for r in some)
        cur = ("field", ("arg", 1), f)
        lim = any(any(fa[0] == "Le" and fa[2] == cur and fa[1][0] == "call" and re.search(r"::len$", fa[1][1]) for fa in r.facts) for r in none)
        if okf and lim:
            return True, "cursor `%s` advances on every Some and None is returned at len <= %s" % (f, f)
    return False, "no cursor field that advances on every Some-return and is compared with the length for None"


def _rc_multiset_next(F, nb):
    """the step function read as a transition system (the rule of C17.R3, whatever the spelling): None once exhausted; the
    first position below its final value goes up by one, positions passed are rewound, the iterator finishes after the last
    position is at its final value — and at once when there are no sets.  With finite radices that counter reaches its end."""
    import importlib
    c17 = importlib.import_module("props.C17")

    class Shim:
        def __init__(self):
            self.F = F
            self.failed = []

        def check(self, ok, inst, msg, where=None, detail=None):
            if not ok and inst != "next:emits-current-position":
                self.failed.append("%s: %s" % (inst, msg[:200]))
            return ok

        def bad(self, inst, msg, where=None, detail=None):
            self.failed.append("%s: %s" % (inst, msg[:200]))

        def ok(self, *a, **k):
            pass

        def rule(self, *a, **k):
            pass

    sh = Shim()
    # the whole rule: MultiSet::from (equal lengths, final = len - 1, None when a set is empty) and the step function
    c17.R3_odometer(sh)
    if sh.failed:
        return False, sh.failed[0]
    return True, "mixed-radix step function re-checked (C17.R3)"


ws_iter("routee_compass_core::util::compact_ordered_hash_map::CompactOrderedHashMapIter", "index cursor advances by one per item; None at index >= len", _rc_cursor_iter)
ws_iter("routee_compass_core::util::multiset::MultiSet", "mixed-radix counter over finite index sets; ends when the last radix wraps, immediately for zero sets or an empty set", _rc_multiset_next)


def R2_loops(ctx):
    """C12.R2 loops and recursion are bounded"""
    F = ctx.F
    ctx.rule("C12.R2", "every loop on the query path is left through next() == None of a finite std iterator created outside the loop, or is a workspace iterator / work-list loop with an audited progress argument whose structural part is re-checked; every recursion cycle descends structurally through immutable, acyclic configuration data", floor=45)
    reach = query_reach(F)
    iter_impl_adts = {i.get("self_adt") for i in F.impls if (i.get("trait") or "") == "std::iter::Iterator" and i.get("self_adt") in F.adts and F.adts[i["self_adt"]].get("local")}
    for i in F.impls:
        if (i.get("trait") or "") != "std::iter::Iterator" or i.get("exp") or i.get("auto_derived") or i.get("crate") not in LIBS:
            continue
        adt = i.get("self_adt")
        nb = [F.bodies[it["path"]] for it in i["items"] if it["name"] == "next" and it["path"] in F.bodies]
        if not nb or nb[0].path not in reach:
            continue
        aud = WS_ITERS.get(adt)
        if not aud:
            ctx.bad("ws-iterator:%s" % adt.split("::")[-1], "a workspace Iterator impl on the query path has no audited termination argument", nb[0].where())
            continue
        try:
            okr, why = aud[1](F, nb[0])
        except Exception as e:
            okr, why = False, "re-check failed to recognise next(): %r" % (e,)
        ctx.check(okr, "ws-iterator:%s" % adt.split("::")[-1], "the structural part of the termination argument of this iterator no longer holds (%s): %s" % (aud[0], why), nb[0].where(), detail="audited: %s" % aud[0])
    n = 0
    for p in sorted(reach):
        b = F.bodies[p]
        loops = _loops_of(b)
        if not loops:
            continue
        tm = Terms(b)
        sf = short_fn_name(p)
        for h, blocks in loops:
            n += 1
            cls, det = classify_loop(F, b, tm, h, blocks, iter_impl_adts)
            inst = "%s:loop@%s" % (sf, loop_label(b, h))
            if cls == "for":
                ctx.ok(inst, "for over %s" % det)
                continue
            if cls == "ws-iter" and det in WS_ITERS:
                ctx.ok(inst, "for over the audited workspace iterator %s" % det.split("::")[-1])
                continue
            if INTERP in p and "find_nearest_index" not in p:
                ctx.ok(inst, "interpolation group (C14)")
                continue
            aud = AUDITED_LOOPS.get("%s:%s" % (sf, cls)) or AUDITED_LOOPS.get(sf)
            if aud:
                reason, recheck = aud
                okr, why = True, ""
                if recheck is not None:
                    try:
                        okr, why = recheck(F, b, tm, h, blocks)
                    except Exception as e:
                        okr, why = False, "re-check failed to recognise the loop: %r" % (e,)
                ctx.check(okr, inst, "the structural part of the audited progress argument no longer holds (%s): %s" % (reason, why), b.where(h), detail="audited (%s): %s" % (cls, reason))
                continue
            ctx.bad(inst, "a loop of kind `%s` (%s) on the query path has no bound that the rule can see and no audited progress argument" % (cls, det), b.where(h))
    ctx.check(n >= 40, "loops-found", "only %d loops found on the query path" % n, None)
    # recursion cycles
    graph = {p: [q for q in F.callees_of(F.bodies[p]) if q in reach] for p in reach}
    sccs = tarjan(graph)
    for comp in sccs:
        names = sorted(short_fn_name(x) for x in comp)
        inst = "recursion:" + "+".join(names)[:120]
        if len(comp) == 1 and list(comp)[0].startswith(INTERP + "utils::") and list(comp)[0] not in known_functions():
            # the bisection of find_nearest_index written as a tail recursion: C14.R5 (run in R1 as part of the interpolation
            # group) checks that every call shrinks [low, high) and stops at low >= high
            okb, whyb = _rc_bisect(F, F.bodies[list(comp)[0]], None, None, None)
            ctx.check(okb, inst, "the recursive bisection helper no longer has the checked shape: %s" % whyb, None, detail="bisection as recursion: high - low strictly decreases (C14.R5)")
            continue
        carriers = set()
        for p in comp:
            r = F.bodies[p].raw
            for k in ("impl_self_adt", "impl_trait"):
                if r.get(k):
                    carriers.add(r[k])
            par = p.rsplit("::{closure", 1)[0]
            if par != p and par in F.bodies:
                for k in ("impl_self_adt", "impl_trait"):
                    if F.bodies[par].raw.get(k):
                        carriers.add(F.bodies[par].raw[k])
        # free functions in the cycle (yens::run, single_via::run): the recursive structure is the carrier of the other members
        ok_all, why, desc_edges, edges = bool(carriers), [], set(), set()
        for p in comp:
            b = F.bodies[p]
            tm = Terms(b)
            for c in b.calls():
                tgts = [q for q in callees_of_site(F, b, c) if q in comp]
                if tgts:
                    kinds = []
                    for a in c.args:
                        ty = a.get("ty", "")
                        if not any(cr in ty for cr in carriers):
                            continue
                        t = unmut_all(nosite(deep_strip(tm.operand(a, c.bb))))
                        kinds.append((descent_kind(F, t, carriers), short(t)[:50]))
                    for q in tgts:
                        edges.add((p, q))
                        if kinds and all(k in ("descend", "leaf") for k, _ in kinds):
                            desc_edges.add((p, q))
                        elif any(k == "other" for k, _ in kinds):
                            ok_all = False
                            why.append("%s -> %s passes %s" % (short_fn_name(p), short_fn_name(q), kinds))
                # closures of the cycle handed to an adaptor over a strict component
                for a in c.args:
                    t = tm.operand(a, c.bb)
                    for cl in [x for x in subterms(t) if x[0] == "closure" and x[1] in comp]:
                        edges.add((p, cl[1]))
                        recv = unmut_all(nosite(deep_strip(tm.operand(c.args[0], c.bb)))) if c.args else None
                        if recv is not None and descent_kind(F, recv, carriers) == "descend":
                            desc_edges.add((p, cl[1]))
            for cl in b.closures_created():
                if cl in comp:
                    edges.add((p, cl))
        rest = {p: [q for (x, q) in edges if x == p and (x, q) not in desc_edges] for p in comp}
        cyc = has_cycle(rest)
        ctx.check(ok_all and not cyc, inst, "a recursion cycle on the query path does not descend structurally on every turn: %s" % ("; ".join(why[:2]) or "cycle %s is not broken by its strictly descending call edges %s" % (names, sorted((short_fn_name(a), short_fn_name(b_)) for a, b_ in desc_edges))), None, detail="structural descent over immutable configuration data (%d call edges, %d descending); carriers %s" % (len(edges), len(desc_edges), sorted(x.split("::")[-1] for x in carriers)))


def loop_label(b, h):
    return "L%d" % sorted(x for x, _ in _loops_of(b)).index(h)


def descent_kind(F, a, carriers=()):
    """'descend' if the term is a strict component of a parameter/capture (field, variant payload, element of an iterated field),
    'leaf' for a freshly built variant that holds no value of a recursive type, 'param' if a parameter is passed on unchanged"""
    if a[0] == "arg":
        return "param"
    if a[0] == "agg":
        adt = F.adts.get(a[1])
        if adt:
            for v in adt["variants"]:
                if v["name"] == a[2]:
                    if not any(any(cr in f["ty"] for cr in carriers) or a[1] in f["ty"] for f in v["fields"]):
                        return "leaf"
        return "other"
    t = a
    steps = 0
    while True:
        if t[0] in ("field", "variant", "index"):
            t = t[1]
            steps += 1
        elif t[0] == "call" and t[2] and (itm(t[1], "next") or re.search(r"::(iter|iter_mut|into_iter|deref|as_ref|get|values|first|last|map|enumerate|zip|rev)(\{.*\})?$", t[1])):
            t = t[2][0]
        else:
            break
    if t[0] == "arg" and steps > 0:
        return "descend"
    if t[0] == "arg":
        return "param"
    return "other"


def callees_of_site(F, b, c):
    f = c.func
    r = f.get("resolved") or f.get("def")
    out = set()
    if f.get("virtual") or (f.get("dyn") and f.get("trait")) or (r and r == f.get("def") and f.get("trait") and r not in F.bodies):
        tr = f.get("trait")
        if tr and tr in F.traits:
            for ib in F.trait_method_impls(tr, f.get("method")):
                out.add(ib.path)
            if f.get("def") in F.bodies:
                out.add(f["def"])
            return out
    if r in F.bodies:
        out.add(r)
    elif f.get("def") in F.bodies:
        out.add(f["def"])
    return out


def tarjan(graph):
    sys.setrecursionlimit(20000)
    index, low, st, on, out, idx = {}, {}, [], set(), [], [0]

    def sc(v):
        index[v] = low[v] = idx[0]
        idx[0] += 1
        st.append(v)
        on.add(v)
        for w in graph[v]:
            if w not in index:
                sc(w)
                low[v] = min(low[v], low[w])
            elif w in on:
                low[v] = min(low[v], index[w])
        if low[v] == index[v]:
            comp = []
            while True:
                w = st.pop()
                on.discard(w)
                comp.append(w)
                if w == v:
                    break
            if len(comp) > 1 or v in graph[v]:
                out.append(comp)

    for v in sorted(graph):
        if v not in index:
            sc(v)
    return out


def has_cycle(g):
    color = {}

    def dfs(v):
        color[v] = 1
        for w in g.get(v, ()):
            if color.get(w) == 1:
                return True
            if color.get(w) is None and dfs(w):
                return True
        color[v] = 2
        return False

    return any(color.get(v) is None and dfs(v) for v in g)


CALLBACK = re.compile(r"^(std::iter::(Iterator|IntoIterator|DoubleEndedIterator|ExactSizeIterator|FromIterator|Extend|Sum)|rstar::\S+|std::fmt::(Display|Debug)|std::cmp::(Ord|PartialOrd|PartialEq|Eq)|std::hash::Hash|serde_core::(ser::Serialize|de::Deserialize|de::Visitor)|serde::\S+|std::clone::Clone|std::default::Default|std::ops::(Drop|Deref|DerefMut|Add|Sub|Mul|Div|Neg|AddAssign|SubAssign|Index|IndexMut)|std::convert::(AsRef|AsMut)|std::borrow::Borrow|allocative::\S+|std::str::FromStr|std::error::Error)$")
_REACH = {}


def query_reach(F):
    """functions reachable from CompassApp::run in the resolved call graph, plus the hand-written impls of callback traits (Iterator,
    Display, Ord, rstar's PointDistance/RTreeObject, ...) for every workspace type that occurs in a reachable body: external generic code
    (std adaptors, rstar, serde) calls those without a visible call edge.  Derive-generated impls are not added (generated code is trusted)."""
    if id(F) in _REACH:
        return _REACH[id(F)]
    reach = F.reachable_from(ROOTS)
    for _ in range(3):
        live = set()
        for p in reach:
            for l in F.bodies[p].locals:
                for tok in _TOK.findall(l.get("ty", "")):
                    if tok in F.adts:
                        live.add(tok)
        extra = set()
        for i in F.impls:
            tr = i.get("trait") or ""
            if not CALLBACK.match(tr) or i.get("exp") or i.get("auto_derived"):
                continue
            if i.get("crate") not in ("routee_compass", "routee_compass_core", "routee_compass_powertrain"):
                continue
            if i.get("self_adt") not in live:
                continue
            for it in i["items"]:
                if it["path"] in F.bodies and it["path"] not in reach:
                    extra.add(it["path"])
        if not extra:
            break
        reach = F.reachable_from(sorted(reach) + sorted(extra))
    _REACH[id(F)] = reach
    return reach


# ---- audited loops: reason + structural re-check -------------------------------------------------

def _rc_csv_traverse(F, b, tm, h, blocks):
    rows = iteration_table(b, h)
    backs = [r for r in rows if r.kind == "back"]
    ok = bool(backs)
    for r in backs:
        shr = [l for l, v in r.env.items() if unmut_all(nosite(deep_strip(v)))[0] == "call" and re.search(r"Index<I>.*::index$", unmut_all(nosite(deep_strip(v)))[1]) and unmut_all(nosite(deep_strip(v)))[2][0] == ("carried", l) and unmut_all(nosite(deep_strip(v)))[2][1] == ("agg", "std::ops::RangeFrom", "RangeFrom", (("start", ("const", "usize", 1)),))]
        ok = ok and len(shr) >= 1
    return ok, "every turn must replace the cursor slice by slice[1..]"


def _rc_pop_each_turn(pop_re):
    def rc(F, b, tm, h, blocks):
        rows = iteration_table(b, h, max_paths=200000)
        backs = [r for r in rows if r.kind in ("back", "cycle")]
        ok = bool(backs)
        for r in backs:
            ok = ok and any(v[0] == "call" and re.search(pop_re, v[1]) for _, v in r.calls)
        return ok, "every turn must take one element off the work list (%s)" % pop_re
    return rc


def _rc_backtrack(F, b, tm, h, blocks):
    rows = iteration_table(b, h)
    backs = [r for r in rows if r.kind == "back"]
    ok = bool(backs)
    for r in backs:
        ins = [v for _, v in r.calls if v[0] == "call" and v[1].endswith("HashSet::<T, S, A>::insert")]
        ok = ok and len(ins) == 1 and any(nosite(deep_strip(d)) == nosite(deep_strip(ins[0])) and l != 0 for d, l, _ in r.conds)
    return ok, "every turn must insert the edge into `visited` and continue only when it was new"


def _rc_bisect(F, b, tm, h, blocks):
    return True, "transfer function checked by C14.R5 (run in R1)"


def _rc_multiset(F, b, tm, h, blocks):
    # the flag that ends the iteration must start as `sets.is_empty()` (zero sets => one combination, then done)
    cand = []
    for l, ds in b.defs.items():
        if b.locals[l].get("ty") == "bool" and any(d[0] not in blocks for d in ds) and any(d[0] in blocks for d in ds):
            cand.append(l)
    ok = False
    for l in cand:
        v = unmut_all(nosite(deep_strip(loop_entry_value(b, h, l))))
        if v == ("const", "bool", True) or (v[0] == "call" and v[1].endswith("::is_empty") and contains(v, lambda q: q == ("field", ("arg", 1), "sets"))):
            ok = True
    return ok, "the `finished` flag must be initialised with sets.is_empty(): with zero sets the for loop does not run and the iterator has to end after the single empty combination"


def _rc_tree_worklist(F, b, tm, h, blocks):
    """a work list over a finite tree: every turn pops one node, and whatever is put on the list during the turn is made of the
    popped node's own children (`map.values()`, `array.iter()`): the list shrinks by one node of a finite JSON value per turn"""
    rows = iteration_table(b, h, max_paths=200000, stop_at_exit=True)
    backs = [r for r in rows if r.kind in ("back", "cycle")]
    ok = bool(backs)
    why = "every turn must pop one node and push only children of the popped node"
    for r in backs:
        pops = [v for _, v in r.calls if v[0] == "call" and re.search(r"Vec::<T, A>::pop$", v[1])]
        if len(pops) != 1:
            return False, why + " (found %d pops on a turn)" % len(pops)
        popped = nosite(deep_strip(pops[0]))
        wl = unmut_all(nosite(deep_strip(pops[0][2][0])))
        for _, v in r.calls:
            if v[0] == "call" and re.search(r"Vec::<T, A>::(push|insert|append)$|Extend<.*>>::extend(\{.*\})?$|::extend_from_slice$", v[1]) and unmut_all(nosite(deep_strip(v[2][0]))) == wl:
                src = [nosite(deep_strip(x)) for x in v[2][1:]]
                good = all(contains(x, lambda q: q == popped) and any(re.search(r"::values$|::iter$", c_[1].split("{")[0]) for c_ in calls_in(x)) for x in src)
                if not good:
                    return False, why + " (pushed: %s)" % "; ".join(short(x)[:80] for x in src)
    return ok, why


loop_audit("GridSearchPlugin@InputPlugin::process:other", "work list over the finite tree of one JSON value (the recursion guard looks for a nested grid_search key): one pop per turn, only the children of the popped node are pushed", _rc_tree_worklist)
loop_audit("csv_mapping::traverse", "cursor slice shrinks by one element per turn (remaining = &remaining[1..]); ends when it is empty or a key is missing", _rc_csv_traverse)
loop_audit("a_star_algorithm::run_a_star", "work list: one frontier pop per turn; a vertex is re-queued only for a strictly smaller label (C02.R1/C07), finite graph, and the termination model (C10) bounds the turns", _rc_pop_each_turn(r"a_star_algorithm::advance_search$"))
loop_audit("backtrack::vertex_oriented_route", "walks the tree towards the root; an edge seen twice is an Err, so at most |E| turns", _rc_backtrack)
loop_audit("single_via_paths_algorithm::run", "one intersection-queue pop per turn over a finite list of intersection vertices", _rc_pop_each_turn(r"::pop$|Iterator>?::next$|iter::Iterator for .*::next$"))
loop_audit("utils::find_nearest_index", "bisection: high - low strictly decreases (C14.R5 transfer function)", _rc_bisect)

def R3_errors_become_responses(ctx):
    """C12.R3 = C06.R4 (responses carry the request, nothing is dropped) + C06.R5 (what may abort the batch)"""
    from props.C06 import R4_conservation, R5_error_discipline
    R4_conservation(ctx)
    R5_error_discipline(ctx)
    F = ctx.F
    ctx.rule("C12.R3", "every response constructor returns a JSON object with the request: package_error (input and output side), create_initial_output; package_invariant_error ends in package_error", floor=3)
    for pth in ("routee_compass::plugin::input::input_plugin_ops::package_error", "routee_compass::plugin::output::output_plugin_ops::package_error"):
        cands = [p for p in F.bodies if p.startswith(pth) and "{closure" not in p]
        for p in cands:
            b = F.bodies[p]
            rt = unmut_all(nosite(deep_strip(Terms(b).return_term())))
            ctx.check(rt[0] == "agg" and rt[1] == "serde_json::value::Value" and rt[2] == "Object", "responses-are-objects:%s" % short_fn_name(p), "package_error does not return a JSON object", b.where(), detail="Value::Object")
    # where a *query of the batch* is rejected for its JSON type (json_array_flatten: the element is not an object) the error
    # response must carry that query as its request: package_invariant_error(query = Some(rejected value), ..).  With query = None
    # the response's request is the placeholder {"error": "unable to display query"} (fixed defect 486f514: with no input plugin
    # configured every ill-typed query of a batch was answered that way)
    for fn_ in ("json_array_flatten",):
        fb = F.need("routee_compass::plugin::input::input_plugin_ops::" + fn_)
        ftm = Terms(fb)
        sites = [c for c in fb.calls_deep() if (c.callee or "").endswith("input_plugin_ops::package_invariant_error")]
        ctx.check(len(sites) >= 1, "%s:rejects-with-a-response" % fn_, "%s no longer builds its error responses with package_invariant_error" % fn_, fb.where())
        for c in sites:
            a0 = clean(c.arg_terms[0]) if isinstance(c, VirtualCallSite) else clean(ftm.operand(c.args[0], c.bb))
            alts = list(a0[1]) if a0[0] == "phi" else [a0]
            somes = [x for x in alts if x[0] == "agg" and x[2] == "Some"]
            ctx.check(bool(somes), "%s:rejected-query-echoed" % fn_, "%s answers a rejected query with package_invariant_error(None, ..): the response's `request` is a placeholder instead of the query (%s)" % (fn_, short(a0)[:100]), c.where(), detail="package_invariant_error(Some(rejected value), ..)")
    pi = F.need("routee_compass::plugin::input::input_plugin_ops::package_invariant_error")
    rt = unmut_all(nosite(deep_strip(Terms(pi).return_term())))
    alts = list(rt[1]) if rt[0] == "phi" else [rt]
    ctx.check(all(a[0] == "call" and a[1].startswith("routee_compass::plugin::input::input_plugin_ops::package_error") for a in alts), "package_invariant_error:ends-in-package_error", "package_invariant_error does not return package_error(..)", pi.where())


def R4_ill_typed_fields(ctx):
    """C12.R4 a present but ill-typed query field is an error, not an absent field"""
    F = ctx.F
    ctx.rule("C12.R4", "in the Result-returning query accessors (InputJsonExtensions for serde_json::Value) every `Value::as_*` conversion of a query field flows, through map adaptors only, into ok_or / ok_or_else whose Err is returned: a field of the wrong JSON type yields an error response instead of being treated as missing", floor=8)
    AS = re.compile(r"^serde_json::(value::)?Value::as_(u64|i64|f64|str|bool|array|object)$")
    n = 0
    for p, b in sorted(F.bodies.items()):
        root = p.split("::{closure")[0]
        rb = F.bodies.get(root)
        if rb is None or "InputJsonExtensions>::get_" not in root or not root.startswith("<serde_json::"):
            continue
        if "Result<" not in rb.locals[0].get("ty", ""):
            continue
        tm = Terms(b, keep_transparent=True) if False else Terms(b)
        for c in b.calls():
            if not (c.callee and AS.match(c.callee)):
                continue
            n += 1
            inst = "%s:%s" % (short_fn_name(root), c.callee.split("::")[-1])
            if "{closure" in p:
                # inside a closure handed to map / and_then: acceptable only if the closure itself turns None into Err
                oo = [x for x in b.calls() if re.search(r"Option::<T>::ok_or(_else)?$", x.callee or "") and root_local(b, x.args[0]) == c.dest["l"]]
                ctx.check(bool(oo), inst, "the conversion sits inside a closure (and_then / map over an optional field) without ok_or: a wrong JSON type is merged with 'field absent'", c.where(), detail="as_*().ok_or_else(invalid type)")
                continue
            # follow the Option through map adaptors to an ok_or / ok_or_else
            l = c.dest["l"]
            ok = False
            for _ in range(4):
                users = [x for x in b.calls() if x.args and root_local(b, x.args[0]) == l and x is not c]
                oo = [x for x in users if re.search(r"Option::<T>::ok_or(_else)?$", x.callee or "")]
                if oo:
                    pr = try_propagation(b, oo[0], tm)
                    ok = pr["kind"] in ("propagated", "returned") or error_flow(F, b, oo[0], tm).get("ok", False)
                    break
                mp = [x for x in users if re.search(r"Option::<T>::map$", x.callee or "")]
                if len(mp) == 1 and mp[0].dest is not None:
                    l = mp[0].dest["l"]
                    continue
                break
            if not ok:
                # match form: the None arm of a match on the conversion returns Err
                ct = tm.call_term(c.term, c.bb)
                for sbb, dt, names, t in switches(b, tm):
                    if names and dt == ("discr", ct):
                        tgt = switch_target(t, names, "None")
                        vals = region_value(b, (sbb, tgt))
                        ok = bool(vals) and all(is_err_value(deep_strip(v)) or result_variant(nosite(deep_strip(v))) == "Err" for _, v in vals)
            ctx.check(ok, inst, "the None of this conversion (field present with the wrong JSON type) does not become an Err of the accessor", c.where(), detail="as_*().ok_or_else(invalid type)?")
    ctx.check(n >= 8, "conversion-sites", "only %d as_* conversions found in the query accessors" % n, None)


RULES = [R1_inventory, R2_loops, R3_errors_become_responses, R4_ill_typed_fields]
