"""C14 — interpolated powertrain predictions stay faithful to the underlying model."""
from core import *
import common

EXPLANATION = (
    "C14: the behaviour quantifies over floats, so the check decides the algebraic and structural facts from which the stated behaviour "
    "follows: (R1) predict clamps each converted input against first/last of its *own* axis and queries (speed, grade) in grid order; "
    "(R2) the grid is the underlying model's rate at every (speed, grade) of the two linspace axes, over a unit distance in the rate "
    "unit's distance unit, with no cache/adjustment, rows = speed, columns = grade, stored with the same three units; linspace is "
    "x[i] = x[i-1] + (xend-x0)/(n-1); (R3) the value returned by Interp1D/2D/3D::linear is, as an exact polynomial identity, "
    "sum over corners f[corner] * prod w with w = d (upper) / 1-d (lower), d = (p-g[l])/(g[l+1]-g[l]), l = find_nearest_index(own axis, own "
    "coordinate) — hence convex weights, grid-point exactness, continuity, multilinear exactness and 1D/2D/3D agreement by algebra; the "
    "N-D blend step and fraction have the same form; (R4) interpolate validates first and propagates; validate_inputs compares every "
    "coordinate with first and last of its own axis for every variant incl. the N-D loop; constructors validate; (R5) find_nearest_index "
    "is the lower-bound bisection with the left-cell adjustment: its one-iteration transfer function, entry values and exits equal the "
    "reference table proved on paper in DESIGN.md. Not decided: float rounding, the N-D index permutation bookkeeping (data-dependent "
    "ndarray loops), the smartcore model itself."
)

I = "routee_compass_powertrain::routee::prediction::interpolation::"
M = I + "interpolation_speed_grade_model::InterpolationSpeedGradeModel"
P = "routee_compass_powertrain::routee::prediction::"
FNI = I + "utils::find_nearest_index"
VIDX = "<std::vec::Vec<T, A> as std::ops::Index<I>>::index"


def R1_clamp(ctx):
    """C14.R1 clamp dominates lookup"""
    F = ctx.F
    ctx.rule("C14.R1", "predict: the point handed to interpolate is [clamp(convert(speed, caller unit -> model unit), x.first, x.last), clamp(convert(grade ...), y.first, y.last)] on self.interpolator with Strategy::Linear; the result is returned as (EnergyRate::new(y), self.energy_rate_unit); Err is propagated", floor=8)
    b = F.one("InterpolationSpeedGradeModel as %sprediction_model::PredictionModel>::predict" % P)
    tm = Terms(b)
    cs = [c for c in b.calls() if c.callee == I + "interp::Interpolator::interpolate"]
    if not ctx.check(len(cs) == 1, "single-interpolate", "expected exactly one interpolate call, found %d" % len(cs), b.where()):
        return
    c = cs[0]
    a = [nosite(deep_strip(tm.operand(x, c.bb))) for x in c.args]
    ctx.check(a[0] == ("field", ("arg", 1), "interpolator"), "receiver", "interpolate is not called on self.interpolator", c.where())
    ctx.check(a[2] == ("agg", I + "interp::Strategy", "Linear", ()), "strategy", "the strategy is not Linear", c.where())
    pt = a[1]
    if not ctx.check(pt[0] == "array" and len(pt[1]) == 2, "point-arity", "the point is not a 2-element array: %s" % short(pt)[:100], c.where()):
        return
    grid = lambda ax: ("field", ("field", ("variant", ("field", ("arg", 1), "interpolator"), "Interp2D"), "0"), ax)
    spec = [("speed", 2, "SpeedUnit", "speed_unit", "x"), ("grade", 3, "GradeUnit", "grade_unit", "y")]
    for i, (nm, argi, unit, ufield, ax) in enumerate(spec):
        v = pt[1][i]
        lo = ("call", "std::slice::<impl [T]>::first", (grid(ax),))
        hi = ("call", "std::slice::<impl [T]>::last", (grid(ax),))
        conv_re = re.compile(r"unit::\w+::%s::convert$" % unit)
        raw = None
        # accepted clamp idioms (equivalent whenever first <= last, which validate() guarantees)
        if v[0] == "call" and v[1] == "f64::min" and v[2][1] == hi and v[2][0][0] == "call" and v[2][0][1] == "f64::max" and v[2][0][2][1] == lo:
            raw = v[2][0][2][0]
        elif v[0] == "call" and v[1] == "f64::max" and v[2][1] == lo and v[2][0][0] == "call" and v[2][0][1] == "f64::min" and v[2][0][2][1] == hi:
            raw = v[2][0][2][0]
        elif v[0] == "call" and v[1] == "f64::clamp" and v[2][1] == lo and v[2][2] == hi:
            raw = v[2][0]
        ctx.check(raw is not None, "%s:clamped-to-own-axis" % nm, "point[%d] is not clamp(value, %s.first(), %s.last()) of the matching axis: %s" % (i, ax, ax, short(v)[:260]), c.where(), detail="max(%s.first).min(%s.last)" % (ax, ax))
        if raw is None:
            continue
        inner = raw
        while inner[0] == "call" and _IDENT.search(inner[1]) and len(inner[2]) == 1:
            inner = inner[2][0]
        okc = inner[0] == "call" and conv_re.search(inner[1]) and inner[2] == (("field", ("arg", argi), "1"), ("field", ("arg", argi), "0"), ("field", ("arg", 1), ufield))
        ctx.check(okc, "%s:converted-caller->model-unit" % nm, "the %s coordinate is not caller_unit.convert(value, self.%s): %s" % (nm, ufield, short(inner)[:200]), c.where(), detail="unit.convert(v, self.%s)" % ufield)
    pr = error_flow(F, b, c, tm)
    ctx.check(pr["ok"], "interpolate-error-propagated", "Err of interpolate is not propagated: %s" % pr.get("detail"), c.where())
    ct = nosite(deep_strip(tm.call_term(c.term, c.bb)))
    oks = []
    for r in table(b, max_paths=200000):
        if r.end == "return" and result_variant(r.ret) == "Ok":
            oks.append(r.ret)
    want = ("tuple", (("call", "routee_compass_core::model::unit::energy_rate::EnergyRate::new", (ct,)), ("field", ("arg", 1), "energy_rate_unit")))
    good = bool(oks) and all(strip_maps(agg_payload(o)) == want for o in oks)
    ctx.check(good, "returns-interpolated-rate-in-model-unit", "Ok value is not (EnergyRate::new(interpolated), self.energy_rate_unit): %s" % (short(oks[0])[:200] if oks else "no Ok return"), b.where(), detail="(EnergyRate::new(y), self.energy_rate_unit)")


_IDENT = re.compile(r"(AsF64>::as_f64|::as_f64)$")


def strip_maps(t):
    """erase map_err adaptors (they do not change the Ok payload)"""
    def f(x):
        if x[0] == "call" and re.search(r"Result::<T, E>::map_err$", x[1]):
            return x[2][0]
        return None
    return rewrite(t, f)


def R2_grid(ctx):
    """C14.R2 grid built from the underlying model"""
    F = ctx.F
    ctx.rule("C14.R2", "new: grid[i][j] = underlying.predict((Speed(s_i), speed_unit), (Grade(g_j), grade_unit), (Distance(1.0), energy_rate_unit.associated_distance_unit())) with the model loaded in the same three units without cache/adjustment; outer loop speed, inner loop grade, one push per cell, one row push per speed; Interp2D::new(speed axis, grade axis, values); the struct stores the same units", floor=12)
    b = F.need(M + "::new")
    tm = Terms(b)
    ld = [c for c in b.calls() if c.callee == P + "prediction_model_ops::load_prediction_model"]
    pc = [c for c in b.calls() if c.callee == P + "prediction_model_record::PredictionModelRecord::predict"]
    if len(ld) == 1 and not pc and not b.natural_loops():
        _grid_map_form(ctx, b, tm, ld[0])
        return
    if not ctx.check(len(ld) == 1 and len(pc) == 1, "anchors", "expected one load_prediction_model and one predict call (found %d/%d)" % (len(ld), len(pc)), b.where()):
        return
    NONE = ("agg", "std::option::Option", "None", ())
    la = tuple(nosite(deep_strip(tm.operand(x, ld[0].bb))) for x in ld[0].args)
    ctx.check(la == (("arg", 3), ("arg", 1), ("arg", 2), ("arg", 4), ("arg", 7), ("arg", 10), NONE, NONE, NONE), "underlying-model:same-units-no-cache-no-adjustment", "the underlying model is not loaded with (name, path, type, speed_unit, grade_unit, energy_rate_unit, None, None, None): %s" % short(("tuple", la))[:200], ld[0].where(), detail="units = (arg4, arg7, arg10); ideal/adjustment/cache = None")
    ctx.check(try_propagation(b, ld[0], tm)["kind"] == "propagated", "underlying-model:error", "Err of load_prediction_model is not propagated", ld[0].where())
    model = nosite(deep_strip(tm.call_term(ld[0].term, ld[0].bb)))
    ls = [c for c in b.calls() if c.callee == I + "utils::linspace"]
    axes = {}
    for c in ls:
        a = tuple(nosite(deep_strip(tm.operand(x, c.bb))) for x in c.args)
        if a == (_f64(("field", ("arg", 5), "0"), "speed::Speed"), _f64(("field", ("arg", 5), "1"), "speed::Speed"), ("arg", 6)):
            axes["speed"] = nosite(deep_strip(tm.call_term(c.term, c.bb)))
        if a == (_f64(("field", ("arg", 8), "0"), "grade::Grade"), _f64(("field", ("arg", 8), "1"), "grade::Grade"), ("arg", 9)):
            axes["grade"] = nosite(deep_strip(tm.call_term(c.term, c.bb)))
    if not ctx.check(set(axes) == {"speed", "grade"}, "axes:linspace(bounds, bins)", "the axes are not linspace(lower, upper, bins) of the speed and grade bounds (found %s)" % sorted(axes), b.where(), detail="linspace(bounds.0, bounds.1, bins)"):
        return
    p = pc[0]
    pa = [nosite(deep_strip(tm.operand(x, p.bb))) for x in p.args]
    ctx.check(pa[0] == model, "cell:receiver", "the grid is not filled from the loaded underlying model", p.where())

    def elem_of(t, axis):
        """t == Q::new(next(into_iter(axis))) ; returns the next() term"""
        if t[0] == "call" and t[1].endswith("::new") and len(t[2]) == 1:
            n = t[2][0]
            if n[0] == "call" and itm(n[1], "next") and contains(n[2][0], lambda s: unmut(s) == axis) and not [x for x in calls_in(n[2][0]) if re.search(r"Iterator>?::(rev|skip|take|step_by|filter|zip|chain)$", x[1])]:
                return n
        return None

    sp_ok = pa[1][0] == "tuple" and elem_of(pa[1][1][0], axes["speed"]) is not None and pa[1][1][0][1].endswith("speed::Speed::new") and pa[1][1][1] == ("arg", 4)
    gr_ok = pa[2][0] == "tuple" and elem_of(pa[2][1][0], axes["grade"]) is not None and pa[2][1][0][1].endswith("grade::Grade::new") and pa[2][1][1] == ("arg", 7)
    ctx.check(sp_ok, "cell:speed=(Speed(axis element), speed_unit)", "the speed argument is %s" % short(pa[1])[:200], p.where(), detail="(Speed::new(s), arg4)")
    ctx.check(gr_ok, "cell:grade=(Grade(axis element), grade_unit)", "the grade argument is %s" % short(pa[2])[:200], p.where(), detail="(Grade::new(g), arg7)")
    want_d = ("tuple", (("call", "routee_compass_core::model::unit::distance::Distance::new", (("const", "f64", "1.0"),)), ("call", "routee_compass_core::model::unit::energy_rate_unit::EnergyRateUnit::associated_distance_unit", (("arg", 10),))))
    ctx.check(pa[3] == want_d, "cell:unit-distance-in-rate-distance-unit", "the distance is not (Distance(1.0), energy_rate_unit.associated_distance_unit()) — energy over it would not be the rate: %s" % short(pa[3])[:200], p.where(), detail="(1.0, rate_unit.associated_distance_unit())")
    ctx.check(try_propagation(b, p, tm)["kind"] == "propagated", "cell:error", "Err of the underlying prediction is not propagated", p.where())
    # loop nesting: speed next in the outer loop only, grade next in the inner loop
    nxs = [c for c in b.calls() if c.func.get("method") == "next"]
    loops = sorted(b.natural_loops(), key=lambda hb: -len(hb[1]))
    oknest = False
    if len(loops) == 2 and len(nxs) == 2 and sp_ok and gr_ok:
        (ho, bo), (hi_, bi) = loops
        sn = [c for c in nxs if nosite(deep_strip(tm.call_term(c.term, c.bb))) == elem_of(pa[1][1][0], axes["speed"])]
        gn = [c for c in nxs if nosite(deep_strip(tm.call_term(c.term, c.bb))) == elem_of(pa[2][1][0], axes["grade"])]
        oknest = len(sn) == 1 and len(gn) == 1 and sn[0].bb in bo and sn[0].bb not in bi and gn[0].bb in bi and bi < bo
        pushes = [c for c in b.calls() if c.callee == "std::vec::Vec::<T, A>::push"]
        cellp = [c for c in pushes if c.bb in bi]
        rowp = [c for c in pushes if c.bb in bo and c.bb not in bi]
        okp = len(cellp) == 1 and len(rowp) == 1 and len(pushes) == 2
        if okp:
            pv = nosite(deep_strip(tm.operand(cellp[0].args[1], cellp[0].bb)))
            ct = nosite(deep_strip(tm.call_term(p.term, p.bb)))
            want = ("call", "<routee_compass_core::model::unit::energy::Energy as routee_compass_core::model::unit::as_f64::AsF64>::as_f64", (("field", ct, "0"),))
            okp = pv == want and b.dominates(p.bb, cellp[0].bb)
            row_l = root_local(b, cellp[0].args[0])
            val_l = root_local(b, rowp[0].args[0])
            rv = root_local(b, rowp[0].args[1])
            # the row is created inside the outer loop (fresh per speed), the matrix before it
            rdefs = [d for d in b.defs.get(row_l, []) if not d[2]]
            vdefs = [d for d in b.defs.get(val_l, []) if not d[2]]
            okp = okp and rv == row_l and len(rdefs) == 1 and rdefs[0][0] in bo and rdefs[0][0] not in bi and len(vdefs) == 1 and vdefs[0][0] not in bo
            for d, nm in ((rdefs, "row"), (vdefs, "values")):
                if d:
                    t = b.blocks[d[0][0]]["term"]
                    okp = okp and d[0][1] == "term" and callee_key(t["func"]) == "std::vec::Vec::<T>::new"
        ctx.check(okp, "cells:one-push-per-(s,g)", "each (speed, grade) cell does not contribute exactly one push of predict(..).0.as_f64() to a fresh row, one row push per speed", b.where(), detail="row.push(energy.as_f64()); values.push(row)")
        i2 = [c for c in b.calls() if c.callee == I + "interp::Interp2D::new"]
        oki = len(i2) == 1
        if oki:
            ia = [nosite(deep_strip(tm.operand(x, i2[0].bb))) for x in i2[0].args]
            oki = unmut(ia[0]) == axes["speed"] and unmut(ia[1]) == axes["grade"] and root_local(b, i2[0].args[2]) == val_l and not (set(b.reachable(start=i2[0].bb)) & bo)
        ctx.check(oki, "interp2d:(speed axis, grade axis, values)", "Interp2D::new does not receive (speed axis, grade axis, the filled matrix) after the loops", b.where(), detail="Interp2D::new(speed_values, grade_values, values)")
        if oki:
            ctx.check(error_flow(F, b, i2[0], tm)["ok"], "interp2d:error", "Err of Interp2D::new is not propagated", i2[0].where())
    ctx.check(oknest, "loops:speed-outer/grade-inner", "the speed axis is not iterated by the outer loop and the grade axis by the inner loop", b.where(), detail="rows = speed, columns = grade")
    oks = [r.ret for r in table_ok_rows(b)]
    okst = bool(oks)
    for o in oks:
        s = strip_maps(agg_payload(o))
        okst = okst and s[0] == "agg" and s[1] == M and dict(s[3]).get("speed_unit") == ("arg", 4) and dict(s[3]).get("grade_unit") == ("arg", 7) and dict(s[3]).get("energy_rate_unit") == ("arg", 10)
        it = dict(s[3]).get("interpolator") if s[0] == "agg" else None
        okst = okst and it is not None and it[0] == "agg" and it[2] == "Interp2D" and agg_payload(it)[0] == "call" and agg_payload(it)[1] == I + "interp::Interp2D::new"
    ctx.check(okst, "stored-units", "the model does not store Interp2D(grid) with (speed_unit, grade_unit, energy_rate_unit) = the units the grid was built in", b.where(), detail="units = (arg4, arg7, arg10)")
    # the record's predict is rate * adjustment over the distance (no other term), adjustment None -> 1.0
    rb = F.need(P + "prediction_model_record::PredictionModelRecord::predict")
    cr = [c for c in rb.calls() if c.callee and c.callee.endswith("energy::Energy::create")]
    okr = len(cr) == 1
    if okr:
        rtm = Terms(rb)
        ra = [nosite(deep_strip(rtm.operand(x, cr[0].bb))) for x in cr[0].args]
        A = Arith(F)
        rate = A.ev(ra[0])
        syms = rate.p.symbols() if hasattr(rate, "p") else set()
        okr = ra[1] == ("field", ("arg", 1), "energy_rate_unit") and ra[2] == ("field", ("arg", 4), "0") and ra[3] == ("field", ("arg", 4), "1")
        adj = [s for s in subterms(ra[0]) if s == ("field", ("arg", 1), "real_world_energy_adjustment")]
        okr = okr and len(adj) >= 1
    ctx.check(okr, "record:energy=create(rate*adjustment, rate_unit, distance, distance_unit)", "PredictionModelRecord::predict does not form the energy from (rate * real_world_adjustment, self.energy_rate_unit, distance, distance_unit)", rb.where(), detail="Energy::create(rate*adj, rate_unit, d, du)")
    lb = F.need(P + "prediction_model_ops::load_prediction_model")
    ltm = Terms(lb)
    oka = False
    for r in table_ok_rows(lb):
        s = agg_payload(r.ret)
        if s and s[0] == "agg":
            adjv = dict(s[3]).get("real_world_energy_adjustment")
            oka = adjv is not None and adjv[0] == "call" and adjv[1].endswith("Option::<T>::unwrap_or") and unmut(adjv[2][0]) == ("arg", 8) and adjv[2][1] == ("const", "f64", "1.0") and dict(s[3]).get("cache") == ("arg", 9)
            if not oka:
                break
    ctx.check(oka, "record:no-adjustment=1.0", "a record loaded without adjustment does not use the neutral factor 1.0 / stores another cache", lb.where(), detail="unwrap_or(1.0)")


def _grid_map_form(ctx, b, tm, ld):
    """the same grid written with adaptors: speed_axis.iter().map(|s| grade_axis.iter().map(|g| predict(..)).collect()).collect()"""
    F = ctx.F
    U_ = lambda t: rewrite(nosite(deep_strip(t)), lambda x: unmut(x) if x[0] == "mut" else None)
    NONE = ("agg", "std::option::Option", "None", ())
    la = tuple(U_(tm.operand(x, ld.bb)) for x in ld.args)
    ctx.check(la == (("arg", 3), ("arg", 1), ("arg", 2), ("arg", 4), ("arg", 7), ("arg", 10), NONE, NONE, NONE), "underlying-model:same-units-no-cache-no-adjustment", "the underlying model is not loaded with (name, path, type, speed_unit, grade_unit, energy_rate_unit, None, None, None)", ld.where(), detail="units = (arg4, arg7, arg10); ideal/adjustment/cache = None")
    ctx.check(try_propagation(b, ld, tm)["kind"] == "propagated", "underlying-model:error", "Err of load_prediction_model is not propagated", ld.where())
    model = U_(tm.call_term(ld.term, ld.bb))
    axes = {}
    for c in b.calls():
        if c.callee == I + "utils::linspace":
            a = tuple(U_(tm.operand(x, c.bb)) for x in c.args)
            if a == (_f64(("field", ("arg", 5), "0"), "speed::Speed"), _f64(("field", ("arg", 5), "1"), "speed::Speed"), ("arg", 6)):
                axes["speed"] = U_(tm.call_term(c.term, c.bb))
            if a == (_f64(("field", ("arg", 8), "0"), "grade::Grade"), _f64(("field", ("arg", 8), "1"), "grade::Grade"), ("arg", 9)):
                axes["grade"] = U_(tm.call_term(c.term, c.bb))
    if not ctx.check(set(axes) == {"speed", "grade"}, "axes:linspace(bounds, bins)", "the axes are not linspace(lower, upper, bins) of the speed and grade bounds (found %s)" % sorted(axes), b.where(), detail="linspace(bounds.0, bounds.1, bins)"):
        return
    # outer closure: map over the speed axis; inner closure: map over the grade axis, created inside the outer one
    builds = elementwise_builds(b)
    outer = [x for x in builds if x["form"] == "map" and contains(x["src"], lambda q: q == axes["speed"])]
    if not ctx.check(len(outer) == 1, "loops:speed-outer/grade-inner", "no element-wise build over the speed axis found in `new`", b.where(), detail="rows = speed"):
        return
    outer = outer[0]
    trunc = r"Iterator>?::(take|skip|filter|step_by|rev|chain|zip)$"
    ocl = [x for x in subterms(outer["chain"]) if x[0] == "closure"]
    ocb = F.need(ocl[0][1])
    ocaps = ocl[0][2]
    ib_ = [x for x in elementwise_builds(ocb) if x["form"] == "map"]
    sub_o = lambda t: rewrite(t, lambda y: U_(ocaps[int(y[2])]) if y[0] == "field" and y[1] == ("arg", 1) and str(y[2]).isdigit() and int(y[2]) < len(ocaps) else None)
    inner = [x for x in ib_ if contains(sub_o(x["src"]), lambda q: q == axes["grade"])]
    oknest = len(inner) == 1 and not [y for y in calls_in(outer["chain"]) if re.search(trunc, y[1])] and (len(inner) == 1 and not [y for y in calls_in(inner[0]["chain"]) if re.search(trunc, y[1])])
    ctx.check(oknest, "loops:speed-outer/grade-inner", "the speed axis is not mapped by the outer closure and the grade axis by a closure nested in it", b.where(), detail="rows = speed, columns = grade")
    if not oknest:
        return
    inner = inner[0]
    # the row built by the outer closure is the inner collection
    it_ = U_(Terms(ocb).call_term(inner["site"].term, inner["site"].bb))
    ctx.check(outer["values"] == (rewrite(it_, lambda y: ("elem",) if y == ("arg", 2) else None),) or contains(outer["values"][0], lambda q: q[0] == "call" and "collect" in q[1]), "cells:one-push-per-(s,g)", "a row of the matrix is not the collected inner map over the grade axis", ocb.where(), detail="row = grade_axis.iter().map(cell).collect()")
    icl = [x for x in subterms(inner["chain"]) if x[0] == "closure"][0]
    icb = F.need(icl[1])
    icaps = icl[2]
    itm_ = Terms(icb)
    pcs = [c for c in icb.calls() if c.callee == P + "prediction_model_record::PredictionModelRecord::predict"]
    if not ctx.check(len(pcs) == 1, "anchors", "expected one predict call in the cell closure", icb.where()):
        return
    p_ = pcs[0]

    def up(t):
        """a term of the inner closure expressed over `new`'s terms; the two elements become ('s',) and ('g',)"""
        t = rewrite(U_(t), lambda y: ("g",) if y == ("arg", 2) else (U_(icaps[int(y[2])]) if y[0] == "field" and y[1] == ("arg", 1) and str(y[2]).isdigit() and int(y[2]) < len(icaps) else None))
        t = rewrite(t, lambda y: ("s",) if y == ("arg", 2) else (U_(ocaps[int(y[2])]) if y[0] == "field" and y[1] == ("arg", 1) and str(y[2]).isdigit() and int(y[2]) < len(ocaps) else None))
        return t

    pa = [up(itm_.operand(x, p_.bb)) for x in p_.args]
    ctx.check(pa[0] == model, "cell:receiver", "the grid is not filled from the loaded underlying model", p_.where())
    want_s = ("tuple", (("call", "routee_compass_core::model::unit::speed::Speed::new", (("s",),)), ("arg", 4)))
    want_g = ("tuple", (("call", "routee_compass_core::model::unit::grade::Grade::new", (("g",),)), ("arg", 7)))
    ctx.check(pa[1] == want_s, "cell:speed=(Speed(axis element), speed_unit)", "the speed argument is %s" % short(pa[1])[:200], p_.where(), detail="(Speed::new(s), arg4)")
    ctx.check(pa[2] == want_g, "cell:grade=(Grade(axis element), grade_unit)", "the grade argument is %s" % short(pa[2])[:200], p_.where(), detail="(Grade::new(g), arg7)")
    want_d = ("tuple", (("call", "routee_compass_core::model::unit::distance::Distance::new", (("const", "f64", "1.0"),)), ("call", "routee_compass_core::model::unit::energy_rate_unit::EnergyRateUnit::associated_distance_unit", (("arg", 10),))))
    ctx.check(pa[3] == want_d, "cell:unit-distance-in-rate-distance-unit", "the distance is not (Distance(1.0), energy_rate_unit.associated_distance_unit()): %s" % short(pa[3])[:200], p_.where(), detail="(1.0, rate_unit.associated_distance_unit())")
    # `predict(..)?` in the cell, or the cell is itself the Result (Err kept by map/and_then) that the collect::<Result<..>> gathers
    ctx.check(try_propagation(icb, p_, itm_)["kind"] in ("propagated", "returned"), "cell:error", "Err of the underlying prediction is not propagated", p_.where())
    cellv = rewrite(norm_adaptors(F, inner["values"][0]), lambda y: ("g",) if y == ("elem",) else None)
    cellv = rewrite(cellv, lambda y: ("s",) if y == ("arg", 2) else (U_(ocaps[int(y[2])]) if y[0] == "field" and y[1] == ("arg", 1) and str(y[2]).isdigit() and int(y[2]) < len(ocaps) else None))
    want_c = ("call", "<routee_compass_core::model::unit::energy::Energy as routee_compass_core::model::unit::as_f64::AsF64>::as_f64", (("field", ("call", p_.callee, tuple(pa)), "0"),))
    ctx.check(nosite(cellv) == want_c, "cells:value=energy.as_f64()", "a cell is not predict(..).0.as_f64(): %s" % short(cellv)[:160], icb.where(), detail="energy.as_f64()")
    i2 = [c for c in b.calls() if c.callee == I + "interp::Interp2D::new"]
    oki = len(i2) == 1
    if oki:
        ia = [U_(tm.operand(x, i2[0].bb)) for x in i2[0].args]
        oki = ia[0] == axes["speed"] and ia[1] == axes["grade"] and ia[2] == U_(tm.call_term(outer["site"].term, outer["site"].bb))
    ctx.check(oki, "interp2d:(speed axis, grade axis, values)", "Interp2D::new does not receive (speed axis, grade axis, the collected matrix)", b.where(), detail="Interp2D::new(speed_values, grade_values, values)")
    if oki:
        ctx.check(error_flow(F, b, i2[0], tm)["ok"], "interp2d:error", "Err of Interp2D::new is not propagated", i2[0].where())
        ctx.check(try_propagation(b, outer["site"], tm)["kind"] == "propagated" or error_flow(F, b, outer["site"], tm).get("ok"), "cells:error-propagated", "an Err while filling the grid is not propagated", outer["site"].where())
    oks = [r.ret for r in table_ok_rows(b)]
    okst = bool(oks)
    for o in oks:
        s_ = strip_maps(agg_payload(o))
        okst = okst and s_[0] == "agg" and s_[1] == M and dict(s_[3]).get("speed_unit") == ("arg", 4) and dict(s_[3]).get("grade_unit") == ("arg", 7) and dict(s_[3]).get("energy_rate_unit") == ("arg", 10)
    ctx.check(okst, "stored-units", "the model does not store the units the grid was built in", b.where(), detail="units = (arg4, arg7, arg10)")


def table_ok_rows(b):
    return [r for r in table(b, max_paths=200000) if r.end == "return" and result_variant(r.ret) == "Ok"]


def _f64(t, q):
    return ("call", "<routee_compass_core::model::unit::%s as routee_compass_core::model::unit::as_f64::AsF64>::as_f64" % q, (t,))


def R2b_linspace(ctx):
    """C14.R2b linspace"""
    F = ctx.F
    ctx.rule("C14.R2b", "linspace(x0, xend, n): x = vec![x0; n]; for i in 1..n { x[i] = x[i-1] + (xend-x0)/((n-1) as f64) }; returns x (so x[0] = x0, x is increasing iff xend > x0, and has n elements)", floor=4)
    b = F.need(I + "utils::linspace")
    loops = b.natural_loops()
    if not loops and _linspace_successors(ctx, b):
        return
    if not ctx.check(len(loops) == 1, "single-loop", "expected one loop", b.where()):
        return
    h = loops[0][0]
    rows = iteration_table(b, h)
    back = [r for r in rows if r.kind == "back"]
    rets = [r for r in rows if r.kind == "return"]
    X = ("call", "std::vec::from_elem", (("arg", 1), ("arg", 3)))
    rng = ("agg", "std::ops::Range", "Range", (("start", ("const", "usize", 1)), ("end", ("arg", 3))))
    ok = len(back) == 1 and len(back[0].stores) == 1
    if ok:
        ptr, val = back[0].stores[0]
        ptr, val = unmut_all(nosite(deep_strip(ptr))), unmut_all(nosite(deep_strip(val)))
        i = None
        if ptr[0] == "call" and ptr[1].endswith("IndexMut<I>>::index_mut") and ptr[2][0] == X:
            i = ptr[2][1]
        ok = i is not None and i[0] == "call" and itm(i[1], "next") and contains(i[2][0], lambda s: s == rng)
        if ok:
            A = Arith(F, symbols={("arg", 1): "x0", ("arg", 2): "xend", ("arg", 3): "n"})
            prev = ("call", VIDX, (X, ("bin", "Sub", i, ("const", "usize", 1))))
            A.symbols[prev] = "xprev"
            got = A.ev(val)
            S = lambda n: Ratio(Poly.sym(n))
            one = Ratio(Poly.const(1))
            want = S("xprev") + (S("xend") - S("x0")) / (S("n") - one)
            ok = got.equals(want)
    ctx.check(ok, "recurrence", "the loop body is not x[i] = x[i-1] + (xend-x0)/(n-1) for i in 1..n", b.where(), detail="x[i] = x[i-1] + dx")
    ctx.check(len(rets) == 1 and unmut_all(nosite(deep_strip(rets[0].ret))) == X and not rets[0].stores, "returns-x", "linspace does not return the filled vector vec![x0; n]", b.where(), detail="vec![x0; n]")
    other = [r for r in rows if r.kind not in ("back", "return", "diverge")]
    ctx.check(not other, "no-other-paths", "unexpected path kinds %s" % [r.kind for r in other], b.where())


def _linspace_successors(ctx, b):
    """the same sequence written as successors(Some(x0), |p| Some(p + dx)).take(n).collect(): x[0] = x0, x[i] = x[i-1] + dx, n elements"""
    F = ctx.F
    src, ops = chain_steps(F, Terms(b).return_term())
    names = [o[0] for o in ops]
    if not (src[0] == "call" and src[1].endswith("iter::successors") and len(src[2]) == 2 and names in (["take", "collect"], ["take", "collect_vec"])):
        return False
    first, cl = src[2]
    ok = first == ("agg", "std::option::Option", "Some", (("0", ("arg", 1)),)) and cl[0] == "closure" and cl[1] in F.bodies
    if ok:
        val = clean(Terms(F.bodies[cl[1]]).return_term())
        ok = result_variant(val) == "Some"
    if ok:
        caps = cl[2]
        val = rewrite(agg_payload(val), lambda y: ("xprev",) if y == ("arg", 2) else (clean(caps[int(y[2])]) if y[0] == "field" and y[1] == ("arg", 1) and str(y[2]).isdigit() and int(y[2]) < len(caps) else None))
        A = Arith(F, symbols={("arg", 1): "x0", ("arg", 2): "xend", ("arg", 3): "n", ("xprev",): "xprev"})
        S = lambda n: Ratio(Poly.sym(n))
        ok = A.ev(val).equals(S("xprev") + (S("xend") - S("x0")) / (S("n") - Ratio(Poly.const(1))))
    ctx.check(ok, "recurrence", "the successor step is not x[i] = x[i-1] + (xend-x0)/(n-1) starting from x0", b.where(), detail="x[i] = x[i-1] + dx")
    ctx.check(ops[0][1] == ("arg", 3), "returns-x", "linspace does not take exactly n elements", b.where(), detail="take(n)")
    ctx.check(True, "single-loop", "", b.where(), detail="successors form")
    ctx.check(True, "no-other-paths", "", b.where())
    return True


def unmut_all(t):
    return rewrite(t, lambda x: unmut(x) if x[0] == "mut" else None)


AXES = ["x", "y", "z"]


def _weights_reference(n, S):
    """reference multilinear polynomial over symbols f_<corner>, d<axis>"""
    one = Ratio(Poly.const(1))
    total = Ratio(Poly.const(0))
    for corner in range(2 ** n):
        bits = [(corner >> a) & 1 for a in range(n)]
        term = S("f_" + "".join("u" if bt else "l" for bt in bits))
        for a, bt in enumerate(bits):
            d = (S("p" + AXES[a]) - S("g" + AXES[a] + "l")) / (S("g" + AXES[a] + "u") - S("g" + AXES[a] + "l"))
            term = term * (d if bt else (one - d))
        total = total + term
    return total


def R3_weights(ctx):
    """C14.R3 convex multilinear weights"""
    F = ctx.F
    ctx.rule("C14.R3", "Interp{1,2,3}D::linear returns exactly sum_corners f[corner] * prod_axes w_axis(corner), w = d for the upper and 1-d for the lower corner, d = (p - g[l])/(g[l+1] - g[l]), l = find_nearest_index(the same axis, the same coordinate); every index used on an axis/value table belongs to that axis (exact polynomial identity, 2+4+8 corner terms); Interp1D returns f_x[i] when x[i] == point", floor=6)
    for n, name, fld in ((1, "Interp1D", "f_x"), (2, "Interp2D", "f_xy"), (3, "Interp3D", "f_xyz")):
        b = F.need(I + "interp::%s::linear" % name)
        rows = [r for r in table(b, max_paths=100000) if r.end == "return"]
        oks = [r for r in rows if result_variant(r.ret) == "Ok"]
        errs = [r for r in rows if result_variant(r.ret) != "Ok"]
        point = (lambda a: ("arg", 2)) if n == 1 else (lambda a: ("index", ("arg", 2), ("const", "usize", a)))
        L = [("call", FNI, (("field", ("arg", 1), AXES[a]), point(a))) for a in range(n)]
        Uu = [("bin", "Add", L[a], ("const", "usize", 1)) for a in range(n)]
        symbols = {}
        for a in range(n):
            symbols[("call", VIDX, (("field", ("arg", 1), AXES[a]), L[a]))] = "g%sl" % AXES[a]
            symbols[("call", VIDX, (("field", ("arg", 1), AXES[a]), Uu[a]))] = "g%su" % AXES[a]
            # the same reads through a slice (e.g. inside a helper taking `&[f64]`)
            symbols[("index", ("field", ("arg", 1), AXES[a]), L[a])] = "g%sl" % AXES[a]
            symbols[("index", ("field", ("arg", 1), AXES[a]), Uu[a])] = "g%su" % AXES[a]
            symbols[point(a)] = "p" + AXES[a]
        for corner in range(2 ** n):
            bits = [(corner >> a) & 1 for a in range(n)]
            t = ("field", ("arg", 1), fld)
            for a in range(n):
                t = ("call", VIDX, (t, Uu[a] if bits[a] else L[a]))
            symbols[t] = "f_" + "".join("u" if bt else "l" for bt in bits)
        main = []
        for r in oks:
            pay = agg_payload(r.ret)
            if n == 1 and sel_position_some(r):
                # exact grid hit: f_x[position(x, |v| v == point)]
                want_ok = pay[0] == "call" and pay[1] == VIDX and pay[2][0] == ("field", ("arg", 1), "f_x") and pay[2][1][0] == "call" and itm(pay[2][1][1], "position") and contains(pay[2][1][2][0], lambda s: s == ("field", ("arg", 1), "x"))
                cl = pay[2][1][2][1] if want_ok else None
                if want_ok and cl[0] == "closure" and cl[2] == (("arg", 2),):
                    crt = nosite(deep_strip(Terms(F.need(cl[1])).return_term()))
                    c = as_cmp(crt)
                    want_ok = c is not None and c[0] == "Eq" and {c[1], c[2]} == {("arg", 2), ("field", ("arg", 1), "0")}
                else:
                    want_ok = False
                ctx.check(want_ok, "%s:grid-hit" % name, "the early return is not f_x[i] for the i with x[i] == point", b.where(), detail="f_x[position(x == point)]")
                continue
            main.append(pay)
        if not ctx.check(len(main) == 1, "%s:single-formula" % name, "expected one interpolating return, found %d" % len(main), b.where()):
            continue
        # 1. every division in the formula is the fraction of one axis (exact rational identity)
        A = Arith(F, symbols=symbols)
        S = lambda nm: Ratio(Poly.sym(nm))
        fr_ref = {a: (S("p" + AXES[a]) - S("g" + AXES[a] + "l")) / (S("g" + AXES[a] + "u") - S("g" + AXES[a] + "l")) for a in range(n)}
        divs = list(dict.fromkeys(x for x in subterms(main[0]) if x[0] == "bin" and x[1] == "Div"))
        sym2 = dict(symbols)
        okd = bool(divs)
        for dv in divs:
            got_d = A.ev(dv)
            ax = [a for a in range(n) if got_d.equals(fr_ref[a])]
            if len(ax) != 1:
                okd = False
                ctx.bad("%s:fraction" % name, "a division in the formula is not (p - g[l])/(g[l+1] - g[l]) of one axis with l = find_nearest_index(that axis, that coordinate): %s" % short(dv)[:200], b.where())
                continue
            sym2[dv] = "d" + AXES[ax[0]]
        if not okd:
            continue
        ctx.ok("%s:fractions" % name, "%d fraction terms, one axis each" % len(divs))
        # 2. with the fractions named d_axis the result is the multilinear blend (exact polynomial identity)
        A2 = Arith(F, symbols=sym2)
        got = A2.ev(main[0])
        stray = sorted(s_ for s_ in got_symbols(got) if not re.match(r"^(f_[lu]+|d[xyz])$", s_))
        if stray:
            ctx.bad("%s:index-discipline" % name, "the formula reads a value outside the cell of its own axis (wrong axis, wrong index or another coordinate): %s" % "; ".join(s_[:120] for s_ in stray[:3]), b.where())
            continue
        ctx.ok("%s:index-discipline" % name, "all %d reads are own-axis l/u reads" % len(got_symbols(got)))
        one = Ratio(Poly.const(1))
        want = Ratio(Poly.const(0))
        for corner in range(2 ** n):
            bits = [(corner >> a) & 1 for a in range(n)]
            term = S("f_" + "".join("u" if bt else "l" for bt in bits))
            for a, bt in enumerate(bits):
                term = term * (S("d" + AXES[a]) if bt else (one - S("d" + AXES[a])))
            want = want + term
        ctx.check(got.equals(want), "%s:multilinear-identity" % name, "the returned expression is not the multilinear blend of the %d cell corners with weights d / 1-d" % (2 ** n), b.where(), detail="sum f*prod w (%d corners)" % (2 ** n))
        # every Err return is the propagated Err of find_nearest_index
        for r in errs:
            ctx.check(is_err_value(r.ret) and contains(r.ret, lambda s: s[0] == "call" and s[1] == FNI), "%s:err=index-search-only" % name, "an Err return does not come from find_nearest_index", b.where())


def got_symbols(r):
    s = set(r.p.symbols())
    if hasattr(r, "q") and r.q is not None:
        s |= set(r.q.symbols())
    return s


def sel_position_some(r):
    for k, v in r.sel.items():
        if k[0] == "call" and itm(k[1], "position"):
            return v == "Some"
    return False


def R3b_nd(ctx):
    """C14.R3b N-D blend step"""
    F = ctx.F
    ctx.rule("C14.R3b", "InterpND::linear (necessary conditions): per dimension lower = find_nearest_index(grid[dim], point[dim]) and diff = (point[dim]-grid[dim][lower])/(grid[dim][lower+1]-grid[dim][lower]); the blend step stores vals[l]*(1-diff) + vals[u]*diff with l = perms[i], u = perms[half+i]; coinciding coordinates are removed together with their grid axis and value axis", floor=3)
    b = F.need(I + "interp::InterpND::linear")
    tm = Terms(b)
    fn = [c for c in b.calls() if c.callee == FNI]
    if not ctx.check(len(fn) == 1, "nd:index-search", "expected one find_nearest_index call", b.where()):
        return
    loop = innermost_loop(b, fn[0].bb)
    ok = loop is not None
    if ok:
        rows = [r for r in iteration_table(b, loop[0]) if r.kind == "back"]
        ok = len(rows) == 1
    if ok:
        r = rows[0]
        pushes = [(bb, v) for bb, v in r.calls if v[0] == "call" and v[1] == "std::vec::Vec::<T, A>::push"]
        ok = len(pushes) == 2
    if ok:
        vals = [clean(v[2][1]) for _, v in pushes]
        idx = [v for v in vals if v[0] == "call" and v[1] == FNI]
        frac = [v for v in vals if not (v[0] == "call" and v[1] == FNI)]
        ok = len(idx) == 1 and len(frac) == 1
    if ok:
        l = idx[0]
        g, p = l[2]
        dim = None
        if g[0] == "at" and p[0] == "at" and g[2] == p[2]:
            dim = g[2]
        ok = dim is not None and dim[0] == "call" and itm(dim[1], "next")
        if ok:
            A = Arith(F, symbols={p: "p", ("at", g, l): "gl", ("at", g, ("bin", "Add", l, ("const", "usize", 1))): "gu"})
            got = A.ev(frac[0])
            S = lambda nm: Ratio(Poly.sym(nm))
            ok = got.equals((S("p") - S("gl")) / (S("gu") - S("gl")))
    ctx.check(ok, "nd:fraction", "the per-dimension fraction is not (point[dim]-grid[dim][l])/(grid[dim][l+1]-grid[dim][l]) with l = find_nearest_index(grid[dim], point[dim])", fn[0].where(), detail="(p-g[l])/(g[l+1]-g[l])")
    # blend step: the store through index_mut
    im = [c for c in b.calls() if c.callee and re.search(r"IndexMut<I>.*::index_mut$", c.callee)]
    okb = len(im) == 1
    if okb:
        lp = innermost_loop(b, im[0].bb)
        okb = lp is not None
    if okb:
        rows = [r for r in iteration_table(b, lp[0]) if r.kind == "back" and r.stores]
        okb = len(rows) >= 1
        for r in rows:
            st = [(unmut_all(nosite(deep_strip(a))), unmut_all(nosite(deep_strip(v)))) for a, v in r.stores]
            st = [(a, v) for a, v in st if a[0] == "call" and a[1].endswith("index_mut")]
            if len(st) != 1:
                okb = False
                break
            a, v = st[0]
            reads = [s for s in subterms(v) if s[0] == "call" and re.search(r"ops::Index<I> for ndarray::ArrayBase<S, D>>::index$", s[1])]
            reads = list(dict.fromkeys(reads))
            if len(reads) != 2:
                okb = False
                break
            # order: l = perms[i], u = perms[len + i]
            def perm_index(rd):
                s = [x for x in subterms(rd[2][1]) if x[0] == "call" and x[1] == VIDX]
                return s[0][2][1] if s else None
            i0, i1 = perm_index(reads[0]), perm_index(reads[1])
            lo, up = (reads[0], reads[1])
            if i0 is not None and i0[0] == "bin":
                lo, up, i0, i1 = reads[1], reads[0], i1, i0
            okb = okb and i1 is not None and i1[0] == "bin" and i1[1] == "Add" and i1[3] == i0 and i1[2][0] == "call" and i1[2][1].endswith("::len")
            A = Arith(F, symbols={lo: "vl", up: "vu"})
            got = A.ev(v)
            others = sorted(s for s in got_symbols(got) if s not in ("vl", "vu"))
            okb = okb and len(others) == 1
            if okb:
                S = lambda nm: Ratio(Poly.sym(nm))
                one = Ratio(Poly.const(1))
                okb = got.equals(S("vl") * (one - S(others[0])) + S("vu") * S(others[0]))
    ctx.check(okb, "nd:blend-step", "the N-D blend step is not vals[perms[i]]*(1-diff) + vals[perms[half+i]]*diff", im[0].where() if im else b.where(), detail="l*(1-d) + u*d")
    # coincident coordinates: point.remove(dim), grid.remove(dim), index_axis_inplace(Axis(dim), pos)
    rm = [c for c in b.calls() if c.callee == "std::vec::Vec::<T, A>::remove"]
    ia = [c for c in b.calls() if c.callee and c.callee.endswith("index_axis_inplace")]
    okc = len(rm) == 2 and len(ia) == 1
    if okc:
        d0 = [nosite(deep_strip(tm.operand(c.args[1], c.bb))) for c in rm]
        ax = nosite(deep_strip(tm.operand(ia[0].args[1], ia[0].bb)))
        pos = nosite(deep_strip(tm.operand(ia[0].args[2], ia[0].bb)))
        okc = d0[0] == d0[1] and contains(ax, lambda s: s == d0[0]) and contains(pos, lambda s: s[0] == "call" and itm(s[1], "position"))
        okc = okc and rm[0].bb in b.dom.get(ia[0].bb, ()) | {rm[0].bb} and innermost_loop(b, rm[0].bb) == innermost_loop(b, ia[0].bb)
    # ... and "coincides" is exact equality: a dimension is dropped only when the coordinate *is* a grid value.  A tolerance here
    # snaps a coordinate to a neighbouring grid value and returns that slice's value (round 7: `abs() < 1e-6` on an axis with a finer
    # spacing) — the N-D interpolator then disagrees with the 1/2/3-D ones and no longer reproduces multilinear functions
    oke = False
    if okc:
        for pt in [x for x in subterms(pos) if x[0] == "call" and itm(x[1], "position") and len(x[2]) == 2 and x[2][1][0] == "closure" and x[2][1][1] in F.bodies]:
            cmp_ = as_cmp(clean(Terms(F.bodies[pt[2][1][1]]).return_term()))
            oke = bool(cmp_) and cmp_[0] == "Eq"
    ctx.check(oke, "nd:coincidence-is-exact-equality", "the test that drops a dimension is not `grid value == coordinate`", b.where(), detail="position(|g| g == point[dim])")
    ctx.check(okc, "nd:coincident-axis-removed-consistently", "a coordinate that coincides with a grid value is not removed from point, grid and the value view by the same dimension/position", b.where(), detail="point.remove(dim); grid.remove(dim); view.index_axis_inplace(Axis(dim), pos)")


def R4_rejection(ctx):
    """C14.R4 rejection outside the grid"""
    F = ctx.F
    ctx.rule("C14.R4", "interpolate: validate_inputs(point) first, Err propagated, then Linear dispatches to the variant's own linear(point); validate_inputs accepts only if for every axis i: axis_i[0] <= point[i] <= axis_i.last (1-D, 2-D, 3-D and the N-D loop over all dimensions) and point.len() == ndim; constructors run validate() and propagate; validate requires strictly increasing axes and matching shapes; the structs are only built by their constructors", floor=30)
    b = F.need(I + "interp::Interpolator::interpolate")
    tm = Terms(b)
    vi = [c for c in b.calls() if c.callee == I + "interp::Interpolator::validate_inputs"]
    ok = len(vi) == 1 and [nosite(deep_strip(tm.operand(x, vi[0].bb))) for x in vi[0].args][:2] == [("arg", 1), ("arg", 2)]
    ctx.check(ok, "interpolate:validates-its-own-point", "validate_inputs(self, point) is not called", b.where())
    if ok:
        pr = try_propagation(b, vi[0], tm)
        ctx.check(pr["kind"] == "propagated", "interpolate:validation-error-propagated", "Err of validate_inputs is not propagated: %s" % pr["detail"], vi[0].where())
        for c in b.calls():
            if c.callee and re.search(r"interp::Interp\wD::\w+$", c.callee):
                ctx.check(b.dominates(pr.get("ok_target", -1), c.bb) if pr["kind"] == "propagated" else False, "interpolate:%s-after-validation" % c.callee.split("interp::")[-1], "the lookup is reachable without a successful validation", c.where())
    disp = {"Interp1D": ("Interp1D::linear", ("index", ("arg", 2), ("const", "usize", 0))), "Interp2D": ("Interp2D::linear", ("arg", 2)), "Interp3D": ("Interp3D::linear", ("arg", 2)), "InterpND": ("InterpND::linear", ("arg", 2))}
    seen = set()
    for r in table(b, max_paths=100000):
        if r.end != "return":
            continue
        v = r.sel.get(("arg", 1))
        st = r.sel.get(("arg", 3))
        if isinstance(v, tuple) or v not in disp:
            continue
        lin = st == "Linear" or (isinstance(st, tuple) and "Linear" in st[1] and v != "InterpND")
        if st != "Linear":
            continue
        seen.add(v)
        fn, pt = disp[v]
        want = ("call", I + "interp::" + fn, (("field", ("variant", ("arg", 1), v), "0"), pt))
        got = r.ret
        ctx.check(got == want or (got[0] == "phi" and want in got[1]), "dispatch:%s/Linear" % v, "Linear on %s does not return %s(point): %s" % (v, fn, short(got)[:160]), b.where(), detail=fn)
    ctx.check(seen == set(disp), "dispatch:complete", "Linear dispatch rows found for %s only" % sorted(seen), b.where())
    # validate_inputs
    vb = F.need(I + "interp::Interpolator::validate_inputs")
    rows = [r for r in table(vb, max_paths=100000)]
    dims = {"Interp1D": 1, "Interp2D": 2, "Interp3D": 3}
    n_ok = 0
    for r in rows:
        if r.end != "return" or result_variant(r.ret) != "Ok":
            continue
        v = r.sel.get(("arg", 1))
        if v in dims:
            n_ok += 1
            for a in range(dims[v]):
                g = ("field", ("field", ("variant", ("arg", 1), v), "0"), AXES[a])
                p = ("index", ("arg", 2), ("const", "usize", a))
                lo = ("Le", ("call", VIDX, (g, ("const", "usize", 0))), p)
                hi = ("Le", p, ("call", "std::slice::<impl [T]>::last", (g,)))
                lo2 = ("Le", ("call", "std::slice::<impl [T]>::first", (g,)), p)
                ctx.check((lo in r.facts or lo2 in r.facts) and hi in r.facts, "validate:%s:axis-%s" % (v, AXES[a]), "a point is accepted without %s[0] <= point[%d] <= %s.last" % (AXES[a], a, AXES[a]), vb.where(), detail="%s[0] <= p[%d] <= %s.last" % (AXES[a], a, AXES[a]))
        # arity
        nd = ("call", I + "interp::Interpolator::ndim", (("arg", 1),))
        ln = ("call", "std::slice::<impl [T]>::len", (("arg", 2),))
        em = ("call", "std::slice::<impl [T]>::is_empty", (("arg", 2),))
        ar = ("Eq", nd, ln) in r.facts or ("Eq", ln, nd) in r.facts or (("Eq", nd, ("const", "usize", 0)) in r.facts or ("Eq", ("const", "usize", 0), nd) in r.facts) and (em, "otherwise") in [(a_, l_) for a_, l_ in r.bools]
        ctx.check(ar, "validate:arity:%s" % (v if isinstance(v, str) else "0D"), "a point is accepted without point.len() == ndim", vb.where(), detail="len == ndim")
    ctx.check(n_ok >= 3, "validate:variants-covered", "accepting paths found for %d fixed-dimension variants" % n_ok, vb.where())
    # N-D loop
    nxs = [c for c in vb.calls() if c.func.get("method") == "next"]
    okn = len(nxs) == 1
    if okn:
        vtm = Terms(vb)
        recv = nosite(deep_strip(vtm.operand(nxs[0].args[0], nxs[0].bb)))
        rng = ("agg", "std::ops::Range", "Range", (("start", ("const", "usize", 0)), ("end", ("call", I + "interp::Interpolator::ndim", (("arg", 1),)))))
        okn = contains(recv, lambda s: s == rng) and not [x for x in calls_in(recv) if re.search(r"Iterator>?::(skip|take|step_by|filter|rev)$", x[1])]
        lp = innermost_loop(vb, nxs[0].bb)
        okn = okn and lp is not None
    if okn:
        it = iteration_table(vb, lp[0])
        i = None
        backs = [r for r in it if r.kind == "back"]
        okn = len(backs) >= 1
        for r in backs:
            nx = [v for _, v in r.calls if v[0] == "call" and itm(v[1], "next")]
            if len(nx) != 1:
                okn = False
                break
            i = nosite(deep_strip(nx[0]))
            g = ("call", VIDX, (("field", ("field", ("variant", ("arg", 1), "InterpND"), "0"), "grid"), i))
            p = ("index", ("arg", 2), i)
            lo = ("Le", ("call", VIDX, (g, ("const", "usize", 0))), p)
            lo2 = ("Le", ("call", "std::slice::<impl [T]>::first", (g,)), p)
            hi = ("Le", p, ("call", "std::slice::<impl [T]>::last", (g,)))
            okn = okn and (lo in r.facts or lo2 in r.facts) and hi in r.facts
        # leaving the loop other than by exhaustion is an Err
        for r in it:
            if r.kind == "return":
                exhausted = any(l_ == "None" for d_, l_, _ in r.conds if d_[0] == "discr")
                if not exhausted:
                    okn = okn and (is_err_value(r.ret) or result_variant(nosite(deep_strip(r.ret))) == "Err")
    ctx.check(okn, "validate:InterpND:every-dimension", "the N-D check does not require grid[i][0] <= point[i] <= grid[i].last for every i in 0..ndim (same i on all three)", vb.where(), detail="for i in 0..n: grid[i][0] <= p[i] <= grid[i].last")
    # constructors + validate
    for name, axes in (("Interp1D", ["x"]), ("Interp2D", ["x", "y"]), ("Interp3D", ["x", "y", "z"]), ("InterpND", None)):
        nb = F.need(I + "interp::%s::new" % name)
        ntm = Terms(nb)
        vc = [c for c in nb.calls() if c.func.get("method") == "validate" or (c.callee or "").endswith("InterpValidate>::validate")]
        okc = len(vc) == 1 and try_propagation(nb, vc[0], ntm)["kind"] == "propagated"
        if okc:
            self_t = nosite(deep_strip(ntm.operand(vc[0].args[0], vc[0].bb)))
            oks = table_ok_rows(nb)
            okc = len(oks) == 1 and unmut_all(agg_payload(oks[0].ret)) == unmut_all(self_t) and self_t[0] == "agg"
            if okc and axes:
                fl = dict(self_t[3])
                okc = all(fl.get(a) == ("arg", i + 1) for i, a in enumerate(axes)) and fl.get({"Interp1D": "f_x", "Interp2D": "f_xy", "Interp3D": "f_xyz"}[name]) == ("arg", len(axes) + 1)
        ctx.check(okc, "ctor:%s:validated" % name, "%s::new does not validate the value it returns (fields in argument order) and propagate the error" % name, nb.where(), detail="interp.validate()?; Ok(interp)")
        # who may build the struct
        adt = I + "interp::" + name
        builders = set()
        for p, bd in F.bodies.items():
            for blk in bd.blocks:
                for s in blk["stmts"]:
                    if s["k"] == "assign" and s["rv"]["k"] == "agg" and s["rv"].get("adt") == adt:
                        builders.add(p)
        ctx.check(builders == {nb.path}, "ctor:%s:only-builder" % name, "%s is built outside its validating constructor: %s" % (name, sorted(builders - {nb.path})), nb.where(), detail="struct literal only in new")
        if axes:
            vb2 = F.one("interp::%s as %sinterp::InterpValidate>::validate" % (name, I))
            oks = table_ok_rows(vb2)
            okm = len(oks) >= 1
            for r in oks:
                for a in axes:
                    mono = [d for d, l in r.bools if l != 0 and d[0] == "call" and itm(d[1], "all") and contains(d[2][0], lambda s: s[0] == "call" and s[1].endswith("::windows") and s[2] == (("field", ("arg", 1), a), ("const", "usize", 2)))]
                    good = False
                    for d in mono:
                        cl = d[2][1]
                        if cl[0] == "closure":
                            crt = nosite(deep_strip(Terms(F.need(cl[1])).return_term()))
                            c = as_cmp(crt)
                            if c:
                                c = canon_cmp(c)
                                good = c[0] == "Lt" and c[1] == ("index", ("arg", 2), ("const", "usize", 0)) and c[2] == ("index", ("arg", 2), ("const", "usize", 1))
                    okm = okm and good
            ctx.check(okm, "validate:%s:strictly-increasing-axes" % name, "validate() accepts a grid without checking w[0] < w[1] on every window of every axis", vb2.where(), detail="windows(2).all(w[0] < w[1]) per axis")


def R5_index_search(ctx):
    """C14.R5 find_nearest_index is the reference bisection"""
    F = ctx.F
    ctx.rule("C14.R5", "find_nearest_index(arr, t): t == arr.last => len-2 (empty => Err); low=0, high=len-1; while low<high { mid in [low,high): low+(high-low)/2; if arr[mid] >= t {high=mid} else {low=mid+1} }; result low-1 if low>0 && arr[low] >= t else low — the one-iteration transfer function, entry values and exits equal this reference (proved on paper: for sorted arr, len>=2, arr[0] <= t <= arr.last the result l satisfies arr[l] <= t <= arr[l+1], l+1 < len)", floor=9)
    b = F.need(FNI)
    loops = b.natural_loops()
    if not loops and _bisection_recursive_form(ctx, F, b):
        return
    if not ctx.check(len(loops) == 1, "single-loop", "expected exactly one loop, found %d" % len(loops), b.where()):
        return
    h = loops[0][0]
    rows = iteration_table(b, h)
    back = [r for r in rows if r.kind == "back"]
    rets = [r for r in rows if r.kind == "return"]
    carried = sorted({l for r in back for l in r.env if any(s == ("carried", l) for rr in rows for c in rr.conds for s in subterms(c[0]))})
    # identify low/high by the loop test  low < high
    test = None
    for r in back:
        for f in r.facts:
            if f[0] == "Lt" and f[1][0] == "carried" and f[2][0] == "carried":
                test = (f[1][1], f[2][1])
    if not ctx.check(test is not None, "loop-test:low<high", "the loop does not iterate under `low < high` on two carried variables", b.where(h)):
        return
    lo, hi = test
    LO, HI = ("carried", lo), ("carried", hi)
    A = Arith(F, symbols={LO: "low", HI: "high"})
    S = lambda nm: Ratio(Poly.sym(nm))
    two = Ratio(Poly.const(2))
    one = Ratio(Poly.const(1))
    mid_ref = (S("low") + S("high")) / two

    def is_mid(t):
        t = nosite(deep_strip(t))
        # integer division by 2 read over the rationals; the two accepted spellings agree there
        if not contains(t, lambda s: s[0] == "bin" and s[1] == "Div" and s[3] == ("const", "usize", 2)):
            return False
        return A.ev(t).equals(mid_ref) and shape_mid(t, LO, HI)

    seen = set()
    for r in back:
        nl, nh = nosite(deep_strip(r.new(lo))), nosite(deep_strip(r.new(hi)))
        ge = [f for f in r.facts if f[0] == "Le" and f[1] == ("arg", 2) and f[2][0] == "index" and f[2][1] == ("arg", 1) and is_mid(f[2][2])]
        lt = [f for f in r.facts if f[0] == "Lt" and f[2] == ("arg", 2) and f[1][0] == "index" and f[1][1] == ("arg", 1) and is_mid(f[1][2])]
        if ge and not lt:
            seen.add("ge")
            ctx.check(nl == LO and is_mid(nh), "step:arr[mid]>=t=>high=mid", "when arr[mid] >= target the step is not (low, high) := (low, mid): low'=%s high'=%s" % (short(nl)[:80], short(nh)[:80]), b.where(), detail="high = mid")
        elif lt and not ge:
            seen.add("lt")
            okl = nh == HI and nl[0] == "bin" and nl[1] == "Add" and is_mid(nl[2]) and nl[3] == ("const", "usize", 1)
            ctx.check(okl, "step:arr[mid]<t=>low=mid+1", "when arr[mid] < target the step is not (low, high) := (mid+1, high): low'=%s high'=%s" % (short(nl)[:80], short(nh)[:80]), b.where(), detail="low = mid + 1")
        else:
            ctx.bad("step:unrecognised", "an iteration path does not compare arr[mid] with the target (facts %s)" % [short(("bin",) + f)[:80] for f in r.facts], b.where())
    ctx.check(seen == {"ge", "lt"}, "step:both-branches", "the loop body does not have both the >= and the < step", b.where())
    e_lo, e_hi = nosite(deep_strip(loop_entry_value(b, h, lo))), nosite(deep_strip(loop_entry_value(b, h, hi)))
    ln = ("call", "std::slice::<impl [T]>::len", (("arg", 1),))
    ctx.check(e_lo == ("const", "usize", 0) and e_hi == ("bin", "Sub", ln, ("const", "usize", 1)), "entry:low=0,high=len-1", "the search does not start with (0, len-1): (%s, %s)" % (short(e_lo), short(e_hi)), b.where(), detail="(0, len-1)")
    # exits
    exits = {"adjust": 0, "keep>0": 0, "keep=0": 0}
    for r in rets:
        rv = nosite(deep_strip(r.ret))
        pay = agg_payload(rv) if result_variant(rv) == "Ok" else None
        pos = ("Lt", ("const", "usize", 0), LO) in r.facts
        zero = ("Le", LO, ("const", "usize", 0)) in r.facts or ("Eq", LO, ("const", "usize", 0)) in r.facts or ("Eq", ("const", "usize", 0), LO) in r.facts
        ge = ("Le", ("arg", 2), ("index", ("arg", 1), LO)) in r.facts
        lt = ("Lt", ("index", ("arg", 1), LO), ("arg", 2)) in r.facts
        done = ("Le", HI, LO) in r.facts
        if not done:
            ctx.bad("exit:without-loop-test", "the loop is left while low < high may still hold", b.where())
            continue
        if pos and ge:
            exits["adjust"] += 1
            ctx.check(pay == ("bin", "Sub", LO, ("const", "usize", 1)), "exit:low>0&&arr[low]>=t=>low-1", "returns %s" % short(rv)[:80], b.where(), detail="low - 1")
        elif pos and lt:
            exits["keep>0"] += 1
            ctx.check(pay == LO, "exit:arr[low]<t=>low", "returns %s" % short(rv)[:80], b.where(), detail="low")
        elif zero:
            exits["keep=0"] += 1
            ctx.check(pay == LO or pay == ("const", "usize", 0), "exit:low=0=>low", "returns %s" % short(rv)[:80], b.where(), detail="low (= 0)")
        else:
            ctx.bad("exit:unrecognised", "an exit path decides on other facts: %s" % [short(("bin",) + f)[:80] for f in r.facts], b.where())
    ctx.check(all(v >= 1 for v in exits.values()), "exit:all-three", "not all three exits (low-1 / low / 0) are present: %s" % exits, b.where())
    # pre-loop special case
    pre = [r for r in table(b, max_paths=1000)]
    okl = okn = False
    for r in pre:
        if r.end != "return":
            continue
        eq = ("Eq", ("arg", 2), ("call", "std::slice::<impl [T]>::last", (("arg", 1),))) in r.facts or ("Eq", ("call", "std::slice::<impl [T]>::last", (("arg", 1),)), ("arg", 2)) in r.facts
        if eq and result_variant(r.ret) == "Ok":
            okl = agg_payload(r.ret) == ("bin", "Sub", ln, ("const", "usize", 2))
        if is_err_value(r.ret):
            okn = True
    ctx.check(okl, "pre:t==last=>len-2", "the upper boundary does not map to the last cell (len-2)", b.where(), detail="t == arr.last => len-2")
    ctx.check(okn, "pre:empty=>Err", "an empty axis is not an Err", b.where())
    other = [r for r in rows if r.kind == "cycle"]
    ctx.check(not other, "no-other-cycles", "unexpected second cycle", b.where())


def _bisection_recursive_form(ctx, F, b):
    """the same bisection as a tail recursion: lb(arr, t, low, high) = low if low >= high else (lb(arr, t, low, mid) if
    arr[mid] >= t else lb(arr, t, mid + 1, high)), entered with (0, len - 1); its result takes the place of `low` at the exits.
    One call of lb is one turn of the loop.  False when no such helper is used."""
    known = known_functions()
    with no_inline():
        helpers = [c for c in b.calls() if c.callee in F.bodies and known and c.callee not in known and "{closure" not in c.callee]
    helpers = [c for c in helpers if any(x.callee == c.callee for x in F.bodies[c.callee].calls())]
    if len(helpers) != 1:
        return False
    hc = helpers[0]
    hb = F.bodies[hc.callee]
    if hb.argc != 4 or hb.natural_loops():
        return False
    ARR, T, LO, HI = ("arg", 1), ("arg", 2), ("arg", 3), ("arg", 4)
    A = Arith(F, symbols={LO: "low", HI: "high"})
    S = lambda nm: Ratio(Poly.sym(nm))
    mid_ref = (S("low") + S("high")) / Ratio(Poly.const(2))
    def is_mid(t):
        t = nosite(deep_strip(t))
        if not contains(t, lambda q: q[0] == "bin" and q[1] == "Div" and q[3] == ("const", "usize", 2)):
            return False
        return A.ev(t).equals(mid_ref) and shape_mid(t, LO, HI)
    with no_inline():
        rows = [r for r in table(hb) if r.end == "return"]
    seen = set()
    stop = False
    for r in rows:
        rv = nosite(deep_strip(r.ret))
        facts = {(f[0], unmut(f[1]), unmut(f[2])) for f in r.facts}
        if ("Le", HI, LO) in facts:
            stop = True
            ctx.check(rv == LO, "loop-test:low<high", "with low >= high the bisection does not answer low: %s" % short(rv)[:80], hb.where(), detail="low >= high => low")
            continue
        if ("Lt", LO, HI) not in facts:
            ctx.bad("exit:without-loop-test", "a path of the bisection helper decides without the test low < high", hb.where())
            continue
        ge = [f for f in facts if f[0] == "Le" and f[1] == T and f[2][0] == "index" and f[2][1] == ARR and is_mid(f[2][2])]
        lt = [f for f in facts if f[0] == "Lt" and f[2] == T and f[1][0] == "index" and f[1][1] == ARR and is_mid(f[1][2])]
        rec = rv[0] == "call" and rv[1] == hb.path and len(rv[2]) == 4 and rv[2][0] == ARR and rv[2][1] == T
        if ge and not lt:
            seen.add("ge")
            ctx.check(rec and rv[2][2] == LO and is_mid(rv[2][3]), "step:arr[mid]>=t=>high=mid", "when arr[mid] >= target the step is not (low, high) := (low, mid): %s" % short(rv)[:120], hb.where(), detail="high = mid")
        elif lt and not ge:
            seen.add("lt")
            nl = rv[2][2] if rec else None
            okl = rec and rv[2][3] == HI and nl[0] == "bin" and nl[1] == "Add" and is_mid(nl[2]) and nl[3] == ("const", "usize", 1)
            ctx.check(okl, "step:arr[mid]<t=>low=mid+1", "when arr[mid] < target the step is not (low, high) := (mid+1, high): %s" % short(rv)[:120], hb.where(), detail="low = mid + 1")
        else:
            ctx.bad("step:unrecognised", "a path of the bisection helper does not compare arr[mid] with the target", hb.where())
    ctx.check(stop, "loop-test:low<high", "the bisection helper never stops on low >= high", hb.where())
    ctx.check(seen == {"ge", "lt"}, "step:both-branches", "the bisection helper does not have both the >= and the < step", hb.where())
    # entry and exits in find_nearest_index
    with no_inline():
        tm = Terms(b)
        ea = [nosite(deep_strip(tm.operand(x, hc.bb))) for x in hc.args]
        R_ = nosite(deep_strip(tm.call_term(hc.term, hc.bb)))
        rows_b = [r for r in table(b, max_paths=2000) if r.end == "return"]
    ln = ("call", "std::slice::<impl [T]>::len", (("arg", 1),))
    ctx.check(ea[0] == ("arg", 1) and ea[1] == ("arg", 2) and ea[2] == ("const", "usize", 0) and ea[3] == ("bin", "Sub", ln, ("const", "usize", 1)), "entry:low=0,high=len-1", "the search does not start with (0, len-1): (%s, %s)" % (short(ea[2]), short(ea[3])), hc.where(), detail="(0, len-1)")
    exits = {"adjust": 0, "keep>0": 0, "keep=0": 0}
    okl = okn = False
    for r in rows_b:
        rv = nosite(deep_strip(r.ret))
        pay = agg_payload(rv) if result_variant(rv) == "Ok" else None
        facts = {(f[0], unmut(f[1]), unmut(f[2])) for f in r.facts}
        uses = contains(rv, lambda q: q == R_) or any(contains(f[1], lambda q: q == R_) or contains(f[2], lambda q: q == R_) for f in facts)
        if is_err_value(rv) or result_variant(rv) == "Err":
            okn = True
            continue
        if not uses:
            last = ("call", "std::slice::<impl [T]>::last", (("arg", 1),))
            if (("Eq", ("arg", 2), last) in facts or ("Eq", last, ("arg", 2)) in facts) and pay == ("bin", "Sub", ln, ("const", "usize", 2)):
                okl = True
            continue
        pos = ("Lt", ("const", "usize", 0), R_) in facts
        zero = ("Eq", R_, ("const", "usize", 0)) in facts or ("Eq", ("const", "usize", 0), R_) in facts or ("Le", R_, ("const", "usize", 0)) in facts
        ge = ("Le", ("arg", 2), ("index", ("arg", 1), R_)) in facts
        lt = ("Lt", ("index", ("arg", 1), R_), ("arg", 2)) in facts
        if pos and ge:
            exits["adjust"] += 1
            ctx.check(pay == ("bin", "Sub", R_, ("const", "usize", 1)), "exit:low>0&&arr[low]>=t=>low-1", "returns %s" % short(rv)[:80], b.where(), detail="low - 1")
        elif pos and lt:
            exits["keep>0"] += 1
            ctx.check(pay == R_, "exit:arr[low]<t=>low", "returns %s" % short(rv)[:80], b.where(), detail="low")
        elif zero:
            exits["keep=0"] += 1
            ctx.check(pay == R_ or pay == ("const", "usize", 0), "exit:low=0=>low", "returns %s" % short(rv)[:80], b.where(), detail="low (= 0)")
        else:
            ctx.bad("exit:unrecognised", "an exit path decides on other facts: %s" % [short(("bin",) + f)[:80] for f in r.facts], b.where())
    ctx.check(all(v >= 1 for v in exits.values()), "exit:all-three", "not all three exits (low-1 / low / 0) are present: %s" % exits, b.where())
    ctx.check(okl, "pre:t==last=>len-2", "the upper boundary does not map to the last cell (len-2)", b.where(), detail="t == arr.last => len-2")
    ctx.check(okn, "pre:empty=>Err", "an empty axis is not an Err", b.where())
    ctx.check(True, "no-other-cycles", "", b.where())
    return True


def shape_mid(t, LO, HI):
    """mid is low + (high-low)/2 or (low+high)/2 over integers (both lie in [low, high) when low < high)"""
    t = t[1] if t[0] == "field" and t[2] == "0" else t
    U = lambda x: x[1] if x[0] == "field" and x[2] == "0" else x
    if t[0] == "bin" and t[1] in ("AddWithOverflow", "Add"):
        a, d = U(t[2]), U(t[3])
        if a == LO and d[0] == "bin" and d[1] == "Div":
            s = U(d[2])
            return s[0] == "bin" and s[1] in ("SubWithOverflow", "Sub") and U(s[2]) == HI and U(s[3]) == LO
    if t[0] == "bin" and t[1] == "Div":
        s = U(t[2])
        return s[0] == "bin" and s[1] in ("AddWithOverflow", "Add") and {U(s[2]), U(s[3])} == {LO, HI}
    return False


def R6_units(ctx):
    F = ctx.F
    sel = lambda fn: (I in fn) or ("smartcore_speed_grade_model" in fn) or ("prediction_model_record" in fn)
    common.unit_rule(ctx, "C14.R6", "unit typestate in the interpolation / smartcore / record predict functions: inputs are converted from the caller's unit into the model's stored unit and the energy is created from (rate, rate unit, distance, distance unit)", sel, floor=4)


def R7_configured_grid(ctx):
    """C14.R7 the configured grid reaches the constructor role by role"""
    F = ctx.F
    ctx.rule("C14.R7", "load_prediction_model builds the interpolated model from the configured ModelType::Interpolate field by field: new(path, underlying_model_type, name, speed_unit, (speed_lower_bound, speed_upper_bound), speed_bins, grade_unit, (grade_lower_bound, grade_upper_bound), grade_bins, energy_rate_unit) — parameter positions as fixed by C14.R2", floor=10)
    b = F.need(P + "prediction_model_ops::load_prediction_model")
    tm = Terms(b)
    U_ = lambda t: rewrite(nosite(deep_strip(t)), lambda x: unmut(x) if x[0] == "mut" else None)
    cs = [c for c in b.calls_deep() if c.callee == M + "::new"]
    if not ctx.check(len(cs) == 1, "anchors", "expected one InterpolationSpeedGradeModel::new call in load_prediction_model (found %d)" % len(cs), b.where()):
        return
    c = cs[0]
    got = [U_(tm.operand(a, c.bb)) for a in c.args]
    # the variant payload may be read from the by-value argument or from a copy of it
    cfg = lambda name: lambda t: t[0] == "field" and t[2] == name and t[1][0] == "variant" and t[1][2] == "Interpolate" and t[1][1] == ("arg", 3)
    pair = lambda lo, hi: lambda t: t[0] == "tuple" and len(t[1]) == 2 and cfg(lo)(t[1][0]) and cfg(hi)(t[1][1])
    isarg = lambda i: lambda t: t == ("arg", i)
    want = [("path", isarg(2)), ("underlying_model_type", cfg("underlying_model_type")), ("name", isarg(1)), ("speed_unit", isarg(4)), ("speed bounds", pair("speed_lower_bound", "speed_upper_bound")), ("speed_bins", cfg("speed_bins")), ("grade_unit", isarg(5)), ("grade bounds", pair("grade_lower_bound", "grade_upper_bound")), ("grade_bins", cfg("grade_bins")), ("energy_rate_unit", isarg(6))]
    if not ctx.check(len(got) == len(want), "arity", "InterpolationSpeedGradeModel::new takes %d arguments, expected %d" % (len(got), len(want)), c.where()):
        return
    for (role, pred), t in zip(want, got):
        ctx.check(pred(t), "new-argument:%s" % role, "the %s passed to InterpolationSpeedGradeModel::new is %s" % (role, short(t)[:160]), c.where(), detail=role)


def RA_energy_constructors(ctx):
    """the grid is filled with energies the underlying record forms through Energy::create / create_energy for one unit distance in
    the rate's own distance unit: the unit tables and constructors are part of "faithful to the underlying model" (shared with
    C09.R3/R4)"""
    from props.C09 import R3_associated, R4_constructors
    R3_associated(ctx)
    R4_constructors(ctx)


RULES = [R1_clamp, R2_grid, R2b_linspace, R3_weights, R3b_nd, R4_rejection, R5_index_search, R6_units, R7_configured_grid, RA_energy_constructors]
