"""C08 — vehicle energy and battery state follow the powertrain model along a route."""
from core import *
import common
from props import C09

EXPLANATION = (
    "C08: energy = rate(speed, grade) x adjustment x length is decided as value flow, not numerically: (R1) traverse_edge measures the time "
    "delta of the wrapped time model around its own traversal (prev copied before, current read after, same feature, the speed unit's time "
    "unit), builds speed from the edge length in the speed unit's distance unit over that delta, and hands (speed, time-model speed unit), "
    "(grade of this edge, grade-table unit), (length in the output unit, that unit) to the vehicle; (R2) the record's energy is "
    "create(rate x real_world_adjustment, rate unit, distance, distance unit) on every arm, the cache stores exactly the raw rate it later "
    "returns, under the key built from the same (speed, grade); (R3) the SOC functions are clamp(100(start-used)/max, 0, 100), "
    "clamp(100 rem/max, 0, 100), start = max*soc/100, read and written under the same feature (exact rational identities); (R4) each "
    "vehicle adds the predicted energy with the unit it came with to its declared feature and moves the SOC by that energy converted to the "
    "battery unit over the capacity; (R5) the PHEV decides on the SOC read before any update: `soc > 0.0` => depleting record + liquid 0, "
    "else sustaining record + electric 0; (R6) a starting charge outside 0..=100 is an Err and the starting energy is 0.01*soc*capacity of the "
    "same soc; (R7) best case = create(ideal rate, rate unit, distance); the ideal rate search keeps the smaller; (R8) the vehicle registry "
    "maps names to the matching builders with parameters in constructor order; plus unit typestate over the powertrain crate and the unit "
    "constructors lemma (C09.R4). Not decided: the numeric value of the underlying model, float additivity, cache bucket rounding."
)

P = "routee_compass_powertrain::routee::"
U = "routee_compass_core::model::unit::"
SM = "routee_compass_core::model::state::state_model::StateModel::"
VT = P + "vehicle::vehicle_type::VehicleType"
REC = P + "prediction::prediction_model_record::PredictionModelRecord"
OPS = P + "vehicle::vehicle_ops::"
TM = "routee_compass_core::model::traversal::traversal_model::TraversalModel"


def sname(s):
    return ("call", "<T as std::convert::Into<U>>::into{&str,std::string::String}", (("const", "&str", s),))


def is_name(t, s):
    """term is the feature name `s` (a &str constant, possibly converted into a String)"""
    t = unmut(t)
    if t == ("const", "&str", s):
        return True
    return t[0] == "call" and len(t[2]) == 1 and t[2][0] == ("const", "&str", s) and re.search(r"(::into\{|::from\{|String::from|to_string|to_owned)", t[1]) is not None


def args_of(tm, c):
    return [nosite(deep_strip(tm.operand(a, c.bb))) for a in c.args]


def R1_traverse(ctx):
    """C08.R1 speed reconstruction and the three (value, unit) pairs"""
    F = ctx.F
    ctx.rule("C08.R1", "EnergyTraversalModel::traverse_edge: prev = copy of the state before time_model.traverse_edge; time delta = get_time(state after) - get_time(prev) of feature `time` in speed_unit.associated_time_unit(); speed = Speed::from((length in speed_unit.associated_distance_unit(), delta)); consume_energy((speed, speed_unit), (get_grade(table, edge.edge_id), grade unit), (length in distance_unit, distance_unit), state, state_model) on self.vehicle; all errors propagated", floor=12)
    b = F.one("EnergyTraversalModel as %s>::traverse_edge" % TM)
    tm = Terms(b)
    svc = ("field", ("arg", 1), "energy_model_service")
    su = ("field", svc, "time_model_speed_unit")
    edge = ("field", ("arg", 2), "1")
    tt = [c for c in b.calls() if c.func.get("method") == "traverse_edge"]
    ce = [c for c in b.calls() if c.func.get("method") == "consume_energy"]
    gt = [c for c in b.calls() if c.callee == SM + "get_time"]
    cp = [c for c in b.calls() if c.callee in ("std::slice::<impl [T]>::to_vec", "<std::vec::Vec<T, A> as std::clone::Clone>::clone") and root_local(b, c.args[0]) == 3]
    if not ctx.check(len(tt) == 1 and len(ce) == 1 and len(gt) == 2 and len(cp) == 1, "anchors", "expected one time traversal, one consume_energy, two get_time and one state copy (found %d/%d/%d/%d)" % (len(tt), len(ce), len(gt), len(cp)), b.where()):
        return
    tt, ce, cp = tt[0], ce[0], cp[0]
    ta = args_of(tm, tt)
    ctx.check(ta[0] == ("field", ("arg", 1), "time_model") and [unmut(x) for x in ta[1:]] == [("arg", 2), ("arg", 3), ("arg", 4)], "time-model:same-edge-and-state", "the wrapped time model does not traverse (trajectory, state, state_model)", tt.where(), detail="time_model.traverse_edge(trajectory, state, state_model)")
    ctx.check(try_propagation(b, tt, tm)["kind"] == "propagated", "time-model:error", "Err of the time traversal is not propagated", tt.where())
    prev_l = cp.dest["l"]
    ctx.check(b.dominates(cp.bb, tt.bb) and cp.bb != tt.bb, "prev:copied-before-time-traversal", "the previous state is not copied before the time model runs", cp.where(), detail="prev = state.to_vec() dominates traverse_edge")
    before = [c for c in gt if root_local(b, c.args[1]) == prev_l]
    after = [c for c in gt if root_local(b, c.args[1]) == 3]
    okg = len(before) == 1 and len(after) == 1
    ctx.check(okg and b.dominates(tt.bb, after[0].bb) and tt.bb != after[0].bb, "time:read-before-and-after", "the two time reads are not (prev copy, state after the time traversal)", b.where(), detail="get_time(prev), get_time(state) after traverse")
    tu = ("call", U + "speed_unit::SpeedUnit::associated_time_unit", (su,))
    for c in gt:
        a = args_of(tm, c)
        ctx.check(is_name(a[2], "time") and a[3] == tu and unmut(a[0]) == ("arg", 4), "time:feature-and-unit@bb%s" % ("prev" if c in before else "cur"), "time is not read as feature `time` in time_model_speed_unit.associated_time_unit(): %s" % short(("tuple", tuple(a[2:])))[:160], c.where(), detail="get_time(.., \"time\", speed_unit.associated_time_unit())")
        ctx.check(try_propagation(b, c, tm)["kind"] == "propagated", "time:error@%s" % ("prev" if c in before else "cur"), "Err of get_time is not propagated", c.where())
    if not okg:
        return
    ca = [tm.operand(a, ce.bb) for a in ce.args]
    sp, gr, di = [deep_strip(x) for x in ca[1:4]]
    ctx.check(nosite(deep_strip(ca[0])) == ("field", ("arg", 1), "vehicle") and unmut(nosite(deep_strip(ca[4]))) == ("arg", 3) and unmut(nosite(deep_strip(ca[5]))) == ("arg", 4), "consume:receiver-state", "consume_energy is not called on self.vehicle with (state, state_model)", ce.where())
    ctx.check(b.dominates(after[0].bb, ce.bb), "consume:after-time", "consume_energy does not run after the time delta is known", ce.where())
    # speed
    oks = sp[0] == "tuple" and len(sp[1]) == 2 and nosite(sp[1][1]) == su
    if oks:
        s = sp[1][0]
        oks = s[0] == "call" and re.search(r"speed::Speed as std::convert::From<\(.*distance::Distance, .*time::Time\)>>::from(\{.*\})?$|::into\{.*distance::Distance, .*time::Time\),.*speed::Speed\}$", s[1]) is not None and s[2][0][0] == "tuple"
        if oks:
            d, dt = s[2][0][1]
            want_d = ("call", U + "distance_unit::DistanceUnit::convert", (("item", U + "builders::BASE_DISTANCE_UNIT"), ("field", edge, "distance"), ("call", U + "speed_unit::SpeedUnit::associated_distance_unit", (su,))))
            ctx.check(nosite(d) == want_d, "speed:distance-in-speed-distance-unit", "the length used for the speed is not BASE.convert(edge.distance, speed_unit.associated_distance_unit()): %s" % short(nosite(d))[:200], ce.where(), detail="BASE.convert(edge.distance, su.associated_distance_unit())")
            okd = dt[0] == "call" and re.search(r"time::Time as std::ops::Sub>::sub$", dt[1]) is not None and dt[2][0][0] == "call" and dt[2][1][0] == "call" and dt[2][0][3] == after[0].bb and dt[2][1][3] == before[0].bb
            ctx.check(okd, "speed:delta=current-prev", "the time delta is not (time after) - (time before)", ce.where(), detail="current_time - prev_time")
    ctx.check(oks, "speed:(Speed::from((d, dt)), time_model_speed_unit)", "the speed pair is not (Speed::from((distance, time delta)), time_model_speed_unit): %s" % short(nosite(sp))[:200], ce.where(), detail="(d/dt, time_model_speed_unit)")
    want_g = ("tuple", (("call", P + "energy_model_ops::get_grade", (("field", svc, "grade_table"), ("field", edge, "edge_id"))), ("field", svc, "grade_table_grade_unit")))
    ctx.check(nosite(gr) == want_g, "grade:(get_grade(table, this edge), grade_table_grade_unit)", "the grade pair is %s" % short(nosite(gr))[:200], ce.where(), detail="(get_grade(table, edge.edge_id), grade_table_grade_unit)")
    want_di = ("tuple", (("call", U + "distance_unit::DistanceUnit::convert", (("item", U + "builders::BASE_DISTANCE_UNIT"), ("field", edge, "distance"), ("field", svc, "distance_unit"))), ("field", svc, "distance_unit")))
    ctx.check(nosite(di) == want_di, "distance:(length in distance_unit, distance_unit)", "the distance pair is %s" % short(nosite(di))[:200], ce.where(), detail="(BASE.convert(edge.distance, distance_unit), distance_unit)")
    ctx.check(try_propagation(b, ce, tm)["kind"] == "propagated", "consume:error", "Err of consume_energy is not propagated", ce.where())
    gg = [c for c in b.calls() if c.callee == P + "energy_model_ops::get_grade"]
    ctx.check(len(gg) == 1 and try_propagation(b, gg[0], tm)["kind"] == "propagated", "grade:error", "Err of get_grade is not propagated", b.where())
    # get_grade: table[edge_id], None => zero grade, miss => Err
    gb = F.need(P + "energy_model_ops::get_grade")
    okt = 0
    for r in table(gb):
        if r.end != "return":
            continue
        v = r.sel.get(("arg", 1))
        if v == "None":
            ctx.check(r.ret == ("agg", "std::result::Result", "Ok", (("0", ("item", U + "grade::Grade::ZERO")),)), "get_grade:no-table=>0", "without a grade table the grade is not Grade::ZERO", gb.where())
            okt += 1
        elif ok_value(r) is not None:
            pay = ok_value(r)
            g = [x for x in subterms(pay) if x[0] == "call" and x[1] == "std::slice::<impl [T]>::get"]
            ctx.check(len(g) >= 1 and contains(g[0][2][0], lambda s: s == ("arg", 1)) and contains(g[0][2][1], lambda s: s == ("arg", 2)), "get_grade:table[edge_id]", "the grade is not table[edge_id]: %s" % short(pay)[:120], gb.where(), detail="table.get(edge_id)")
            okt += 1
    ctx.check(okt >= 2, "get_grade:rows", "expected the None and Some rows", gb.where())


def R2_record(ctx):
    """C08.R2 energy = rate x adjustment over the distance, cache transparent"""
    F = ctx.F
    ctx.rule("C08.R2", "PredictionModelRecord::predict: on every Ok path the result is Energy::create(rate * self.real_world_energy_adjustment, self.energy_rate_unit, distance.0, distance.1) with rate = prediction_model.predict(speed, grade).0 or the cached raw rate; the value written to the cache is exactly the raw rate returned on that miss, under the key vec![speed.0, grade.0] that the lookup used (the cache logic may live in predict itself or in a helper of it)", floor=8)
    b = F.need(REC + "::predict")
    GET = "routee_compass_core::util::cache_policy::float_cache_policy::FloatCachePolicy::get"
    UPD = "routee_compass_core::util::cache_policy::float_cache_policy::FloatCachePolicy::update"
    S = lambda n: Ratio(Poly.sym(n))
    pred = ("call", P + "prediction::prediction_model::PredictionModel::predict", (("field", ("arg", 1), "prediction_model"), ("arg", 2), ("arg", 3)))
    raw = ("field", pred, "0")
    key = ("call", "vec!", (("array", (("call", "<%sspeed::Speed as %sas_f64::AsF64>::as_f64" % (U, U), (("field", ("arg", 2), "0"),)), ("call", "<%sgrade::Grade as %sas_f64::AsF64>::as_f64" % (U, U), (("field", ("arg", 3), "0"),)))),))
    getc = ("call", GET, (("field", ("arg", 1), "cache"), key))
    # where does the cache logic live?
    known = known_functions()
    tree, work = [], [b.path]
    while work:
        p_ = work.pop()
        if p_ in tree or p_ not in F.bodies:
            continue
        tree.append(p_)
        for c in F.bodies[p_].calls():
            if c.callee and known and c.callee in F.bodies and c.callee not in known and "{closure" not in c.callee:
                work.append(c.callee)
    holders = [F.bodies[p_] for p_ in tree if any(c.callee == GET for c in F.bodies[p_].calls())]
    if not ctx.check(len(holders) == 1, "cache:holder", "the cache lookup is not found in predict or exactly one helper of it (found %d)" % len(holders), b.where()):
        return
    cb = holders[0]
    in_helper = cb is not b
    A = Arith(F)
    A.items_numeric = False
    A.symbols = {raw: "rate", getc: "cached", ("field", ("arg", 1), "real_world_energy_adjustment"): "adj"}
    # (1) predict: Energy::create(X * adj, rate unit, d, du) where X is the arm value (inline) or the helper's value
    if in_helper:
        with no_inline():
            tm = Terms(b)
            rows_b = [r for r in table(b, max_paths=100000) if r.end == "return" and result_variant(r.ret) == "Ok"]
    else:
        tm = Terms(b)
        rows_b = []
        for r in table(b, max_paths=100000):
            if r.end != "return" or is_err_value(r.ret) or result_variant(r.ret) == "Err":
                continue
            if result_variant(r.ret) != "Ok":
                # the value of a fallible call returned as it is (`Energy::create(..).map_err(..)`): payload convention
                r.ret = ("agg", "std::result::Result", "Ok", (("0", r.ret),))
            rows_b.append(r)
    hcall = None
    if in_helper:
        hs = [c for c in b.calls() if c.callee == cb.path]
        if not ctx.check(len(hs) == 1, "cache:helper-called-once", "the helper holding the cache logic is not called exactly once by predict", b.where()):
            return
        with no_inline():
            hargs = [nosite(deep_strip(tm.operand(a, hs[0].bb))) for a in hs[0].args]
            hcall0 = nosite(deep_strip(tm.call_term(hs[0].term, hs[0].bb)))
        if not ctx.check(hargs[:3] == [("arg", 1), ("arg", 2), ("arg", 3)], "cache:helper-args", "the helper does not receive (self, speed, grade) unchanged: %s" % [short(x) for x in hargs], hs[0].where()):
            return
        hcall = hcall0
        A.symbols[hcall] = "hrate"
    arms = set()

    def is_getc(t):
        return t[0] == "call" and t[1] == GET and len(t[2]) == 2 and t[2][0] == ("field", ("arg", 1), "cache")

    def arm_of(r):
        if sel_is(r, ("field", ("arg", 1), "cache"), "None"):
            return "no-cache"
        hit = sel_is(r, nosite(getc), "Some") or any(is_getc(k) and (v == "Some" or (isinstance(v, tuple) and "Some" in v[1])) for k, v in r.sel.items())
        return "hit" if hit else "miss"

    for r in rows_b:
        pay = agg_payload(r.ret)
        cr = list(dict.fromkeys(x for x in subterms(pay) if x[0] == "call" and x[1] == U + "energy::Energy::create"))
        if not ctx.check(len(cr) == 1, "energy:single-create", "the Ok value is not built from one Energy::create: %s" % short(pay)[:160], b.where()):
            continue
        c = cr[0]
        ok_pay = pay == c or pay == ("tuple", (("field", c, "0"), ("field", c, "1")))
        ctx.check(ok_pay, "energy:returned-unchanged", "the created (energy, unit) pair is altered before it is returned: %s" % short(pay)[:160], b.where(), detail="Ok(create(..))")
        rate = A.ev(_canon_get(norm_adaptors(F, c[2][0]), GET, getc))
        if in_helper:
            ctx.check(rate.equals(S("hrate") * S("adj")), "rate*adjustment", "the rate handed to Energy::create is %r, expected (value of %s) * adjustment" % (rate, short_fn_name(cb.path)), b.where(), detail="helper(..) * adj")
        else:
            arm = arm_of(r)
            arms.add(arm)
            want = (S("cached") if arm == "hit" else S("rate")) * S("adj")
            ctx.check(rate.equals(want), "rate*adjustment:%s" % arm, "on the %s arm the rate handed to Energy::create is %r, expected %r (adjustment applied exactly once to the model's rate)" % (arm, rate, want), b.where(), detail=repr(want))
        ctx.check(c[2][1:] == (("field", ("arg", 1), "energy_rate_unit"), ("field", ("arg", 4), "0"), ("field", ("arg", 4), "1")), "create-args", "Energy::create does not receive (self.energy_rate_unit, distance, distance_unit): %s" % short(("tuple", c[2][1:]))[:160], b.where(), detail="(rate_unit, d, du)")
    ctx.check(bool(rows_b), "energy:ok-path", "predict has no Ok path", b.where())
    # (2) the helper's value per arm: the cached raw rate on a hit, the model's rate otherwise
    ctm = Terms(cb)
    if in_helper:
        hrows = []
        for r in table(cb, max_paths=100000):
            if r.end != "return" or is_err_value(r.ret) or result_variant(r.ret) == "Err":
                continue
            if result_variant(r.ret) != "Ok":
                # the value of another fallible call returned as is (payload convention: x stands for its Ok payload)
                r.ret = ("agg", "std::result::Result", "Ok", (("0", r.ret),))
            hrows.append(r)
        for r in hrows:
            arm = arm_of(r)
            arms.add(arm)
            val = A.ev(agg_payload(r.ret))
            want = S("cached") if arm == "hit" else S("rate")
            ctx.check(val.equals(want), "rate:%s" % arm, "on the %s arm %s returns %r, expected %r (the raw rate; the adjustment is applied once by predict)" % (arm, short_fn_name(cb.path), val, want), cb.where(), detail=repr(want))
    ctx.check(arms == {"no-cache", "hit", "miss"}, "arms", "expected the no-cache, hit and miss arms, found %s" % sorted(arms), cb.where())
    up = [c for c in cb.calls() if c.callee == UPD]
    gc = [c for c in cb.calls() if c.callee == GET]
    ok = len(up) == 1 and len(gc) == 1
    if ok:
        ua, ga = args_of(ctm, up[0]), args_of(ctm, gc[0])
        def key_elems(t):
            if t[0] == "call" and t[1] == "vec!" and t[2] and t[2][0][0] == "array":
                return t[2][0][1]
            return t[1] if t[0] in ("array", "tuple") else None
        ctx.check(key_elems(ga[1]) == key_elems(key) and key_elems(ua[1]) == key_elems(key) and ga[0] == ua[0] == ("field", ("arg", 1), "cache"), "cache:key=(speed, grade) for get and update", "the cache is not read and written under vec![speed.0.as_f64(), grade.0.as_f64()]: get %s update %s" % (short(ga[1])[:80], short(ua[1])[:80]), up[0].where(), detail="vec![speed.0, grade.0]")
        w = A.ev(_canon_get(norm_adaptors(F, ua[2]), GET, getc))
        ctx.check(w.equals(S("rate")), "cache:stores-the-raw-rate-it-returns", "the value written to the cache is %r but a later hit is used as the raw rate (the miss arm returns `rate`): the adjustment would be applied %s on hits" % (w, "twice" if w.equals(S("rate") * S("adj")) else "differently"), up[0].where(), detail="update(key, rate)")
        ctx.check(try_propagation(cb, up[0], ctm)["kind"] == "propagated" and try_propagation(cb, gc[0], ctm)["kind"] == "propagated", "cache:errors", "cache errors are not propagated", up[0].where())
    else:
        ctx.bad("cache:anchors", "expected one cache get and one update", cb.where())
    # the cache key is the (speed, grade) pair rounded to the nearest step of the configured precision: two inputs on different
    # steps never share an entry (inputs inside one step do — that is the cache's documented resolution)
    tp = F.bodies.get("routee_compass_core::util::cache_policy::float_cache_policy::to_precision")
    if tp is not None:
        trt = clean(Terms(tp).return_term())
        okq = trt[0] == "cast" and trt[2][0] == "call" and trt[2][1] == "f64::round" and trt[2][2][0][0] == "bin" and trt[2][2][0][1] == "Mul" and ("arg", 1) in (trt[2][2][0][2], trt[2][2][0][3]) and any(x_[0] == "call" and x_[1] == "f64::powi" and x_[2] == (("const", "f64", "10.0"), ("arg", 2)) for x_ in (trt[2][2][0][2], trt[2][2][0][3]))
        ctx.check(okq, "cache:key-rounded-to-nearest-step", "the cache key is not round(value * 10^precision): %s" % short(trt)[:120], tp.where(), detail="(value * 10^precision).round() as i64")
    # ... and the key the LRU map is addressed with is that rounded pair *component by component* (a vector of the rounded
    # components, position i = to_precision(key[i], key_precisions[i])) in both get and update: any packing / hashing / mixing of the
    # components into one word must be injective on the rounded values to be transparent, and the componentwise vector is the
    # form this rule can read (round 6: `(acc << 32) | rounded as u64` let a negative grade erase the speed bits)
    FCP = "routee_compass_core::util::cache_policy::float_cache_policy::FloatCachePolicy::"
    TP = "routee_compass_core::util::cache_policy::float_cache_policy::to_precision"
    want_elem = ("call", TP, (("at", ("arg", 2), ("i",)), ("at", ("field", ("arg", 1), "key_precisions"), ("i",))))

    def key_elem(body, t, depth=0):
        t = clean(t)
        if t[0] == "call" and re.sub(r"\{.*\}$", "", t[1]) in F.bodies and depth < 2 and not re.search(r"Iterator|Itertools", t[1]):
            kb = F.bodies[re.sub(r"\{.*\}$", "", t[1])]
            if [clean(x) for x in t[2]] != [("arg", 1), ("arg", 2)] or kb.argc != 2:
                return None
            return key_elem(kb, Terms(kb).return_term(), depth + 1)
        sf = sequence_form(F, body, t)
        return None if sf is None else sf[0]
    for fn, meth, role in (("get", "get", "lookup"), ("update", "put", "store")):
        fb = F.bodies.get(FCP + fn)
        if fb is None:
            ctx.bad("cache:key-componentwise:%s" % role, "FloatCachePolicy::%s not found" % fn, None)
            continue
        ftm = Terms(fb)
        sites = [c for c in fb.calls_deep() if (c.callee or "").startswith("lru::LruCache") and c.func.get("method", (c.callee or "").split("::")[-1]) in (meth, "get", "put", "get_mut", "peek", "push", "get_or_insert")]
        sites = [c for c in sites if (c.callee or "").split("::")[-1] not in ("new", "unbounded")]
        okk = len(sites) == 1
        got = None
        if okk:
            kt = sites[0].arg_terms[1] if isinstance(sites[0], VirtualCallSite) else ftm.operand(sites[0].args[1], sites[0].bb)
            got = key_elem(fb, kt)
            okk = got == want_elem
        ctx.check(okk, "cache:key-componentwise:%s" % role, "FloatCachePolicy::%s does not address the LRU map with the vector of rounded components [to_precision(key[i], key_precisions[i])]: %s" % (fn, short(got)[:160] if got else "unreadable key (%d map accesses)" % len(sites)), fb.where(), detail="LruCache::%s key = [to_precision(key[i], key_precisions[i])]" % meth)
    for p_ in tree:
        tb = F.bodies[p_]
        ttm = Terms(tb)
        for c in tb.calls():
            if c.func.get("method") == "predict" and (c.func.get("dyn") or c.func.get("virtual") or "PredictionModel::predict" in (c.callee or "")):
                ctx.check(try_propagation(tb, c, ttm)["kind"] == "propagated" or error_flow(F, tb, c, ttm).get("ok"), "model:error@%s" % short_fn_name(p_), "Err of the prediction model is not propagated", c.where())


def _canon_get(t, GET, getc):
    """the cache lookup under whatever spelling of its key (vec!, array, tuple) is the lookup"""
    return rewrite(t, lambda x: getc if x[0] == "call" and x[1] == GET and len(x[2]) == 2 and x[2][0] == ("field", ("arg", 1), "cache") and x != getc else None)


def sel_get(r, t):
    t = nosite(t)
    for k, v in r.sel.items():
        if k == t:
            return v
    return None


def clamp_0_100(t):
    """t == clamp(x, 0.0, 100.0) (or max/min spelling) -> x"""
    z, h = ("const", "f64", "0.0"), ("const", "f64", "100.0")
    if t[0] == "call" and t[1] == "f64::clamp" and t[2][1:] == (z, h):
        return t[2][0]
    if t[0] == "call" and t[1] == "f64::min" and t[2][1] == h and t[2][0][0] == "call" and t[2][0][1] == "f64::max" and t[2][0][2][1] == z:
        return t[2][0][2][0]
    if t[0] == "call" and t[1] == "f64::max" and t[2][1] == z and t[2][0][0] == "call" and t[2][0][1] == "f64::min" and t[2][0][2][1] == h:
        return t[2][0][2][0]
    return None


def R3_soc(ctx):
    """C08.R3 SOC arithmetic"""
    F = ctx.F
    ctx.rule("C08.R3", "soc_from_battery_and_delta = clamp(100*(start-used)/max, 0, 100); as_soc_percent = clamp(100*remaining/max, 0, 100); update_soc_percent reads feature f, start = max*soc/100, writes soc_from_battery_and_delta(start, delta, max) back to the same f (exact rational identities)", floor=6)
    S = lambda n: Ratio(Poly.sym(n))
    hundred = Ratio(Poly.const(100))
    b = F.need(OPS + "soc_from_battery_and_delta")
    rt = nosite(deep_strip(Terms(b).return_term()))
    if clamp_0_100(rt) is None:
        rt = nosite(deep_strip(expand_calls(F, rt)))  # e.g. delegating to as_soc_percent(start - used, max)
    x = clamp_0_100(rt)
    ctx.check(x is not None, "delta:clamped-0-100", "the result is not clamped to [0, 100]: %s" % short(rt)[:120], b.where(), detail="clamp(.., 0.0, 100.0)")
    if x is not None:
        A = Arith(F, symbols={("arg", 1): "start", ("arg", 2): "used", ("arg", 3): "max"})
        ctx.check(A.ev(x).equals(hundred * (S("start") - S("used")) / S("max")), "delta:100*(start-used)/max", "the unclamped value is %r" % A.ev(x), b.where(), detail="100*(start-used)/max")
    b = F.need(OPS + "as_soc_percent")
    rt = nosite(deep_strip(Terms(b).return_term()))
    if clamp_0_100(rt) is None:
        rt = nosite(deep_strip(expand_calls(F, rt)))
    x = clamp_0_100(rt)
    ctx.check(x is not None, "percent:clamped-0-100", "the result is not clamped to [0, 100]", b.where(), detail="clamp(.., 0.0, 100.0)")
    if x is not None:
        A = Arith(F, symbols={("arg", 1): "rem", ("arg", 2): "max"})
        ctx.check(A.ev(x).equals(hundred * S("rem") / S("max")), "percent:100*rem/max", "the unclamped value is %r" % A.ev(x), b.where(), detail="100*rem/max")
    b = F.need(OPS + "update_soc_percent")
    tm = Terms(b)
    g = [c for c in b.calls() if c.callee == SM + "get_custom_f64"]
    s = [c for c in b.calls() if c.callee == SM + "set_custom_f64"]
    d = [c for c in b.calls() if c.callee == OPS + "soc_from_battery_and_delta"]
    if not ctx.check(len(g) == 1 and len(s) == 1 and len(d) == 1, "update:anchors", "expected one get, one set and one soc_from_battery_and_delta", b.where()):
        return
    ga, sa, da = args_of(tm, g[0]), args_of(tm, s[0]), args_of(tm, d[0])
    name_ok = lambda t: contains(t, lambda q: q == ("arg", 2))
    ctx.check(name_ok(ga[2]) and name_ok(sa[2]) and unmut(ga[1]) == ("arg", 1) and unmut(sa[1]) == ("arg", 1) and unmut(ga[0]) == ("arg", 5) and unmut(sa[0]) == ("arg", 5), "update:same-feature-read-and-written", "the SOC is not read from and written to the same feature of the same state", b.where(), detail="get(state, f) ... set(state, f, soc)")
    soc = nosite(deep_strip(tm.call_term(g[0].term, g[0].bb)))
    A = Arith(F, symbols={soc: "soc", ("arg", 4): "max"})
    ctx.check(A.ev(da[0]).equals(S("max") * S("soc") / hundred) and da[1] == ("arg", 3) and da[2] == ("arg", 4), "update:start=max*soc/100", "soc_from_battery_and_delta does not receive (max*soc/100, delta, max): %s" % short(("tuple", tuple(da)))[:200], d[0].where(), detail="(max*soc/100, delta, max)")
    ctx.check(sa[3] == nosite(deep_strip(tm.call_term(d[0].term, d[0].bb))), "update:writes-new-soc", "the value written is not the new SOC", s[0].where())
    ctx.check(try_propagation(b, g[0], tm)["kind"] == "propagated", "update:get-error", "Err of the SOC read is not propagated", g[0].where())
    rt = nosite(deep_strip(tm.return_term()))
    ctx.check(contains(rt, lambda q: q[0] == "call" and q[1] == SM + "set_custom_f64"), "update:set-result-returned", "the result of the SOC write is not returned", s[0].where())


def vehicle_method(F, ty, m):
    return F.one("%s as %s>::%s" % (ty, VT, m))


def R4_vehicles(ctx):
    """C08.R4 vehicles record the predicted energy and move the SOC by it"""
    F = ctx.F
    ctx.rule("C08.R4", "consume_energy / best_case_energy_state of ICE, BEV, PHEV: the energy comes from the vehicle's own record with the caller's (speed, grade, distance) unchanged; it is added to the declared feature together with the unit it is expressed in; BEV/PHEV move `battery_state` by unit.convert(electric energy, battery_energy_unit) against battery_capacity; errors propagated; state_features declares exactly those features with the units used", floor=30)
    spec = {
        "ice::ICE": {"rec": "prediction_model_record", "features": {"energy_liquid"}, "soc": False},
        "bev::BEV": {"rec": "prediction_model_record", "features": {"energy_electric"}, "soc": True},
    }
    for ty, sp in spec.items():
        rec = ("field", ("arg", 1), sp["rec"])
        for m in ("consume_energy", "best_case_energy_state"):
            b = vehicle_method(F, ty, m)
            tm = Terms(b)
            if m == "consume_energy":
                src = ("call", REC + "::predict", (rec, ("arg", 2), ("arg", 3), ("arg", 4)))
                st, smd = ("arg", 5), ("arg", 6)
            else:
                src = ("call", "<%svehicle::default::%s as %s>::best_case_energy" % (P, ty, VT), (("arg", 1), ("arg", 2)))
                st, smd = ("arg", 3), ("arg", 4)
            srcs = [c for c in b.calls() if nosite(deep_strip(tm.call_term(c.term, c.bb))) == src]
            inst = "%s::%s" % (ty.split("::")[1], m)
            if not ctx.check(len(srcs) == 1, inst + ":source", "the energy does not come from one %s call with the caller's arguments unchanged" % short(src)[:90], b.where(), detail=short(src)[:90]):
                continue
            ctx.check(try_propagation(b, srcs[0], tm)["kind"] == "propagated", inst + ":source-error", "Err of the energy source is not propagated", srcs[0].where())
            adds = [c for c in b.calls() if c.callee == SM + "add_energy"]
            ctx.check(len(adds) == len(sp["features"]), inst + ":adds", "expected %d add_energy calls, found %d" % (len(sp["features"]), len(adds)), b.where())
            eu_rec = ("call", U + "energy_rate_unit::EnergyRateUnit::associated_energy_unit", (("field", rec, "energy_rate_unit"),))
            for c in adds:
                a = args_of(tm, c)
                fname = [f for f in sp["features"] if is_name(a[2], f)]
                oka = len(fname) == 1 and unmut(a[0]) == smd and unmut(a[1]) == st and a[3] == ("field", src, "0") and a[4] in (("field", src, "1"), eu_rec)
                ctx.check(oka, inst + ":add(%s)" % (fname[0] if fname else "?"), "add_energy does not add (energy, its unit) of the source to the declared feature: %s" % short(("tuple", tuple(a[2:])))[:220], c.where(), detail="add_energy(state, f, e, unit of e)")
                ctx.check(try_propagation(b, c, tm)["kind"] == "propagated" and b.dominates(srcs[0].bb, c.bb), inst + ":add-error", "Err of add_energy is not propagated", c.where())
            ups = [c for c in b.calls() if c.callee == OPS + "update_soc_percent"]
            if sp["soc"]:
                if ctx.check(len(ups) == 1, inst + ":soc-update", "expected one SOC update, found %d" % len(ups), b.where()):
                    soc_update_ok(ctx, b, tm, ups[0], inst, st, smd, ("field", src, "0"), (("field", src, "1"), eu_rec))
            else:
                ctx.check(not ups, inst + ":no-soc", "an ICE has no battery state", b.where())
    # PHEV
    ty = "phev::PHEV"
    b = vehicle_method(F, ty, "consume_energy")
    tm = Terms(b)
    soc_read = ("call", SM + "get_custom_f64", (("arg", 6), ("arg", 5), None))
    gs = [c for c in b.calls() if c.callee == SM + "get_custom_f64"]
    pe = [c for c in b.calls() if c.callee == P + "vehicle::default::phev::get_phev_energy"]
    if ctx.check(len(gs) == 1 and len(pe) == 1, "PHEV::consume_energy:anchors", "expected one SOC read and one get_phev_energy", b.where()):
        ga = args_of(tm, gs[0])
        soc = nosite(deep_strip(tm.call_term(gs[0].term, gs[0].bb)))
        muts = [c for c in b.calls() if c.callee in (SM + "add_energy", OPS + "update_soc_percent", SM + "set_custom_f64")]
        ctx.check(is_name(ga[2], "battery_state") and ga[1] == ("arg", 5) and all(b.dominates(gs[0].bb, c.bb) and c.bb != gs[0].bb for c in muts) and len(muts) == 3, "PHEV::consume_energy:soc-read-at-edge-entry", "the SOC that selects the power source is not read from `battery_state` before every state update of this edge", gs[0].where(), detail="start_soc read dominates add_energy x2 and update_soc")
        pa = args_of(tm, pe[0])
        ctx.check(pa == [("arg", 1), soc, ("arg", 2), ("arg", 3), ("arg", 4)], "PHEV::consume_energy:energy(self, start_soc, speed, grade, distance)", "get_phev_energy does not receive (self, start soc, speed, grade, distance) unchanged", pe[0].where())
        ctx.check(try_propagation(b, pe[0], tm)["kind"] == "propagated" and try_propagation(b, gs[0], tm)["kind"] == "propagated", "PHEV::consume_energy:errors", "Err of the SOC read / energy computation is not propagated", pe[0].where())
        src = nosite(deep_strip(tm.call_term(pe[0].term, pe[0].bb)))
        roles = phev_energy_roles(F) or {"ee": ("0",), "eu": ("1",), "le": ("2",), "lu": ("3",)}
        want = {"energy_electric": (roles["ee"], roles["eu"]), "energy_liquid": (roles["le"], roles["lu"])}
        seen = set()
        for c in b.calls():
            if c.callee != SM + "add_energy":
                continue
            a = args_of(tm, c)
            for f, (vi, ui) in want.items():
                if is_name(a[2], f):
                    seen.add(f)
                    ctx.check(a[3] == _access(src, vi) and a[4] == _access(src, ui) and unmut(a[1]) == ("arg", 5), "PHEV::consume_energy:add(%s)" % f, "%s does not receive components (%s, %s) of get_phev_energy" % (f, ".".join(vi), ".".join(ui)), c.where(), detail="add_energy(%s, r.%s, r.%s)" % (f, ".".join(vi), ".".join(ui)))
                    ctx.check(try_propagation(b, c, tm)["kind"] == "propagated", "PHEV::consume_energy:add-error(%s)" % f, "Err of add_energy is not propagated", c.where())
        ctx.check(seen == set(want), "PHEV::consume_energy:both-features", "electric and liquid energy are not both recorded (%s)" % sorted(seen), b.where())
        ups = [c for c in b.calls() if c.callee == OPS + "update_soc_percent"]
        if ctx.check(len(ups) == 1, "PHEV::consume_energy:soc-update", "expected one SOC update", b.where()):
            soc_update_ok(ctx, b, tm, ups[0], "PHEV::consume_energy", ("arg", 5), ("arg", 6), _access(src, roles["ee"]), (_access(src, roles["eu"]),))
    b = vehicle_method(F, ty, "best_case_energy_state")
    tm = Terms(b)
    src = ("call", "<%svehicle::default::%s as %s>::best_case_energy" % (P, ty, VT), (("arg", 1), ("arg", 2)))
    srcs = [c for c in b.calls() if nosite(deep_strip(tm.call_term(c.term, c.bb))) == src]
    if ctx.check(len(srcs) == 1, "PHEV::best_case_energy_state:source", "the estimate does not come from self.best_case_energy(distance)", b.where()):
        adds = [c for c in b.calls() if c.callee == SM + "add_energy"]
        ok = len(adds) == 1
        if ok:
            a = args_of(tm, adds[0])
            ok = is_name(a[2], "energy_electric") and a[3] == ("field", src, "0") and a[4] == ("field", src, "1")
        ctx.check(ok, "PHEV::best_case_energy_state:add(energy_electric)", "the best case is not added to energy_electric with its own unit", b.where(), detail="add_energy(energy_electric, e, unit of e)")
        ups = [c for c in b.calls() if c.callee == OPS + "update_soc_percent"]
        if ctx.check(len(ups) == 1, "PHEV::best_case_energy_state:soc-update", "expected one SOC update", b.where()):
            soc_update_ok(ctx, b, tm, ups[0], "PHEV::best_case_energy_state", ("arg", 3), ("arg", 4), ("field", src, "0"), (("field", src, "1"),))
    # declared features
    decl = {
        "ice::ICE": {"energy_liquid": ("call", U + "energy_rate_unit::EnergyRateUnit::associated_energy_unit", (("field", ("field", ("arg", 1), "prediction_model_record"), "energy_rate_unit"),))},
        "bev::BEV": {"energy_electric": ("field", ("arg", 1), "battery_energy_unit"), "battery_state": "soc"},
        "phev::PHEV": {"energy_electric": ("field", ("arg", 1), "battery_energy_unit"), "battery_state": "soc", "energy_liquid": ("call", U + "energy_rate_unit::EnergyRateUnit::associated_energy_unit", (("field", ("field", ("arg", 1), "charge_sustain_model"), "energy_rate_unit"),))},
    }
    for ty, want in decl.items():
        b = vehicle_method(F, ty, "state_features")
        rt = nosite(deep_strip(Terms(b).return_term()))
        tuples = [x for x in subterms(rt) if x[0] == "tuple" and len(x[1]) == 2 and x[1][1][0] == "agg" and x[1][1][1].endswith("state_feature::StateFeature")]
        got = {}
        for x in tuples:
            nm = x[1][0]
            nm = [f for f in want if is_name(nm, f)]
            sf = x[1][1]
            if not nm:
                got["?"] = sf
                continue
            if sf[2] == "Energy":
                fl = dict(sf[3])
                got[nm[0]] = fl.get("energy_unit") if fl.get("initial") == ("item", U + "energy::Energy::ZERO") else ("bad-initial", fl.get("initial"))
            elif sf[2] == "Custom":
                ini = [y for y in subterms(sf) if y[0] == "call" and y[1] == OPS + "as_soc_percent"]
                got[nm[0]] = "soc" if ini and ini[0][2] == (("field", ("arg", 1), "starting_battery_energy"), ("field", ("arg", 1), "battery_capacity")) else ("bad-soc-initial",)
        ctx.check(got == want, "%s::state_features" % ty.split("::")[1], "declared features are %s, expected %s" % ({k: short(v) if isinstance(v, tuple) else v for k, v in got.items()}, sorted(want)), b.where(), detail=", ".join(sorted(want)))


def soc_update_ok(ctx, b, tm, c, inst, st, smd, energy, units):
    a = args_of(tm, c)
    okc = False
    for u in units:
        if a[2] == ("call", U + "energy_unit::EnergyUnit::convert", (u, energy, ("field", ("arg", 1), "battery_energy_unit"))):
            okc = True
    ok = unmut(a[0]) == st and is_name(a[1], "battery_state") and okc and a[3] == ("field", ("arg", 1), "battery_capacity") and unmut(a[4]) == smd
    ctx.check(ok, inst + ":soc(battery_state, energy in battery unit, capacity)", "the SOC update is not update_soc_percent(state, battery_state, unit.convert(electric energy, battery_energy_unit), battery_capacity, state_model): %s" % short(("tuple", tuple(a[1:4])))[:260], c.where(), detail="delta = unit.convert(e, battery_energy_unit); max = battery_capacity")
    ctx.check(try_propagation(b, c, tm)["kind"] == "propagated", inst + ":soc-error", "Err of the SOC update is not propagated", c.where())


def _leaves(t, prefix=()):
    """the leaf values of a (nested) tuple / struct value with their access paths; a whole `predict(..)` result standing where a
    pair is expected is read as its two components"""
    t = clean(t)
    if t[0] == "tuple":
        for i, x in enumerate(t[1]):
            yield from _leaves(x, prefix + (str(i),))
    elif t[0] == "agg" and not t[1].startswith("std::"):
        for name, x in t[3]:
            yield from _leaves(x, prefix + (str(name),))
    elif t[0] == "call" and t[1] == REC + "::predict":
        yield prefix + ("0",), ("field", t, "0")
        yield prefix + ("1",), ("field", t, "1")
    else:
        yield prefix, t


def _access(src, path):
    for name in path:
        src = ("field", src, name)
    return src


def phev_energy_roles(F):
    """where the result of get_phev_energy carries (electric energy, its unit, liquid energy, its unit): read from the arm that is
    taken with charge left — the depleting model's prediction is the electric pair, Energy(0.0) with the sustaining model's unit
    the liquid pair.  A 4-tuple gives ('0',), ('1',), ('2',), ('3',); a struct of two pairs gives ('electric','0'), ..."""
    b = F.need(P + "vehicle::default::phev::get_phev_energy")
    cd, cs = ("field", ("arg", 1), "charge_depleting_model"), ("field", ("arg", 1), "charge_sustain_model")
    zero = ("call", U + "energy::Energy::new", (("const", "f64", "0.0"),))
    eu = lambda r: ("call", U + "energy_rate_unit::EnergyRateUnit::associated_energy_unit", (("field", r, "energy_rate_unit"),))
    pr = lambda r: ("call", REC + "::predict", (r, ("arg", 3), ("arg", 4), ("arg", 5)))
    pos = ("Lt", ("const", "f64", "0.0"), ("arg", 2))
    for r in table(b):
        if r.end == "return" and r.facts == {pos} and ok_value(r) is not None:
            lv = list(_leaves(ok_value(r)))
            find = lambda *vals: [p_ for p_, v in lv if v in vals]
            ee, eun, le, lu = find(("field", pr(cd), "0")), find(("field", pr(cd), "1"), eu(cd)), find(zero), find(eu(cs))
            if len(lv) == 4 and all(len(x) == 1 for x in (ee, eun, le, lu)):
                return {"ee": ee[0], "eu": eun[0], "le": le[0], "lu": lu[0]}
    return None


def R5_phev_switch(ctx):
    """C08.R5 PHEV power-source switch"""
    F = ctx.F
    ctx.rule("C08.R5", "get_phev_energy decides on `soc > 0.0` alone: true => (depleting.predict(speed, grade, distance), Energy(0.0), sustaining energy unit); false => (Energy(0.0), depleting energy unit, sustaining.predict(..)); errors propagated", floor=3)
    b = F.need(P + "vehicle::default::phev::get_phev_energy")
    cd, cs = ("field", ("arg", 1), "charge_depleting_model"), ("field", ("arg", 1), "charge_sustain_model")
    zero = ("call", U + "energy::Energy::new", (("const", "f64", "0.0"),))
    eu = lambda r: ("call", U + "energy_rate_unit::EnergyRateUnit::associated_energy_unit", (("field", r, "energy_rate_unit"),))
    pr = lambda r: ("call", REC + "::predict", (r, ("arg", 3), ("arg", 4), ("arg", 5)))
    pos = ("Lt", ("const", "f64", "0.0"), ("arg", 2))
    neg = ("Le", ("arg", 2), ("const", "f64", "0.0"))
    seen = set()
    for r in table(b):
        if r.end != "return":
            continue
        if r.facts not in ({pos}, {neg}):
            ctx.bad("switch:condition", "a path decides on %s instead of `battery_soc_percent > 0.0` alone" % sorted(short(("bin",) + f)[:80] for f in r.facts), b.where())
            continue
        side = "charged" if r.facts == {pos} else "empty"
        if ok_value(r) is not None:
            seen.add(side)
            pay = ok_value(r)
            roles = phev_energy_roles(F)
            lv = dict(_leaves(pay))
            if roles is None or len(lv) != 4:
                want = alt = None
                pay_n = pay
            else:
                pay_n = ("tuple", tuple(lv.get(roles[k]) for k in ("ee", "eu", "le", "lu")))
                if side == "charged":
                    want = ("tuple", (("field", pr(cd), "0"), ("field", pr(cd), "1"), zero, eu(cs)))
                    alt = ("tuple", (("field", pr(cd), "0"), eu(cd), zero, eu(cs)))
                else:
                    want = ("tuple", (zero, eu(cd), ("field", pr(cs), "0"), ("field", pr(cs), "1")))
                    alt = ("tuple", (zero, eu(cd), ("field", pr(cs), "0"), eu(cs)))
            pay = pay_n
            ctx.check(pay in (want, alt), "switch:%s" % side, "entered %s the energies are %s" % (side, short(pay)[:300]), b.where(), detail="electric only" if side == "charged" else "liquid only")
        else:
            ctx.check(is_err_value(r.ret) and contains(r.ret, lambda s: s == pr(cd if side == "charged" else cs)), "switch:%s:error" % side, "an Err on the %s side is not the propagated prediction error" % side, b.where())
    ctx.check(seen == {"charged", "empty"}, "switch:both-sides", "both sides of the switch must produce a result (%s)" % sorted(seen), b.where())


def R6_starting_charge(ctx):
    """C08.R6 starting charge"""
    F = ctx.F
    ctx.rule("C08.R6", "BEV/PHEV::update_from_query: every Ok path has (0.0..=100.0).contains(soc) true for the soc it uses; starting energy = 0.01*soc*battery_capacity; the false side is an Err; a non-numeric value is an Err; the new vehicle keeps name, records, capacity and unit; BEV defaults to 100.0, PHEV requires the key", floor=8)
    for ty, fields in (("bev::BEV", ("name", "prediction_model_record", "battery_capacity", "battery_energy_unit")), ("phev::PHEV", ("name", "charge_sustain_model", "charge_depleting_model", "battery_capacity", "battery_energy_unit", "custom_liquid_fuel_to_kwh"))):
        b = vehicle_method(F, ty, "update_from_query")
        nm = ty.split("::")[1]
        n_ok = n_rej = 0
        q = ("call", "serde_json::Value::as_f64", (("call", "serde_json::Value::get{std::string::String}", (("arg", 2), None)),))
        for r in table(b, max_paths=100000):
            if r.end != "return":
                continue
            cont = [(d, l) for d, l in r.bools if d[0] == "call" and d[1].endswith("RangeInclusive<Idx>::contains") or d[0] == "call" and "RangeInclusive" in d[1] and d[1].endswith("::contains")]
            if result_variant(r.ret) == "Ok":
                n_ok += 1
                pay = agg_payload(r.ret)
                st = [x for x in subterms(pay) if x[0] == "agg" and x[1].endswith("default::" + ty)]
                if not ctx.check(len(st) == 1, nm + ":returns-new-vehicle", "the Ok value is not a new %s" % nm, b.where()):
                    continue
                fl = dict(st[0][3])
                keep = all(fl.get(f) == ("field", ("arg", 1), f) for f in fields)
                ctx.check(keep, nm + ":keeps-configuration", "the updated vehicle does not keep %s" % ", ".join(fields), b.where(), detail="fields copied")
                e = fl.get("starting_battery_energy")
                # soc used on this path: solve e = 0.01 * soc * capacity
                A = Arith(F)
                got = A.ev(e)
                cap = [s_ for s_ in got_syms(got) if "battery_capacity" in s_]
                socs = [s_ for s_ in got_syms(got) if "battery_capacity" not in s_]
                soc_t = None
                if len(cap) == 1 and len(socs) <= 1:
                    S = lambda n_: Ratio(Poly.sym(n_))
                    hundredth = Ratio(Poly.const(Fraction(1, 100)))
                    if socs:
                        okf = got.equals(hundredth * S(socs[0]) * S(cap[0]))
                        soc_t = [k for k, v in A.opaque.items() if v == socs[0]][0] if okf else None
                    else:
                        okf = got.equals(Ratio(Poly.const(1)) * S(cap[0]))  # default 100 %
                        soc_t = ("const", "f64", "100.0") if okf else None
                else:
                    okf = False
                ctx.check(okf, nm + ":start=0.01*soc*capacity", "the starting energy is %r" % got, b.where(), detail="0.01*soc*capacity")
                okr = False
                for d, l in cont:
                    if l == 0:
                        continue
                    rng, v = d[2][0], d[2][1]
                    alts = set(v[1]) if v[0] == "phi" else {v}
                    okr = rng == ("call", "std::ops::RangeInclusive::<Idx>::new", (("const", "f64", "0.0"), ("const", "f64", "100.0"))) and soc_t is not None and soc_t in alts
                ctx.check(okr, nm + ":accepted=>0<=soc<=100", "a starting charge is accepted without (0.0..=100.0).contains(soc) on the soc that is used", b.where(), detail="(0.0..=100.0).contains(soc)")
            else:
                if cont and all(l == 0 for _, l in cont):
                    n_rej += 1
                    ctx.check(result_variant(r.ret) == "Err", nm + ":out-of-range=>Err", "an out-of-range charge is not rejected", b.where())
        ctx.check(n_ok >= 1 and n_rej >= 1, nm + ":paths", "expected accepting and rejecting paths (%d/%d)" % (n_ok, n_rej), b.where())


def got_syms(r):
    s = set(r.p.symbols())
    if getattr(r, "q", None) is not None:
        s |= set(r.q.symbols())
    return s


def R7_best_case(ctx):
    """C08.R7 best-case energy"""
    F = ctx.F
    ctx.rule("C08.R7", "best_case_energy = Energy::create(record.ideal_energy_rate, record.energy_rate_unit, distance.0, distance.1) (PHEV: depleting record), Err propagated; find_min_energy_rate starts at f64::MAX and replaces the minimum only by a smaller rate; estimate_traversal hands (haversine distance in distance_unit, distance_unit) to best_case_energy_state after the time estimate", floor=5)
    for ty, recf in (("ice::ICE", "prediction_model_record"), ("bev::BEV", "prediction_model_record"), ("phev::PHEV", "charge_depleting_model")):
        b = vehicle_method(F, ty, "best_case_energy")
        rec = ("field", ("arg", 1), recf)
        want = ("call", U + "energy::Energy::create", (("field", rec, "ideal_energy_rate"), ("field", rec, "energy_rate_unit"), ("field", ("arg", 2), "0"), ("field", ("arg", 2), "1")))
        oks = [r for r in table(b) if r.end == "return" and result_variant(r.ret) == "Ok"]
        ok = bool(oks) and all(agg_payload(r.ret) in (want, ("tuple", (("field", want, "0"), ("field", want, "1")))) for r in oks)
        ctx.check(ok, "%s::best_case_energy" % ty.split("::")[1], "best case is not create(ideal rate, rate unit, distance, unit) of the %s: %s" % (recf, short(agg_payload(oks[0].ret))[:200] if oks else "no Ok path"), b.where(), detail="create(ideal, rate_unit, d, du)")
    b = F.need(P + "prediction::prediction_model_ops::find_min_energy_rate")
    loops = b.natural_loops()
    ok = len(loops) == 1
    if ok:
        h = loops[0][0]
        rows = iteration_table(b, h)
        back = [r for r in rows if r.kind == "back"]
        # the carried minimum
        cand = None
        for r in back:
            for f in r.facts:
                if f[0] in ("Lt", "Le") and f[2][0] == "carried":
                    cand = f[2][1]
                if f[0] in ("Lt", "Le") and f[1][0] == "carried":
                    cand = f[1][1]
        ok = cand is not None
        if ok:
            M = ("carried", cand)
            for r in back:
                new = nosite(deep_strip(r.new(cand)))
                lt = [f for f in r.facts if f[0] == "Lt" and f[2] == M]
                ge = [f for f in r.facts if f[0] == "Le" and f[1] == M]
                if lt:
                    ok = ok and new == lt[0][1] and contains(new, lambda s: s[0] == "call" and "PredictionModel::predict" in s[1])
                elif ge:
                    ok = ok and new == M
                else:
                    ok = False
            init = nosite(deep_strip(loop_entry_value(b, h, cand)))
            ok = ok and init == ("call", U + "energy_rate::EnergyRate::new", (("item", "std::f64::MAX"),)) or ok and contains(init, lambda s: s[0] == "item" and s[1].endswith("f64::MAX"))
            rets = [r for r in rows if r.kind == "return" and result_variant(nosite(deep_strip(r.ret))) == "Ok"]
            ok = ok and bool(rets) and all(agg_payload(nosite(deep_strip(r.ret))) == M for r in rets)
    ctx.check(ok, "find_min_energy_rate:keeps-the-smaller", "the sweep does not start at f64::MAX, replace the minimum only when rate < minimum and return it", b.where(), detail="if rate < min { min = rate }")
    b = F.one("EnergyTraversalModel as %s>::estimate_traversal" % TM)
    tm = Terms(b)
    bc = [c for c in b.calls() if c.func.get("method") == "best_case_energy_state"]
    et = [c for c in b.calls() if c.func.get("method") == "estimate_traversal"]
    ok = len(bc) == 1 and len(et) == 1
    if ok:
        a = args_of(tm, bc[0])
        du = ("field", ("field", ("arg", 1), "energy_model_service"), "distance_unit")
        hv = ("call", "routee_compass_core::util::geo::haversine::coord_distance", (("field", ("field", ("arg", 2), "0"), "coordinate"), ("field", ("field", ("arg", 2), "1"), "coordinate"), du))
        ok = a[0] == ("field", ("arg", 1), "vehicle") and strip_map_err(a[1]) == ("tuple", (hv, du)) and unmut(a[2]) == ("arg", 3) and unmut(a[3]) == ("arg", 4)
        ok = ok and b.dominates(et[0].bb, bc[0].bb) and try_propagation(b, bc[0], tm)["kind"] == "propagated" and try_propagation(b, et[0], tm)["kind"] == "propagated"
    ctx.check(ok, "estimate_traversal:(haversine in distance_unit, distance_unit)", "estimate_traversal does not hand the straight-line distance in its own unit to the vehicle after the time estimate, propagating errors", b.where(), detail="best_case_energy_state((haversine(src,dst,du), du), state, sm)")


def strip_map_err(t):
    def f(x):
        if x[0] == "call" and re.search(r"Result::<T, E>::map_err$", x[1]):
            return x[2][0]
        return None
    return rewrite(t, f)


def R8_registry(ctx):
    """C08.R8 vehicle registry"""
    F = ctx.F
    ctx.rule("C08.R8", "VehicleBuilder::from_string: ice/bev/phev => the matching variant, anything else Err; build dispatches each variant to its builder; the builders pass (name, record(s), battery_capacity, starting = battery_capacity, battery_capacity_unit) in constructor order; constructors store their parameters under the same names; get_model_record_from_params forwards the nine configuration values in load_prediction_model's parameter order", floor=12)
    B = "routee_compass::app::compass::config::traversal_model::energy_model_vehicle_builders::"
    b = F.need(B + "VehicleBuilder::from_string")
    tm = Terms(b)
    rt = nosite(deep_strip(tm.return_term()))
    want = {"ice": "ICE", "bev": "BEV", "phev": "PHEV"}
    seen = {}
    for r in table(b, max_paths=100000):
        if r.end != "return" or result_variant(r.ret) != "Ok":
            continue
        pay = agg_payload(r.ret)
        eqs = [d for d, l in r.bools if l != 0 and d[0] == "call" and contains(d, lambda s: s[0] == "const" and s[1] == "&str")]
        lits = []
        for d in eqs:
            lits += [s[2] for s in subterms(d) if s[0] == "const" and s[1] == "&str"]
        if pay[0] == "agg" and lits:
            seen[lits[-1]] = pay[2]
    ctx.check(seen == want, "from_string:names", "name -> variant mapping is %s, expected %s" % (seen, want), b.where(), detail="ice/bev/phev")
    b = F.need(B + "VehicleBuilder::build")
    disp = {"ICE": "build_conventional", "BEV": "build_battery_electric", "PHEV": "build_plugin_hybrid"}
    got = {}
    for r in table(b):
        if r.end == "return":
            v = r.sel.get(("arg", 1))
            if isinstance(v, str) and r.ret[0] == "call" and r.ret[2] == (("arg", 2),):
                got[v] = r.ret[1].split("::")[-1]
    ctx.check(got == disp, "build:dispatch", "variant -> builder mapping is %s" % got, b.where(), detail="ICE/BEV/PHEV -> own builder")
    cfg = lambda key, parent: None
    def conf_key(t):
        """configuration key string read by a get_config_* call inside t"""
        ks = [x for x in subterms(t) if x[0] == "call" and re.search(r"ConfigJsonExtensions>?::get_config_\w+(\{.*\})?$", x[1])]
        out = []
        for x in ks:
            for a in x[2][1:2]:
                out += [s[2] for s in subterms(a) if s[0] == "const" and s[1] == "&str"]
        return out
    for fn, ctor, order in (
        ("build_battery_electric", P + "vehicle::default::bev::BEV::new", [["name"], None, ["battery_capacity"], ["battery_capacity"], ["battery_capacity_unit"]]),
        ("build_plugin_hybrid", P + "vehicle::default::phev::PHEV::new", [["name"], "charge_sustain", "charge_depleting", ["battery_capacity"], ["battery_capacity"], ["battery_capacity_unit"], ["custom_liquid_fuel_to_kwh"]]),
        ("build_conventional", P + "vehicle::default::ice::ICE::new", [["name"], None]),
    ):
        b = F.need(B + fn)
        tm = Terms(b)
        cs = [c for c in b.calls() if c.callee == ctor]
        if not ctx.check(len(cs) == 1, fn + ":ctor", "expected one %s call" % ctor.split("::")[-2], b.where()):
            continue
        a = args_of(tm, cs[0])
        ok = len(a) == len(order)
        for i, w in enumerate(order):
            if not ok:
                break
            if isinstance(w, list):
                ok = conf_key(a[i])[:1] == w
            else:
                recs = [x for x in subterms(a[i]) if x[0] == "call" and x[1] == B + "get_model_record_from_params"]
                ok = len(recs) >= 1
                if ok and w:
                    sec = [x for x in subterms(recs[0]) if x[0] == "agg" and x[1].endswith("CompassConfigurationField")]
                    ok = bool(sec) and {"charge_sustain": "ChargeSustaining", "charge_depleting": "ChargeDepleting"}[w] == sec[0][2]
        ctx.check(ok, fn + ":argument-roles", "the constructor arguments are not (%s) in parameter order: %s" % (", ".join(str(w) for w in order), "; ".join(short(x)[:60] for x in a)), cs[0].where(), detail="argument i reads the configuration key of parameter i")
    for ctor, names in ((P + "vehicle::default::bev::BEV::new", ["name", "prediction_model_record", "battery_capacity", "starting_battery_energy", "battery_energy_unit"]), (P + "vehicle::default::phev::PHEV::new", ["name", "charge_sustain_model", "charge_depleting_model", "battery_capacity", "starting_battery_energy", "battery_energy_unit", "custom_liquid_fuel_to_kwh"]), (P + "vehicle::default::ice::ICE::new", ["name", "prediction_model_record"])):
        b = F.need(ctor)
        rt = nosite(deep_strip(Terms(b).return_term()))
        st = [x for x in subterms(rt) if x[0] == "agg" and x[1] + "::new" == ctor]
        ok = len(st) >= 1
        if ok:
            fl = dict(st[0][3])
            for i, n in enumerate(names):
                v = fl.get(n)
                ok = ok and v is not None and (v == ("arg", i + 1) or (v[0] == "call" and v[1].endswith("Arc::<T>::new") and v[2] == (("arg", i + 1),)))
        ctx.check(ok, ctor.split("::")[-2] + "::new:fields", "the constructor does not store parameter i in the field of the same role", b.where(), detail=", ".join(names))
    b = F.need(B + "get_model_record_from_params")
    tm = Terms(b)
    cs = [c for c in b.calls() if c.callee == P + "prediction::prediction_model_ops::load_prediction_model"]
    ok = len(cs) == 1
    if ok:
        a = args_of(tm, cs[0])
        keys = [conf_key(x)[:1] for x in a]
        ok = keys[:8] == [["name"], ["model_input_file"], ["model_type"], ["speed_unit"], ["grade_unit"], ["energy_rate_unit"], ["ideal_energy_rate"], ["real_world_energy_adjustment"]] and keys[8][:1] == ["float_cache_policy"]
    ctx.check(ok, "get_model_record_from_params:argument-roles", "load_prediction_model does not receive (name, model_input_file, model_type, speed_unit, grade_unit, energy_rate_unit, ideal_energy_rate, real_world_energy_adjustment, float_cache_policy) in this order: %s" % (keys if cs else None), b.where(), detail="9 configuration keys in parameter order")
    lb = F.need(P + "prediction::prediction_model_ops::load_prediction_model")
    oks = [r for r in table(lb, max_paths=200000) if r.end == "return" and result_variant(r.ret) == "Ok"]
    ok = bool(oks)
    for r in oks:
        s = agg_payload(r.ret)
        fl = dict(s[3]) if s[0] == "agg" else {}
        ok = ok and fl.get("speed_unit") == ("arg", 4) and fl.get("grade_unit") == ("arg", 5) and fl.get("energy_rate_unit") == ("arg", 6) and fl.get("cache") == ("arg", 9)
        ier = fl.get("ideal_energy_rate")
        ok = ok and ier is not None and (contains(ier, lambda q: unmut(q) == ("arg", 7)) or contains(ier, lambda q: q[0] == "call" and q[1].endswith("find_min_energy_rate")))
    ctx.check(ok, "load_prediction_model:record-fields", "the record does not store the units / ideal rate / cache it was given", lb.where(), detail="units, ideal rate (given or swept), cache")
    # the model variants receive the same three units
    tmn = Terms(lb)
    for c in lb.calls():
        if c.callee and re.search(r"(SmartcoreSpeedGradeModel|OnnxSpeedGradeModel)::new$", c.callee):
            a = args_of(tmn, c)
            ctx.check(a[1:] == [("arg", 4), ("arg", 5), ("arg", 6)], "load_prediction_model:%s-units" % c.callee.split("::")[-2], "the model is not built with (speed_unit, grade_unit, energy_rate_unit)", c.where())
        if c.callee and c.callee.endswith("InterpolationSpeedGradeModel::new"):
            a = args_of(tmn, c)
            ctx.check(a[3] == ("arg", 4) and a[6] == ("arg", 5) and a[9] == ("arg", 6), "load_prediction_model:Interpolation-units", "the interpolation model is not built with (speed_unit, grade_unit, energy_rate_unit)", c.where())


def R9_units(ctx):
    sel = lambda fn: "routee_compass_powertrain::routee::" in fn and "::interpolation::" not in fn
    common.unit_rule(ctx, "C08.R9", "unit typestate over the powertrain crate: every (quantity, unit) pairing, convert receiver and add_energy unit is the unit the value is expressed in", sel, floor=20)


def RA_state_model_extend(ctx):
    """the vehicle's declared features (incl. the per-query starting SOC) reach the search state through StateModel::extend: later declaration wins (shared with C11.R4)"""
    from props.C11 import R4_state_model
    R4_state_model(ctx)


def RB_vehicle_per_query(ctx):
    """"the state of charge starts at the query's starting value": the vehicle is prepared from *this* query on every build — nothing
    that survives a query is reachable from the shared services (shared with C06.R1 interior-mutability inventory and C06.R3 per-query
    construction; round 7: vehicles memoised by model name in the energy model service)"""
    from props.C06 import R1_inventory, R3_per_query
    R1_inventory(ctx)
    R3_per_query(ctx)


RULES = [R1_traverse, R2_record, R3_soc, R4_vehicles, R5_phev_switch, R6_starting_charge, R7_best_case, R8_registry, R9_units, C09.R4_constructors, RA_state_model_extend, RB_vehicle_per_query]
