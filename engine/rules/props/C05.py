"""C05 — 'no path' is reported exactly when the destination is unreachable."""
from core import *
import astar
from astar import AStar

EXPLANATION = (
    "C05: decision table of advance_search (queue exhausted with/without destination, destination popped), the exits of the search loop "
    "(only the limit test, advance_search and propagated model errors; the whole tree map is returned), every incident edge is examined "
    "(no break in the per-edge loop), a present destination yields a backtracked route or a propagated error, and a search error becomes "
    "an error response. Not decided: the equivalence with graph reachability on every graph."
)

ERR_NOPATH = "NoPathExistsBetweenVertices"


def R1_decision_table(ctx):
    """C05.R1 decision table of advance_search"""
    ctx.rule("C05.R1", "advance_search: (empty, Some dst) => Err(NoPath(source,dst)); (empty, None) => Ok(None); popped == dst => Ok(None); else Ok(Some(popped))", floor=4)
    b = ctx.F.need(astar.ADV)
    rows = [r for r in table(b) if r.end == "return"]
    pops = [c for c in b.calls() if c.callee and "PriorityQueue" in c.callee and c.callee.endswith("::pop")]
    if len(pops) != 1:
        raise AnchorMissing("single PriorityQueue::pop in advance_search (found %d)" % len(pops))
    pop = nosite(deep_strip(Terms(b).call_term(pops[0].term, pops[0].bb)))
    ctx.check(pop[2] == (("arg", 1),), "pop-receiver", "pop() is not applied to the frontier queue argument", b.where())
    tgt = ("arg", 3)
    popped_v = ("field", pop, "0")  # deep_strip reports the Some payload of x as x
    # The table is read case by case: a path belongs to an abstract case (queue empty or not; no destination, destination just
    # popped, another destination) when none of its conditions contradicts it — whether the code asks `match (pop, target)`,
    # nested matches, `popped == t` under `Some(t)`, or `target == Some(popped)`.
    def cond_under(term, label, case, is_sel=False):
        """truth of one path condition under the case: True (holds), False (contradicted), None (says nothing)"""
        q, t = case
        d = nosite(deep_strip(term))
        if d[0] == "discr" or is_sel:
            d = d[1] if d[0] == "discr" else d
            # Some/None of `x.map(f)` is Some/None of x
            while d[0] == "call" and re.search(r"Option::<T>::(map|copied|cloned|as_ref)$", d[1]) and d[2]:
                d = d[2][0]
        else:
            d = norm_adaptors(ctx.F, d)
        names = None
        if isinstance(label, tuple) and label and label[0] == "otherwise":
            names = set(label[1])
        elif isinstance(label, str):
            names = {label}
        if d == pop and names is not None and names <= {"None", "Some"}:
            return q in names
        if d == tgt and names is not None and names <= {"None", "Some"}:
            return ("None" if t == "none" else "Some") in names
        c = as_cmp(d)
        if c and c[0] in ("Eq", "Ne") and {c[1], c[2]} == {popped_v, tgt}:
            if q != "Some" or t == "none":
                return False
            holds = (t == "eq") == (c[0] == "Eq")
            return holds == cond_truth(label)
        # the same after canonicalisation: default(popped == target, false)
        if d[0] == "default" and d[2] == ("const", "bool", False):
            cc = as_cmp(d[1])
            if cc and cc[0] == "Eq" and {cc[1], cc[2]} == {popped_v, tgt}:
                if q != "Some":
                    return False
                return (t == "eq") == cond_truth(label)
        # target.map_or(false, |t| popped == t) / target.is_some_and(|t| popped == t)
        if d[0] == "call" and re.search(r"Option::<T>::(map_or|is_some_and)$", d[1]) and d[2] and d[2][0] == tgt and d[2][-1][0] == "closure" and d[2][-1][1] in ctx.F.bodies:
            dflt_ok = d[1].endswith("is_some_and") or (len(d[2]) == 3 and d[2][1] == ("const", "bool", False))
            cl = d[2][-1]
            crt = nosite(deep_strip(Terms(ctx.F.bodies[cl[1]]).return_term()))
            crt = rewrite(crt, lambda y: nosite(deep_strip(cl[2][int(y[2])])) if y[0] == "field" and y[1] == ("arg", 1) and str(y[2]).isdigit() and int(y[2]) < len(cl[2]) else None)
            cc = as_cmp(crt)
            if dflt_ok and cc and cc[0] == "Eq" and {cc[1], cc[2]} == {popped_v, ("arg", 2)}:
                if q != "Some":
                    return False
                return (t == "eq") == cond_truth(label)
        if d[0] == "call" and re.search(r"Option<.*> as std::cmp::PartialEq(<.*>)?>::(eq|ne)$", d[1]) and len(d[2]) == 2:
            some_popped = ("agg", "std::option::Option", "Some", (("0", popped_v),))
            if set(d[2]) == {tgt, some_popped}:
                if q != "Some":
                    return False
                holds = (t == "eq") == d[1].endswith("::eq")
                return holds == cond_truth(label)
        return None

    def feasible(r, case):
        for k, v in r.sel.items():
            if cond_under(k, v, case, True) is False:
                return False
        for bt, lab in r.bools:
            if cond_under(bt, lab, case) is False:
                return False
        return True

    OK_NONE = lambda v: result_variant(v) == "Ok" and result_variant(agg_payload(v)) == "None"
    cases = [
        (("None", "eq"), "empty-with-destination", lambda v: result_variant(v) == "Err" and agg_payload(v)[0] == "agg" and agg_payload(v)[2] == ERR_NOPATH and agg_payload(v)[3][0][1] == ("arg", 2) and agg_payload(v)[3][1][1] == tgt, "queue exhausted with a destination does not return Err(NoPathExistsBetweenVertices(source, target))"),
        (("None", "none"), "empty-no-destination", OK_NONE, "queue exhausted without a destination does not return Ok(None)"),
        (("Some", "eq"), "destination-popped", OK_NONE, "popping the destination does not end the search with Ok(None)"),
        (("Some", "ne"), "continue:Some", lambda v: result_variant(v) == "Ok" and result_variant(agg_payload(v)) == "Some" and agg_payload(agg_payload(v)) == popped_v, "a popped non-destination vertex is not returned as Ok(Some(vertex))"),
        (("Some", "none"), "continue:None", lambda v: result_variant(v) == "Ok" and result_variant(agg_payload(v)) == "Some" and agg_payload(agg_payload(v)) == popped_v, "a popped vertex is not returned as Ok(Some(vertex)) when there is no destination"),
    ]
    NR = lambda v: norm_adaptors(ctx.F, nosite(v)) if v is not None else v
    for case, inst, want_, msg in cases:
        want = lambda v, want_=want_: want_(NR(v))
        rs = [r for r in rows if feasible(r, case)]
        if not rs:
            ctx.bad("missing:" + inst.split(":")[0], "decision table lacks the case %s" % inst, b.where())
            continue
        bad = [r for r in rs if not want(r.ret)]
        ctx.check(not bad, inst, "%s: %s" % (msg, short(bad[0].ret)[:120] if bad else ""), b.where(), detail=short(rs[0].ret)[:100])
    # with the queue empty and a destination the comparison cannot be what decides: the case must not depend on eq/ne
    rs = [r for r in rows if feasible(r, ("None", "ne"))]
    ctx.check(bool(rs) and all(result_variant(r.ret) == "Err" for r in rs), "empty-with-destination:any", "queue exhausted with a destination is not an error on every path", b.where())


def R2_loop_exits(ctx):
    """C05.R2 exits of the search loop"""
    ctx.rule("C05.R2", "the search loop is left only through advance_search's Ok(None) (normal end) or through propagated errors; the complete tree map is returned", floor=4)
    a = AStar(ctx.F)
    b, tm = a.body, a.tm
    # value of the pop: Result<Option<VertexId>>
    pr = try_propagation(b, a.pop, tm)
    ctx.check(pr["kind"] == "propagated", "nopath-propagated", "the Err of advance_search (no path) is not propagated: %s" % pr["detail"], a.pop.where(), detail=pr["detail"])
    # the Ok-return block(s): value contains SearchResult::new
    ok_returns = []
    rt_blocks = b.return_blocks()
    # classify loop exit edges
    res_bb = a.result_new.bb
    normal_exits = []
    for (x, y) in loop_exit_edges(b, a.loop_blocks):
        reach = b.reachable(start=y)
        if res_bb in reach:
            normal_exits.append((x, y))
        else:
            vals = region_value(b, (x, y))
            bad = [short(v) for _, v in vals if not is_err_value(v)]
            ctx.check(not bad and vals, "error-exit:bb%d" % 0, "a loop exit that bypasses the result construction returns a non-error value: %s" % bad[:1], b.where(x))
    # normal exits must come from the switch on the popped Option with label None
    okn = len(normal_exits) >= 1
    for (x, y) in normal_exits:
        t = b.blocks[x]["term"]
        good = False
        if t["k"] == "switch":
            d, names = switch_discr_info(b, x)
            dt = deep_strip(tm.operand(d, x))
            if dt[0] == "discr" and strip_try(dt[1]) == a.popped and names and switch_target(t, names, "None") == y:
                good = True
        if not good:
            okn = False
            ctx.bad("extra-exit", "the search loop has an exit to the Ok result that is not advance_search() == None", b.where(x))
    ctx.check(okn, "normal-exit", "no exit of the search loop on advance_search() == None found", a.pop.where())
    # whole tree returned
    tree_map = a.arg(a.ins_tree, 0)
    got = a.arg(a.result_new, 0)
    ctx.check(got == tree_map, "whole-tree", "SearchResult::new does not receive the tree map built by the loop: %s" % short(got), a.result_new.where(), detail=short(got))
    rt = tm.return_term()
    new_t = tm.call_term(a.result_new.term, a.result_new.bb)
    okr = contains(rt, lambda s: result_variant(s) == "Ok" and agg_payload(s) == new_t)
    ctx.check(okr, "result-returned", "the function does not return Ok(SearchResult::new(tree, iterations))", a.result_new.where())
    ctx.a = a


def R3_route_or_error(ctx):
    """C05.R3 every incident edge examined; destination present => route or error"""
    F = ctx.F
    ctx.rule("C05.R3", "the per-edge loop has no early exit except error propagation; run_vertex_oriented backtracks whenever a destination is present and propagates the backtrack error", floor=4)
    a = getattr(ctx, "a", None) or AStar(F)
    b, tm = a.body, a.tm
    if a.inner is None:
        raise AnchorMissing("per-edge loop")
    h, blocks = a.inner
    nx = nosite(deep_strip(tm.call_term(a.next.term, a.next.bb)))
    n_norm = 0
    for (x, y) in loop_exit_edges(b, blocks):
        if y in a.loop_blocks:
            # stays in the outer loop: must be the iterator's None arm
            t = b.blocks[x]["term"]
            good = False
            if t["k"] == "switch":
                d, names = switch_discr_info(b, x)
                dt = nosite(deep_strip(tm.operand(d, x)))
                if dt == ("discr", nx) and names and switch_target(t, names, "None") == y:
                    good = True
            n_norm += 1
            ctx.check(good, "edge-loop-exit", "the loop over incident edges can be left before the iterator is exhausted (break)", b.where(x))
        else:
            vals = region_value(b, (x, y))
            bad = [short(v) for _, v in vals if not is_err_value(v)]
            ctx.check(not bad and vals, "edge-loop-error-exit", "the loop over incident edges is left towards a non-error return: %s" % bad[:1], b.where(x))
    ctx.check(n_norm >= 1, "edge-loop-has-normal-exit", "no exhaustion exit found for the per-edge loop", a.next.where())
    # iterator is consumed directly (no take/skip/filter/step_by between get_incident_edges and next)
    recv = deep_strip(tm.operand(a.next.args[0], a.next.bb))
    adapters = [c[1] for c in calls_in(recv) if re.search(r"Iterator>?::(take|skip|filter|step_by|take_while|skip_while|filter_map|rev|peekable)$", c[1])]
    ctx.check(not adapters, "edge-iterator-unfiltered", "incident edges are filtered/truncated before the loop: %s" % adapters, a.next.where())
    # run_vertex_oriented, A* arm
    rv = F.need(astar.A + "search_algorithm::SearchAlgorithm::run_vertex_oriented")
    tmv = Terms(rv)
    bts = rv.calls_to(astar.A + "backtrack::vertex_oriented_route")
    ras = rv.calls_to(astar.RUN)
    if len(bts) == 0 and len(ras) == 1:
        # `dst_opt.map(|dst| backtrack(src, dst, &tree)).transpose()?`: the same thing with the Option adaptor
        _backtrack_adaptor_form(ctx, F, rv, tmv, ras[0])
        return
    if len(bts) != len(ras) or not bts:
        raise AnchorMissing("run_vertex_oriented: backtrack/run_a_star calls (%d/%d)" % (len(bts), len(ras)))
    # (one search + backtrack pair per algorithm arm that runs the search itself: usually one, two when the Dijkstra arm does
    # not delegate to the A* arm)
    pairs = []
    for ra_ in ras:
        mine = [bt_ for bt_ in bts if rv.dominates(ra_.bb, bt_.bb)]
        if len(mine) != 1:
            raise AnchorMissing("run_vertex_oriented: a search without exactly one backtrack after it")
        pairs.append((mine[0], ra_))
    for bt, ra in pairs:
        _search_and_backtrack(ctx, rv, tmv, bt, ra)


def _search_and_backtrack(ctx, rv, tmv, bt, ra):
    pr = try_propagation(rv, ra, tmv)
    ctx.check(pr["kind"] == "propagated", "search-error-propagated", "the Err of run_a_star is not propagated: %s" % pr["detail"], ra.where())
    pr = try_propagation(rv, bt, tmv)
    ctx.check(pr["kind"] == "propagated", "backtrack-error-propagated", "the Err of backtrack is not propagated: %s" % pr["detail"], bt.where())
    args = [deep_strip(tmv.operand(x, bt.bb)) for x in bt.args]
    sr = strip_try(deep_strip(tmv.call_term(ra.term, ra.bb)))
    ok = args[0] == ("arg", 2) and args[1] == ("arg", 3) and nosite(args[2]) == nosite(("field", sr, "tree"))
    ctx.check(ok, "backtrack-args", "backtrack is not called with (source, destination, tree of this search): %s" % [short(x) for x in args], bt.where(), detail=[short(x) for x in args])
    # backtrack happens on the Some arm of the destination: dominated by a switch on discr(arg3)==Some
    good = False
    for bb, dt, names, t in switches(rv, tmv):
        if deep_strip(dt) == ("discr", ("arg", 3)) and names:
            st = switch_target(t, names, "Some")
            if rv.dominates(st, bt.bb) and bb in rv.dom.get(bt.bb, ()):
                good = True
    ctx.check(good, "backtrack-when-destination", "backtrack is not performed exactly under `destination is Some`", bt.where())


def _backtrack_adaptor_form(ctx, F, rv, tmv, ra):
    pr = try_propagation(rv, ra, tmv)
    ctx.check(pr["kind"] == "propagated", "search-error-propagated", "the Err of run_a_star is not propagated: %s" % pr["detail"], ra.where())
    found = None
    for cb in tree_of(F, rv.path):
        if cb is rv:
            continue
        cs = cb.calls_to(astar.A + "backtrack::vertex_oriented_route")
        if len(cs) == 1:
            found = (cb, cs[0])
    if found is None:
        raise AnchorMissing("run_vertex_oriented: no backtrack call in the function or its closures")
    cb, bt = found
    ctm = Terms(cb)
    mps = [c for c in rv.calls() if c.callee and re.search(r"Option::<T>::map$", c.callee) and len(c.args) == 2 and tmv.operand(c.args[1], c.bb)[0] == "closure" and tmv.operand(c.args[1], c.bb)[1] == cb.path]
    if not ctx.check(len(mps) == 1 and clean(tmv.operand(mps[0].args[0], mps[0].bb)) == ("arg", 3), "backtrack-when-destination", "backtrack is not performed exactly under `destination is Some` (expected destination.map(|dst| backtrack(..)))", bt.where()):
        return
    mp = mps[0]
    caps = [clean(x) for x in tmv.operand(mp.args[1], mp.bb)[2]]
    sub = lambda t: rewrite(clean(t), lambda y: ("arg", 3) if y == ("arg", 2) else (caps[int(y[2])] if y[0] == "field" and y[1] == ("arg", 1) and str(y[2]).isdigit() and int(y[2]) < len(caps) else None))
    args = [sub(ctm.operand(x, bt.bb)) for x in bt.args]
    sr = clean(tmv.call_term(ra.term, ra.bb))
    ok = args[0] == ("arg", 2) and args[1] == ("arg", 3) and args[2] == ("field", sr, "tree")
    ctx.check(ok, "backtrack-args", "backtrack is not called with (source, destination, tree of this search): %s" % [short(x) for x in args], bt.where(), detail=[short(x) for x in args])
    # the Err leaves the closure as its value, is turned inside out by transpose() and propagated by `?`
    okr = clean(ctm.return_term()) == clean(ctm.call_term(bt.term, bt.bb))
    mt = tmv.call_term(mp.term, mp.bb)
    trs = [c for c in rv.calls() if c.callee and re.search(r"Option::<.*>::transpose$|Option::<T>::transpose$", c.callee) and tmv.operand(c.args[0], c.bb) == mt]
    okr = okr and len(trs) == 1 and try_propagation(rv, trs[0], tmv)["kind"] == "propagated"
    ctx.check(okr, "backtrack-error-propagated", "the Err of backtrack is not propagated (closure value -> transpose -> ?)", bt.where())


def R4_response(ctx):
    """C05.R4 a search error becomes {request,error}"""
    F = ctx.F
    ctx.rule("C05.R4", "apply_output_processing: a search Err yields package_error(request, error), never an empty route object", floor=1)
    b = F.need("routee_compass::plugin::output::output_plugin_ops::create_initial_output")
    rows = [r for r in table(b) if r.end == "return"]
    n = 0
    for r in rows:
        v = None
        for base, lab in r.sel.items():
            if base == ("arg", 2):
                v = lab
        if v == "Err":
            n += 1
            ok = result_variant(r.ret) == "Err" or (r.ret[0] == "call" and r.ret[1].endswith("package_error"))
            ctx.check(ok, "search-err=>error", "create_initial_output maps a search Err to a non-error value: %s" % short(r.ret), b.where(), detail=short(r.ret))
    if n == 0:
        ctx.bad("search-err-arm", "no path for a search Err found in create_initial_output", b.where())


def R_graph_roles(ctx):
    """the graph the property quantifies over is loaded with the file/count arguments in their roles (shared with C15.R3a)"""
    from props.C15 import roles_rule
    roles_rule(ctx, "C05.R5")


def R5_who_reports_no_path(ctx):
    """C05.R6 'no path' is only reported where unreachability has been established"""
    F = ctx.F
    ctx.rule("C05.R6", "SearchError::NoPathExists* is constructed only (a) in advance_search on an exhausted frontier with a destination (R1), (b) in the edge-oriented wrappers under `is_empty()` of the sub-search's result; any other construction site could report 'no path' for a reachable destination", floor=3)
    ERR = "routee_compass_core::algorithm::search::search_error::SearchError"
    allowed = {
        astar.ADV: "frontier exhausted (decision table R1)",
        astar.A + "a_star::a_star_algorithm::run_a_star_edge_oriented": "sub-search result empty",
        astar.A + "search_algorithm::SearchAlgorithm::run_edge_oriented": "sub-search result empty",
        astar.A + "search_algorithm::run_edge_oriented": "sub-search result empty",
    }
    n = 0
    for p, b in sorted(F.bodies.items()):
        tm = None
        for bb, blk in enumerate(b.blocks):
            if blk.get("cleanup"):
                continue
            for pos, st in enumerate(blk["stmts"]):
                if st["k"] == "assign" and st["rv"]["k"] == "agg" and st["rv"].get("adt") == ERR and str(st["rv"].get("variant", "")).startswith("NoPathExists"):
                    n += 1
                    root = p.split("::{closure")[0]
                    inst = "%s:%s" % (short_fn_name(root), st["rv"]["variant"])
                    if root not in allowed:
                        ctx.bad(inst, "'no path' is reported from %s, where unreachability of the destination has not been established by an exhausted search" % short_fn_name(root), b.where(bb))
                        continue
                    if root == astar.ADV:
                        ctx.ok(inst, allowed[root])
                        continue
                    tm = tm or Terms(b)
                    guarded = False
                    for sbb, dt, names, t in switches(b, tm):
                        if names is not None:
                            continue
                        d = nosite(deep_strip(dt))
                        if d[0] == "call" and re.search(r"::is_empty$", d[1]) and contains(d, lambda q: q[0] == "call" and (q[1] == astar.RUN or q[1].endswith("SearchAlgorithm::run_vertex_oriented"))):
                            f_, tr_ = bool_targets(t)
                            if tr_ is not None and b.dominates(tr_, bb) and not b.dominates(f_, bb):
                                guarded = True
                    ctx.check(guarded, inst, "'no path' is not guarded by is_empty() of the sub-search's result", b.where(bb), detail=allowed[root])
    ctx.check(n >= 3, "sites-found", "expected at least the three known construction sites, found %d" % n, None)


def RA_adjacency_container(ctx):
    """the adjacency lists are CompactOrderedHashMaps: what a search sees of a vertex is keys()/iter() of that map, what the loader
    stored is insert().  The container's own rules (every accessor agrees on the slots, growth keeps every entry, dense indices)
    are therefore part of this property too (shared with C11.R1-R3)."""
    from props.C11 import R1_slot_table, R2_growth, R3_dense_index
    R1_slot_table(ctx)
    R2_growth(ctx)
    R3_dense_index(ctx)


def RB_edge_oriented(ctx):
    """edge-oriented queries: "a route, not a partial one" depends on how the wrappers bind the origin and destination edges
    around the vertex-oriented sub-search (shared with C01.R4; the conditional destination binding recorded there makes the
    returned route stop short of the destination edge, which this property calls a partial route)"""
    from props.C01 import R4_edge_oriented
    R4_edge_oriented(ctx)


def RC_adjacency_built(ctx):
    """what a search can expand is what the loader linked: every edge row is inserted into adj and rev unconditionally (shared with C15.R1)"""
    from props.C15 import R1_adjacency
    R1_adjacency(ctx)


def RD_incident_edges(ctx):
    """"reachable through permitted edges" is decided over the edges a search is shown: Direction::get_incident_edges must be the
    whole out- (Forward) / in- (Reverse) adjacency of the vertex, and the Graph accessors must read adj / rev as they are — an
    accessor that de-duplicates by neighbouring vertex hides the parallel edge that is the only permitted one (shared with C01.R2;
    round 6: get_incident_edges delegating to an incident_edges_iter that had become unique_by(vertex))"""
    from props.C01 import R2_direction
    R2_direction(ctx)


def RE_restrictions_of_this_query(ctx):
    """"reachable through permitted edges": permitted by *this* query's restrictions — the frontier services hand the model what was
    parsed from the query they were given (shared with C04.R6; round 7: the road-class selection memoised in the service, so every
    later query was searched with the first query's classes)"""
    from props.C04 import R6_plumbing
    R6_plumbing(ctx)


RULES = [R1_decision_table, R2_loop_exits, R3_route_or_error, R4_response, R_graph_roles, R5_who_reports_no_path, RA_adjacency_container, RB_edge_oriented, RC_adjacency_built, RD_incident_edges, RE_restrictions_of_this_query]
