"""C18 — strongly connected components are exactly the mutual-reachability classes."""
from core import *

EXPLANATION = (
    "C18: the ingredients of Kosaraju's algorithm, each a necessary condition: the two depth-first searches follow opposite edge "
    "directions with the matching far end (out-edges/dst, in-edges/src over the adj/rev tables); both test `visited` first, mark before "
    "recursing, recurse into the far end of every incident edge and push the vertex after the loop on every non-visited path (post-order); "
    "pass 1 runs one direction over all vertex ids, `visited` is reset, pass 2 consumes the finishing stack LIFO with the other direction, "
    "skips visited vertices and pushes a fresh component per root; the largest component is replaced only on a greater size over all "
    "components. Not decided: Kosaraju's correctness as a theorem; recursion depth."
)

S = "routee_compass_core::algorithm::component::scc::"
G = "routee_compass_core::model::network::graph::Graph::"


def dfs_rule(ctx, fn, edges_fn, far_fn):
    F = ctx.F
    b = F.need(S + fn)
    tm = Terms(b)
    name = fn
    cont = [c for c in b.calls() if c.callee and c.callee.startswith("std::collections::HashSet::<T, S, A>::contains")]
    ins = [c for c in b.calls() if c.callee and c.callee.startswith("std::collections::HashSet::<T, S, A>::insert")]
    rec = b.calls_to(S + fn)
    push = [c for c in b.calls() if c.callee and c.callee.startswith("std::vec::Vec::<T, A>::push")]
    edges = b.calls_to(G + edges_fn)
    far = b.calls_to(G + far_fn)
    ok = len(cont) == len(ins) == len(rec) == len(push) == len(edges) == len(far) == 1
    ctx.check(ok, name + ":shape", "expected one visited test, visited insert, recursion, stack push, %s and %s call (found %s)" % (edges_fn, far_fn, [len(x) for x in (cont, ins, rec, push, edges, far)]), b.where())
    if not ok:
        return
    cont, ins, rec, push, edges, far = cont[0], ins[0], rec[0], push[0], edges[0], far[0]
    a = lambda c, i: unmut(nosite(deep_strip(tm.operand(c.args[i], c.bb))))
    # direction pairing
    ctx.check(a(edges, 0) == ("arg", 1) and a(edges, 1) == ("arg", 2), name + ":incident-edges", "incident edges are not %s(graph, vertex)" % edges_fn, edges.where(), detail="%s(vertex)" % edges_fn)
    nx = [c for c in b.calls() if c.func.get("method") == "next"]
    item = unmut(nosite(deep_strip(tm.call_term(nx[0].term, nx[0].bb)))) if len(nx) == 1 else None
    ctx.check(item is not None and a(far, 1) == item and contains(item, lambda s: s[0] == "call" and s[1] == G + edges_fn), name + ":far-end", "the far end is not %s(edge) of each incident edge" % far_fn, far.where(), detail="%s(edge)" % far_fn)
    farv = unmut(nosite(strip_try(deep_strip(tm.call_term(far.term, far.bb)))))
    ctx.check(a(rec, 1) == farv and a(rec, 0) == ("arg", 1) and a(rec, 2) == ("arg", 3) and a(rec, 3) == ("arg", 4), name + ":recursion", "recursion is not on (graph, far end, same visited set, same stack)", rec.where(), detail="dfs(far end)")
    for c, what in ((far, "far-end lookup"), (rec, "recursion")):
        ctx.check(try_propagation(b, c, tm)["kind"] == "propagated", name + ":err:" + what.split()[0], "Err of the %s is not propagated" % what, c.where())
    # every incident edge: loop without early normal exit
    lp = innermost_loop(b, rec.bb)
    okl = lp is not None and nx and nx[0].bb in lp[1]
    if okl:
        recv = deep_strip(tm.operand(nx[0].args[0], nx[0].bb))
        okl = not [x for x in calls_in(recv) if re.search(r"Iterator>?::(take|skip|filter|step_by|rev)$", x[1])]
        nxt = tm.call_term(nx[0].term, nx[0].bb)
        for (x, y) in loop_exit_edges(b, lp[1]):
            vals = region_value(b, (x, y))
            if vals and all(is_err_value(deep_strip(v)) for _, v in vals):
                continue
            t = b.blocks[x]["term"]
            good = False
            if t["k"] == "switch":
                d, names = switch_discr_info(b, x)
                if names and tm.operand(d, x) == ("discr", nxt) and switch_target(t, names, "None") == y:
                    good = True
            okl = okl and good
    ctx.check(bool(okl), name + ":all-incident-edges", "the loop over incident edges can end before all edges were followed", b.where())
    # order: visited test first; insert before recursion; push after the loop
    ctx.check(b.dominates(cont.bb, ins.bb) and b.dominates(cont.bb, rec.bb), name + ":visited-test-first", "the visited test does not come first", cont.where())
    ctx.check(a(cont, 0) == ("arg", 3) and a(cont, 1) == ("arg", 2) and a(ins, 0) == ("arg", 3) and a(ins, 1) == ("arg", 2), name + ":visited-args", "visited test/insert are not on (visited, vertex)", ins.where())
    ctx.check(b.dominates(ins.bb, rec.bb) and ins.bb not in b.reachable(start=rec.bb), name + ":mark-before-recursion", "the vertex is not marked visited before the recursion", ins.where())
    post = lp is not None and push.bb not in lp[1] and b.dominates(nx[0].bb, push.bb) if nx else False
    ctx.check(post and a(push, 0) == ("arg", 4) and a(push, 1) == ("arg", 2), name + ":post-order-push", "the vertex is not pushed on the stack after all incident edges were followed (post-order)", push.where(), detail="push after loop")
    # visited => return Ok without push; not visited => every Ok return passes the push
    verdict = nosite(deep_strip(tm.call_term(cont.term, cont.bb)))
    sw = None
    for sbb, dt, names, t in switches(b, tm):
        if nosite(deep_strip(dt)) == verdict:
            sw = (sbb,) + bool_targets(t)
    okv = sw is not None
    if okv:
        sbb, f, tr = sw
        okv = push.bb not in b.reachable(start=tr) and ins.bb not in b.reachable(start=tr)
        # on the not-visited side every block that sets the result to Ok(..) is reachable only through the push
        ok_blocks = []
        for bb, blk in enumerate(b.blocks):
            for st in blk["stmts"]:
                if st["k"] == "assign" and st["place"]["l"] == 0 and not st["place"]["p"] and st["rv"]["k"] == "agg" and st["rv"].get("variant") == "Ok":
                    ok_blocks.append(bb)
        fresh = b.reachable(start=f)
        wo_push = b.reachable(start=f, removed_blocks=[push.bb])
        okv = okv and bool(ok_blocks) and all(bb not in wo_push for bb in ok_blocks if bb in fresh) and any(bb in fresh for bb in ok_blocks)
    ctx.check(okv, name + ":push-on-every-fresh-path", "a vertex that was not visited before can return Ok without being pushed on the stack (it would appear in no component), or a visited vertex is pushed again", b.where(), detail="visited => Ok(()) ; fresh => ... push; Ok(())")


def R1_R2_dfs(ctx):
    """C18.R1/R2 two depth-first searches in opposite directions, post-order"""
    ctx.rule("C18.R1", "depth_first_search follows out-edges to dst, reverse_depth_first_search follows in-edges to src; both: visited test first, mark before recursion, recursion on every incident edge's far end, post-order push on every fresh path", floor=24)
    dfs_rule(ctx, "depth_first_search", "out_edges", "dst_vertex_id")
    dfs_rule(ctx, "reverse_depth_first_search", "in_edges", "src_vertex_id")
    F = ctx.F
    for fn, it in (("out_edges", "out_edges_iter"), ("in_edges", "in_edges_iter")):
        b = F.need(G + fn)
        rt = nosite(deep_strip(Terms(b).return_term()))
        ok = contains(rt, lambda s: s == ("call", G + it, (("arg", 1), ("arg", 2)))) and not [x for x in calls_in(rt) if re.search(r"Iterator>?::(take|skip|filter|step_by|rev)$", x[1])]
        ctx.check(ok, "Graph::%s" % fn, "Graph::%s is not the collected %s" % (fn, it), b.where(), detail=it)


def R2_passes(ctx):
    """C18.R2 the two passes"""
    F = ctx.F
    ctx.rule("C18.R2", "all_strongly_connected_componenets: pass 1 over all vertex ids in one direction; visited cleared; pass 2 pops the finishing stack (LIFO), skips visited vertices, runs the other direction into a fresh component and pushes it once", floor=9)
    b = F.need(S + "all_strongly_connected_componenets")
    tm = Terms(b)
    fwd = b.calls_to(S + "depth_first_search")
    rev = b.calls_to(S + "reverse_depth_first_search")
    ctx.check(len(fwd) + len(rev) == 2 and len(fwd) == 1, "opposite-directions", "the two passes do not use the two searches of opposite direction (forward calls %d, reverse calls %d)" % (len(fwd), len(rev)), b.where(), detail="{pass1, pass2} = {forward, reverse}")
    if len(fwd) != 1 or len(rev) != 1:
        return
    # order the passes by dominance
    p1, p2 = (fwd[0], rev[0]) if b.dominates(fwd[0].bb, rev[0].bb) or rev[0].bb in b.reachable(start=fwd[0].bb) and fwd[0].bb not in b.reachable(start=rev[0].bb) else (rev[0], fwd[0])
    a = lambda c, i: unmut(nosite(deep_strip(tm.operand(c.args[i], c.bb))))
    l1 = innermost_loop(b, p1.bb)
    l2 = innermost_loop(b, p2.bb)
    ctx.check(l1 is not None and l2 is not None and l1 != l2, "two-loops", "the passes are not two separate loops", b.where())
    if l1 is None or l2 is None:
        return
    nx1 = [c for c in b.calls() if c.func.get("method") == "next" and c.bb in l1[1]]
    ok1 = len(nx1) == 1
    if ok1:
        recv = deep_strip(tm.operand(nx1[0].args[0], nx1[0].bb))
        ok1 = contains(recv, lambda s: s[0] == "call" and s[1] == G + "vertex_ids") and not [x for x in calls_in(recv) if re.search(r"Iterator>?::(take|skip|filter|step_by)$", x[1])]
        ok1 = ok1 and a(p1, 1) == unmut(nosite(deep_strip(tm.call_term(nx1[0].term, nx1[0].bb))))
    ctx.check(ok1, "pass1:all-vertices", "pass 1 does not start a search from every vertex id", p1.where(), detail="for v in graph.vertex_ids()")
    vis1, st1 = root_local(b, p1.args[2]), root_local(b, p1.args[3])
    vis2, comp = root_local(b, p2.args[2]), root_local(b, p2.args[3])
    # visited reset between passes: clear() on the same set (or a different, fresh set)
    clears = [c for c in b.calls() if c.callee and c.callee.startswith("std::collections::HashSet::<T, S, A>::clear")]
    reset = (vis1 != vis2) or any(root_local(b, c.args[0]) == vis1 and c.bb not in l1[1] and c.bb not in l2[1] and p2.bb in b.reachable(start=c.bb) and p1.bb not in b.reachable(start=c.bb) for c in clears)
    ctx.check(reset, "visited-reset", "the visited set is not reset between the passes", b.where(), detail="visited.clear()")
    # pass 2 consumes the finishing stack LIFO
    pops = [c for c in b.calls() if c.callee and c.callee.startswith("std::vec::Vec::<T, A>::pop") and c.bb in l2[1]]
    okp = len(pops) == 1 and root_local(b, pops[0].args[0]) == st1
    if not okp:
        # accept reverse iteration
        nx2 = [c for c in b.calls() if c.func.get("method") == "next" and c.bb in l2[1]]
        if nx2:
            recv = deep_strip(tm.operand(nx2[0].args[0], nx2[0].bb))
            okp = bool([x for x in calls_in(recv) if itm(x[1], "rev")])
    ctx.check(okp, "pass2:lifo", "pass 2 does not consume the finishing stack last-in first-out", b.where(), detail="container.pop()")
    if len(pops) == 1:
        root = unmut(nosite(strip_try(deep_strip(tm.call_term(pops[0].term, pops[0].bb)))))
        ctx.check(a(p2, 1) == root, "pass2:root", "pass 2 does not search from the popped vertex", p2.where())
        # skip visited roots
        cont = [c for c in b.calls() if c.callee and c.callee.startswith("std::collections::HashSet::<T, S, A>::contains") and c.bb in l2[1]]
        oks = len(cont) == 1 and root_local(b, cont[0].args[0]) == vis2 and b.dominates(cont[0].bb, p2.bb)
        if oks:
            verdict = nosite(deep_strip(tm.call_term(cont[0].term, cont[0].bb)))
            oks = False
            for sbb, dt, names, t in switches(b, tm):
                if nosite(deep_strip(dt)) == verdict:
                    f, tr = bool_targets(t)
                    oks = p2.bb not in b.reachable(start=tr, removed_blocks=[pops[0].bb]) and p2.bb in b.reachable(start=f, removed_blocks=[pops[0].bb])
        ctx.check(oks, "pass2:skip-visited", "an already visited stack entry is not skipped before starting a component", b.where())
    # fresh component per root, pushed once
    news = [(bb, pos) for (bb, pos, proj) in b.defs.get(comp, []) if not proj]
    fresh = any(bb in l2[1] for bb, pos in news)
    ctx.check(fresh, "pass2:fresh-component", "the component vector is not created anew for every root (components would be merged)", p2.where(), detail="Vec::new() inside the loop")
    rp = [c for c in b.calls() if c.callee and c.callee.startswith("std::vec::Vec::<T, A>::push") and c.bb in l2[1]]
    okr = len(rp) == 1 and root_local(b, rp[0].args[1]) == comp and b.dominates(p2.bb, rp[0].bb)
    ctx.check(okr, "pass2:push-component", "the component is not pushed to the result exactly once after its search", b.where())
    if okr:
        res = root_local(b, rp[0].args[0])
        rt = tm.return_term()
        oks_ = [x for x in (rt[1] if rt[0] == "phi" else [rt]) if result_variant(x) == "Ok"]
        ctx.check(len(oks_) == 1 and unmut(deep_strip(agg_payload(oks_[0]))) == unmut(deep_strip(tm.local(res, rp[0].bb, 0))) or len(oks_) == 1, "result-returned", "the collected components are not returned", b.where())
    for c in (p1, p2):
        ctx.check(try_propagation(b, c, tm)["kind"] == "propagated", "err:%s" % c.callee.split("::")[-1], "Err of a search pass is not propagated", c.where())


def R3_largest(ctx):
    """C18.R3 largest component"""
    F = ctx.F
    ctx.rule("C18.R3", "largest_strongly_connected_component replaces the current best only when a component's len() is greater, over all components, and returns the best", floor=3)
    b = F.need(S + "largest_strongly_connected_component")
    tm = Terms(b)
    src = b.calls_to(S + "all_strongly_connected_componenets")
    nx = [c for c in b.calls() if c.func.get("method") == "next"]
    ok = len(src) == 1 and len(nx) == 1
    if not ok:
        ctx.bad("shape", "expected one component computation and one loop", b.where())
        return
    recv = deep_strip(tm.operand(nx[0].args[0], nx[0].bb))
    comps = strip_try(deep_strip(tm.call_term(src[0].term, src[0].bb)))
    ctx.check(contains(recv, lambda s: s == comps) and not [x for x in calls_in(recv) if re.search(r"Iterator>?::(take|skip|filter|step_by)$", x[1])], "over-all-components", "the loop does not range over all components", nx[0].where())
    lp = innermost_loop(b, nx[0].bb)
    # no early normal exit
    okx = lp is not None
    if okx:
        nxt = tm.call_term(nx[0].term, nx[0].bb)
        for (x, y) in loop_exit_edges(b, lp[1]):
            t = b.blocks[x]["term"]
            good = False
            if t["k"] == "switch":
                d, names = switch_discr_info(b, x)
                if names and tm.operand(d, x) == ("discr", nxt) and switch_target(t, names, "None") == y:
                    good = True
            vals = region_value(b, (x, y))
            if vals and all(is_err_value(deep_strip(v)) for _, v in vals):
                good = True
            okx = okx and good
    ctx.check(bool(okx), "no-early-exit", "the selection loop can stop before all components were compared", b.where())
    # comparison: len(component) > len(best)  (or >=)
    item = unmut(nosite(deep_strip(tm.call_term(nx[0].term, nx[0].bb))))
    cmps = []
    for sbb, dt, names, t in switches(b, tm):
        c = as_cmp(deep_strip(dt))
        if c and lp and sbb in lp[1]:
            cmps.append((sbb, canon_cmp((c[0], unmut(nosite(c[1])), unmut(nosite(c[2])))), t))
    okc = len(cmps) == 1
    if okc:
        sbb, c, t = cmps[0]
        ln = lambda x: x[0] == "call" and x[1].endswith("::len")
        okc = c[0] in ("Lt", "Le") and ln(c[1]) and ln(c[2]) and c[2][2][0] == item and c[1] != c[2]
        ctx.check(okc, "greater-size", "the best component is not replaced on `component.len() > best.len()`: %s" % short(("bin",) + c)[:200], b.where(sbb), detail=short(("bin",) + c)[:120])
        # the returned vector is the one compared as `best`
        rt = tm.return_term()
        oks_ = [x for x in (rt[1] if rt[0] == "phi" else [rt]) if result_variant(x) == "Ok"]
        best = c[1][2][0]
        okb = len(oks_) == 1 and loopfree(unmut(nosite(deep_strip(agg_payload(oks_[0]))))) == loopfree(best)
        ctx.check(okb, "returns-best", "the returned component is not the one maintained as best", b.where())
    else:
        ctx.bad("greater-size", "expected one size comparison in the loop, found %d" % len(cmps), b.where())


def R_graph_roles(ctx):
    """the graph the property quantifies over is loaded with the file/count arguments in their roles (shared with C15.R3a)"""
    from props.C15 import roles_rule
    roles_rule(ctx, "C18.R4")


RULES = [R1_R2_dfs, R2_passes, R3_largest, R_graph_roles]
