"""C18 — strongly connected components are exactly the mutual-reachability classes."""
from core import *

EXPLANATION = (
    "C18: the ingredients of Kosaraju's algorithm, each a necessary condition: the two depth-first searches follow opposite edge "
    "directions with the matching far end (out-edges/dst, in-edges/src over the adj/rev tables); both test `visited` first, mark before "
    "recursing, recurse into the far end of every incident edge and push the vertex after the loop on every non-visited path (post-order); "
    "pass 1 runs one direction over all vertex ids, `visited` is reset, pass 2 consumes the finishing stack LIFO with the other direction, "
    "skips visited vertices and pushes a fresh component per root; the largest component is replaced only on a greater size over all "
    "components. Not decided: Kosaraju's correctness as a theorem; recursion depth."
)

S = "routee_compass_core::algorithm::component::scc::"
G = "routee_compass_core::model::network::graph::Graph::"


DIRT = "routee_compass_core::algorithm::search::direction::Direction"
TRUNC = r"Iterator>?::(take|skip|filter|step_by|rev|take_while|skip_while|filter_map)$"
OK_UNIT = ("agg", "std::result::Result", "Ok", (("0", ("tuple", ())),))


class _Roles(dict):
    """role -> parameter index; .term[role] is the term that denotes the role inside the function: the parameter itself, or a
    field of a parameter that bundles the visited set and the stack in one struct of two `&mut` references"""
    pass


def _roles(body):
    """parameters of a search function by type: graph, vertex, visited set, stack, (direction)"""
    F = body.facts
    out = _Roles()
    out.term = {}
    for i in range(1, body.argc + 1):
        ty = body.locals[i]["ty"]
        r = None
        if ty.endswith("graph::Graph") and ty.startswith("&"):
            r = "g"
        elif ty.startswith("&") and ty.endswith("vertex_id::VertexId"):
            r = "v"
        elif "HashSet<" in ty and ty.startswith("&mut"):
            r = "vis"
        elif ty.startswith("&mut std::vec::Vec<") and "VertexId" in ty:
            r = "st"
        elif ty.endswith("direction::Direction"):
            r = "dir"
        else:
            # a private struct holding (&mut HashSet<VertexId>, &mut Vec<VertexId>)
            adt = re.sub(r"^(&('\w+ )?(mut )?)+", "", ty).split("<")[0]
            a = F.adts.get(adt)
            if a and a["kind"] == "struct" and len(a["variants"]) == 1 and len(a["variants"][0]["fields"]) == 2:
                got = {}
                for f in a["variants"][0]["fields"]:
                    fty = f.get("ty") or ""
                    if "HashSet<" in fty and "&" in fty:
                        got["vis"] = f["name"]
                    elif "std::vec::Vec<" in fty and "VertexId" in fty and "&" in fty:
                        got["st"] = f["name"]
                if set(got) == {"vis", "st"} and "vis" not in out and "st" not in out:
                    for rr, fname in got.items():
                        out[rr] = i
                        out.term[rr] = ("field", ("arg", i), fname)
                    continue
        if r is None or r in out:
            return None
        out[r] = i
        out.term[r] = ("arg", i)
    return out if {"g", "v", "vis", "st"} <= set(out) else None


def _dfs_body(F, fn):
    """the function that does the work of `fn`: itself, or the new helper it hands over to with a constant direction.
    returns (body, roles, direction or None)"""
    b = F.need(S + fn)
    known = known_functions()
    if not b.natural_loops() and known:
        with no_inline():
            rt = clean(Terms(b).return_term())
        if rt[0] == "call" and rt[1] in F.bodies and rt[1] not in known and "{closure" not in rt[1]:
            h = F.bodies[rt[1]]
            rh, rb = _roles(h), _roles(b)
            if rh and rb and "dir" in rh and len(rt[2]) == h.argc:
                def _actual(r_):
                    a_ = rt[2][rh[r_] - 1]
                    t_ = rh.term[r_]
                    if t_[0] == "field":
                        # the wrapper passes a struct literal: take the field the helper reads
                        while a_[0] in ("mut", "ref"):
                            a_ = a_[1]
                        return dict(a_[3]).get(t_[2]) if a_[0] == "agg" else None
                    return a_
                okd = all(_actual(r) == ("arg", rb[r]) for r in ("g", "v", "vis", "st"))
                d = rt[2][rh["dir"] - 1]
                if okd and d[0] == "agg" and d[1] == DIRT:
                    return h, rh, d[2]
    return b, _roles(b), None


def _resolve(F, t, direct, generic, g, x, direction, dirarg):
    """t is `direct`(g, x), or `generic`(g, x, dir) which under the known direction evaluates to it"""
    if t == ("call", G + direct, (g, x)):
        return True
    if direction is not None and t == ("call", G + generic, (g, x, dirarg)):
        v = spec_eval(F, F.need(G + generic), {3: direction})
        return v == ("call", G + direct, (("arg", 1), ("arg", 2)))
    return False


def dfs_rule(ctx, fn, edges_fn, far_fn):
    """the search read as: `if vertex is new { mark; for every incident edge: recurse into its far end; push vertex }`,
    in whichever spelling (early return or guarded block, contains+insert or insert's result, loop or try_for_each, own body or
    a direction-parameterised helper)"""
    F = ctx.F
    name = fn
    b, roles, direction = _dfs_body(F, fn)
    if not ctx.check(roles is not None, name + ":shape", "the search does not take (graph, vertex, visited set, stack)", b.where()):
        return
    if direction is not None:
        want = "Forward" if edges_fn == "out_edges" else "Reverse"
        if not ctx.check(direction == want, name + ":direction", "%s hands over to the shared search with Direction::%s" % (fn, direction), b.where(), detail=want):
            return
    tm = Terms(b)
    A = {r: roles.term[r] for r in roles}
    g, v, vis, st, dirarg = A["g"], A["v"], A["vis"], A["st"], A.get("dir")
    tree = tree_of(F, b.path)
    iters_fn = edges_fn + "_iter"
    gen_edges = ("incident_edges", "incident_edges_iter")
    # -- the recursion site and the enumeration it sits in
    recs = []
    for body in tree:
        for c in body.calls():
            if c.callee in (b.path, S + fn):
                recs.append((body, c))
    if not ctx.check(len(recs) == 1, name + ":shape", "expected exactly one recursive call (found %d)" % len(recs), b.where()):
        return
    rbody, rec = recs[0]
    rtm = tm if rbody is b else Terms(rbody)
    edge = None       # the term of the incident edge being followed, in rbody's terms
    enum_bb = None    # the block of `b` in which the enumeration is decided (loop head / try_for_each call)
    lp = None
    src = None
    cap = lambda t: t
    tfe = None
    if rbody is b:
        lp = innermost_loop(b, rec.bb)
        if lp is not None:
            rows = [r for r in iteration_table(b, lp[0]) if r.kind != "diverge"]
            d0 = clean(rows[0].conds[0][0]) if rows and rows[0].conds else None
            if d0 and d0[0] == "discr" and d0[1][0] == "call" and re.search(r"::next$", d0[1][1]) and all(r.conds and clean(r.conds[0][0]) == d0 for r in rows):
                edge = d0[1]
                src = d0[1][2][0]
                enum_bb = lp[0]
    else:
        tf = [c for c in b.calls() if c.callee and itm(c.callee, "try_for_each")]
        for c in tf:
            cl = tm.operand(c.args[1], c.bb)
            if cl[0] == "closure" and cl[1] == rbody.path and not rbody.natural_loops():
                tfe = c
                edge = ("arg", 2)
                src = clean(tm.operand(c.args[0], c.bb))
                enum_bb = c.bb
                caps = [clean(x) for x in cl[2]]
                cap = lambda t, caps=caps: rewrite(t, lambda y: caps[int(y[2])] if y[0] == "field" and y[1] == ("arg", 1) and str(y[2]).isdigit() and int(y[2]) < len(caps) else None)
    if not ctx.check(edge is not None, name + ":all-incident-edges", "the recursion is not inside a loop (or try_for_each) over the incident edges", rec.where()):
        return
    while src[0] == "call" and len(src[2]) == 1 and re.search(r"::(into_iter|iter)$|Iterator>?::(copied|cloned)$", src[1]):
        src = src[2][0]
    ok_src = any(_resolve(F, src, d_, g_, g, v, direction, dirarg) for d_, g_ in ((edges_fn, gen_edges[0]), (iters_fn, gen_edges[1])))
    ctx.check(ok_src, name + ":incident-edges", "incident edges are not %s(graph, vertex): %s" % (edges_fn, short(src)[:120]), b.where(enum_bb), detail="%s(vertex)" % edges_fn)
    # -- far end and recursion arguments
    ra = [cap(clean(rtm.operand(x, rec.bb))) for x in rec.args]
    callee_roles = roles if rec.callee == b.path else _roles(F.need(S + fn))
    far = ra[callee_roles["v"] - 1]
    fars = [c for c in rbody.calls() if c.callee in (G + far_fn, G + "incident_vertex")]
    okf = False
    far_site = None
    for c in fars:
        ft = cap(clean(rtm.call_term(c.term, c.bb)))
        if ft == far:
            far_site = c
            ee = cap(edge) if rbody is not b else edge
            okf = _resolve(F, ft, far_fn, "incident_vertex", g, ee, direction, dirarg)
    ctx.check(okf, name + ":far-end", "the far end is not %s(edge) of each incident edge" % far_fn, (far_site or rec).where(), detail="%s(edge)" % far_fn)
    # (a role held in a bundling struct is handed on by passing the struct parameter itself)
    same = all(ra[callee_roles[r] - 1] == (A[r] if callee_roles.term[r][0] == "arg" else ("arg", roles[r])) for r in ("g", "vis", "st")) and ("dir" not in callee_roles or ra[callee_roles["dir"] - 1] == dirarg)
    ctx.check(okf and same, name + ":recursion", "recursion is not on (graph, far end, same visited set, same stack%s)" % (", same direction" if dirarg else ""), rec.where(), detail="dfs(far end)")
    # -- errors leave the function
    def leaves(body, c, btm):
        pr = try_propagation(body, c, btm)
        return pr["kind"] in ("propagated", "returned") or error_flow(F, body, c, btm).get("ok")
    for c, what in ((far_site, "far-end lookup"), (rec, "recursion")):
        okc = c is not None and leaves(rbody, c, rtm) and (tfe is None or try_propagation(b, tfe, tm)["kind"] in ("propagated", "returned"))
        ctx.check(okc, name + ":err:" + what.split()[0], "Err of the %s is not propagated" % what, (c or rec).where())
    # -- every incident edge
    okl = not [x for x in calls_in(edge if rbody is b else clean(tm.operand(tfe.args[0], tfe.bb))) if re.search(TRUNC, x[1])]
    if rbody is b:
        nxt_raw = None
        for (x, y) in loop_exit_edges(b, lp[1]):
            vals = region_value(b, (x, y))
            if vals and all(is_err_value(deep_strip(v_)) for _, v_ in vals):
                continue
            t = b.blocks[x]["term"]
            good = False
            if t["k"] == "switch":
                d, names = switch_discr_info(b, x)
                if names and clean(tm.operand(d, x)) == ("discr", edge) and switch_target(t, names, "None") == y:
                    good = True
            okl = okl and good
    else:
        # the closure's only ways out are the recursion's own result and a propagated error
        rows = [r for r in table(rbody, max_paths=5000) if r.end == "return"]
        rect = clean(rtm.call_term(rec.term, rec.bb))
        okl = okl and bool(rows) and all(clean(r.ret) == rect or is_err_value(deep_strip(r.ret)) or result_variant(r.ret) == "Err" or (result_variant(r.ret) == "Ok" and any(clean(k) == rect for k in r.sel)) for r in rows)
    ctx.check(bool(okl), name + ":all-incident-edges", "the loop over incident edges can end before all edges were followed", b.where(enum_bb))
    # -- new vertices only: the guard
    cont = [c for c in b.calls() if c.callee and c.callee.startswith("std::collections::HashSet::<T, S, A>::contains")]
    ins = [c for c in b.calls() if c.callee and c.callee.startswith("std::collections::HashSet::<T, S, A>::insert")]
    push = [c for c in b.calls() if c.callee and c.callee.startswith("std::vec::Vec::<T, A>::push")]
    a = lambda c, i_: clean(tm.operand(c.args[i_], c.bb))
    ok_args = len(ins) == 1 and a(ins[0], 0) == vis and a(ins[0], 1) == v and all(a(c, 0) == vis and a(c, 1) == v for c in cont) and len(cont) <= 1
    ctx.check(ok_args, name + ":visited-args", "visited test/insert are not on (visited, vertex)", (ins[0] if ins else b).where() if ins else b.where())
    if not ok_args or not ctx.check(len(push) == 1, name + ":shape", "expected exactly one push onto the stack (found %d)" % len(push), b.where()):
        return
    ins, push = ins[0], push[0]
    guard = None
    for sbb, dt, names, t in switches(b, tm):
        if names is not None:
            continue
        d = clean(dt)
        neg = False
        while d[0] == "un" and d[1] == "Not":
            d, neg = d[2], not neg
        f_, tr_ = bool_targets(t)
        if cont and d == clean(tm.call_term(cont[0].term, cont[0].bb)):
            guard = (sbb, tr_, f_) if not neg else (sbb, f_, tr_)   # (switch, stale edge, fresh edge)
        elif not cont and d == clean(tm.call_term(ins.term, ins.bb)):
            guard = (sbb, f_, tr_) if not neg else (sbb, tr_, f_)
    if not ctx.check(guard is not None and guard[1] is not None and guard[1] != guard[2], name + ":visited-test-first", "no test whether the vertex was visited before decides what the search does", b.where()):
        return
    gbb, stale, fresh = guard
    ctx.check(b.dominates(gbb, enum_bb) and b.dominates(gbb, push.bb) and (cont == [] or b.dominates(gbb, ins.bb)), name + ":visited-test-first", "the visited test does not come first", b.where(gbb))
    # marked before any recursion
    okm = b.dominates(ins.bb, enum_bb) and ins.bb not in b.reachable(start=enum_bb) if ins.bb != enum_bb else False
    ctx.check(okm, name + ":mark-before-recursion", "the vertex is not marked visited before the recursion", ins.where())
    # post-order: the push comes after the enumeration has finished, once
    post = b.dominates(enum_bb, push.bb) and (lp is None or push.bb not in lp[1]) and enum_bb not in b.reachable(start=push.bb) and push.bb != enum_bb
    ctx.check(post and a(push, 0) == st and a(push, 1) == v, name + ":post-order-push", "the vertex is not pushed on the stack after all incident edges were followed (post-order)", push.where(), detail="push after loop")
    # visited => Ok(()) and nothing else; new => every Ok return passes the push
    stale_region = b.reachable(start=stale)
    fresh_region = b.reachable(start=fresh)
    okv = push.bb not in stale_region and enum_bb not in stale_region and (cont == [] or ins.bb not in stale_region)
    vals = region_value(b, (gbb, stale))
    okv = okv and bool(vals) and all(deep_strip(x) == OK_UNIT for _, x in vals)
    ok_blocks = []
    for bb, blk in enumerate(b.blocks):
        for st_ in blk["stmts"]:
            if st_["k"] == "assign" and st_["place"]["l"] == 0 and not st_["place"]["p"] and st_["rv"]["k"] == "agg" and st_["rv"].get("variant") == "Ok":
                ok_blocks.append(bb)
    wo_push = b.reachable(start=fresh, removed_blocks=[push.bb])
    on_fresh = [bb for bb in ok_blocks if bb in fresh_region]
    okv = okv and bool(on_fresh) and all(bb not in wo_push for bb in on_fresh)
    ctx.check(okv, name + ":push-on-every-fresh-path", "a vertex that was not visited before can return Ok without being pushed on the stack (it would appear in no component), or a visited vertex is pushed again", b.where(), detail="visited => Ok(()) ; fresh => ... push; Ok(())")


def R1_R2_dfs(ctx):
    """C18.R1/R2 two depth-first searches in opposite directions, post-order"""
    ctx.rule("C18.R1", "depth_first_search follows out-edges to dst, reverse_depth_first_search follows in-edges to src; both: visited test first, mark before recursion, recursion on every incident edge's far end, post-order push on every fresh path", floor=24)
    dfs_rule(ctx, "depth_first_search", "out_edges", "dst_vertex_id")
    dfs_rule(ctx, "reverse_depth_first_search", "in_edges", "src_vertex_id")
    F = ctx.F
    for fn, it in (("out_edges", "out_edges_iter"), ("in_edges", "in_edges_iter")):
        b = F.need(G + fn)
        rt = nosite(deep_strip(Terms(b).return_term()))
        fld_ = "adj" if fn == "out_edges" else "rev"
        # the collected iterator of the same direction, or the same lookup spelled out: keys of adj/rev[vertex]
        direct = [x for x in subterms(clean(rt)) if x[0] == "call" and x[1].endswith("CompactOrderedHashMap::<K, V>::keys") and x[2][0] == ("call", "std::slice::<impl [T]>::get", (("field", ("arg", 1), fld_), ("field", ("arg", 2), "0")))]
        other = [x for x in subterms(clean(rt)) if x[0] == "field" and x[1] == ("arg", 1) and x[2] in ("adj", "rev") and x[2] != fld_]
        ok = (contains(rt, lambda s: s == ("call", G + it, (("arg", 1), ("arg", 2)))) or (bool(direct) and not other)) and not [x for x in calls_in(rt) if re.search(r"Iterator>?::(take|skip|filter|step_by|rev)$", x[1])]
        if not ok and rt[0] == "call" and rt[1] == G + "incident_edges" and rt[2][:2] == (("arg", 1), ("arg", 2)):
            # delegation the other way round: out_edges(v) = incident_edges(v, Forward), whose Forward case is the collected iterator
            dvar = "Forward" if fn == "out_edges" else "Reverse"
            if rt[2][2][0] == "agg" and rt[2][2][2] == dvar:
                v_ = spec_eval(F, F.need(G + "incident_edges"), {3: dvar})
                ok = v_ is not None and contains(v_, lambda s: s == ("call", G + it, (("arg", 1), ("arg", 2)))) and not [x for x in calls_in(v_) if re.search(r"Iterator>?::(take|skip|filter|step_by|rev)$", x[1])]
        ctx.check(ok, "Graph::%s" % fn, "Graph::%s is not the collected %s" % (fn, it), b.where(), detail=it)


def R2_passes(ctx):
    """C18.R2 the two passes"""
    F = ctx.F
    ctx.rule("C18.R2", "all_strongly_connected_componenets: pass 1 over all vertex ids in one direction; visited cleared; pass 2 pops the finishing stack (LIFO), skips visited vertices, runs the other direction into a fresh component and pushes it once; Graph::vertex_ids yields VertexId(i) for every i in 0..n_vertices", floor=10)
    b = F.need(S + "all_strongly_connected_componenets")
    tm = Terms(b)
    fwd = b.calls_to(S + "depth_first_search")
    rev = b.calls_to(S + "reverse_depth_first_search")

    class _P:
        pass
    closure_pass = None
    if len(fwd) + len(rev) == 1:
        # one pass written as `ids.try_for_each(|v| search(graph, &v, &mut visited, &mut stack))`: the closure is the loop body
        missing = S + ("depth_first_search" if not fwd else "reverse_depth_first_search")
        for cb in tree_of(F, b.path)[1:]:
            cs = cb.calls_to(missing)
            if len(cs) != 1 or cb.natural_loops():
                continue
            for c in b.calls():
                if c.callee and (itm(c.callee, "try_for_each") or itm(c.callee, "for_each")):
                    cl = tm.operand(c.args[1], c.bb)
                    if cl[0] == "closure" and cl[1] == cb.path:
                        closure_pass = (cb, cs[0], c, cl)
    if closure_pass is not None:
        cb, ccall, site, cl = closure_pass
        ctm = Terms(cb)
        caps_ops = None
        for bb_, blk_ in enumerate(b.blocks):
            for st_ in blk_["stmts"]:
                if st_["k"] == "assign" and st_["rv"]["k"] == "agg" and st_["rv"].get("agg") == "closure" and st_["rv"].get("closure") == cb.path:
                    caps_ops = st_["rv"]["fields"]
        def cap_local(op):
            t_ = unmut(nosite(deep_strip(ctm.operand(op, ccall.bb))))
            if t_[0] == "field" and t_[1] == ("arg", 1) and str(t_[2]).isdigit() and caps_ops:
                return root_local(b, caps_ops[int(t_[2])])
            return None
        pp = _P()
        pp.bb, pp.callee, pp.where = site.bb, ccall.callee, site.where
        pp.vis, pp.st = cap_local(ccall.args[2]), cap_local(ccall.args[3])
        pp.stack_term = clean(tm.operand(caps_ops[int(unmut(nosite(deep_strip(ctm.operand(ccall.args[3], ccall.bb))))[2])], site.bb)) if caps_ops and pp.st is not None else None
        recv = clean(tm.operand(site.args[0], site.bb))
        pp.all_vertices = contains(recv, lambda s_: s_[0] == "call" and s_[1] == G + "vertex_ids") and not [x for x in calls_in(recv) if re.search(r"Iterator>?::(take|skip|filter|step_by)$", x[1])] and unmut(nosite(deep_strip(ctm.operand(ccall.args[1], ccall.bb)))) == ("arg", 2)
        pp.propagated = try_propagation(cb, ccall, ctm)["kind"] in ("propagated", "returned") and (itm(site.callee, "try_for_each") and try_propagation(b, site, tm)["kind"] == "propagated")
        pp.loop = None
        if not fwd:
            fwd = [pp]
        else:
            rev = [pp]
    ctx.check(len(fwd) + len(rev) == 2 and len(fwd) == 1, "opposite-directions", "the two passes do not use the two searches of opposite direction (forward calls %d, reverse calls %d)" % (len(fwd), len(rev)), b.where(), detail="{pass1, pass2} = {forward, reverse}")
    if len(fwd) != 1 or len(rev) != 1:
        return
    # order the passes by dominance
    p1, p2 = (fwd[0], rev[0]) if b.dominates(fwd[0].bb, rev[0].bb) or rev[0].bb in b.reachable(start=fwd[0].bb) and fwd[0].bb not in b.reachable(start=rev[0].bb) else (rev[0], fwd[0])
    a = lambda c, i: unmut(nosite(deep_strip(tm.operand(c.args[i], c.bb))))
    is_cl = lambda c: isinstance(c, _P)
    if is_cl(p2):
        ctx.bad("two-loops", "pass 2 is written as a closure; only pass 1 is recognised in that form", b.where())
        return
    l1 = innermost_loop(b, p1.bb) if not is_cl(p1) else (-1, {p1.bb})
    l2 = innermost_loop(b, p2.bb)
    ctx.check(l1 is not None and l2 is not None and l1 != l2, "two-loops", "the passes are not two separate loops", b.where())
    if l1 is None or l2 is None:
        return
    if is_cl(p1):
        ok1 = p1.all_vertices
    else:
        nx1 = [c for c in b.calls() if c.func.get("method") == "next" and c.bb in l1[1]]
        ok1 = len(nx1) == 1
        if ok1:
            recv = deep_strip(tm.operand(nx1[0].args[0], nx1[0].bb))
            ok1 = contains(recv, lambda s: s[0] == "call" and s[1] == G + "vertex_ids") and not [x for x in calls_in(recv) if re.search(r"Iterator>?::(take|skip|filter|step_by)$", x[1])]
            ok1 = ok1 and a(p1, 1) == unmut(nosite(deep_strip(tm.call_term(nx1[0].term, nx1[0].bb))))
    ctx.check(ok1, "pass1:all-vertices", "pass 1 does not start a search from every vertex id", p1.where(), detail="for v in graph.vertex_ids()")
    # and vertex_ids() is every id: VertexId(i) for i in 0..n_vertices
    vb = F.need(G + "vertex_ids")
    pf = positional_form(F, nosite(deep_strip(Terms(vb).return_term())))
    okv = pf is not None and pf[0] == ("call", "routee_compass_core::model::network::vertex_id::VertexId", (("i",),)) and pf[1] == {("call", G + "n_vertices", (("arg", 1),))}
    ctx.check(okv, "Graph::vertex_ids", "Graph::vertex_ids is not VertexId(i) for every i in 0..n_vertices: %s" % (short(pf[0])[:80] if pf else None), vb.where(), detail="(0..n_vertices).map(VertexId)")
    vis1, st1 = (p1.vis, p1.st) if is_cl(p1) else (root_local(b, p1.args[2]), root_local(b, p1.args[3]))
    vis2, comp = root_local(b, p2.args[2]), root_local(b, p2.args[3])
    # visited reset between passes: clear() on the same set (or a different, fresh set)
    clears = [c for c in b.calls() if c.callee and c.callee.startswith("std::collections::HashSet::<T, S, A>::clear")]
    reset = (vis1 != vis2) or any(root_local(b, c.args[0]) == vis1 and c.bb not in l1[1] and c.bb not in l2[1] and p2.bb in b.reachable(start=c.bb) and p1.bb not in b.reachable(start=c.bb) for c in clears)
    ctx.check(reset, "visited-reset", "the visited set is not reset between the passes", b.where(), detail="visited.clear()")
    # pass 2 consumes the finishing stack LIFO: `while let Some(v) = stack.pop()` or `for v in stack.into_iter().rev()`
    turn = None   # (block where a turn's root is produced, root term)
    pops = [c for c in b.calls() if c.callee and c.callee.startswith("std::vec::Vec::<T, A>::pop") and c.bb in l2[1]]
    def same_vector(op_a, bb_a, op_b, bb_b):
        # the same root local, or (after a helper returned the vector it filled: `let mut stack = finishing_order(g)?`) the
        # same creation site in the term domain
        if root_local(b, op_a) == root_local(b, op_b):
            return True
        ta, tb_ = unmut(deep_strip(tm.operand(op_a, bb_a))), unmut(deep_strip(tm.operand(op_b, bb_b)))
        return ta == tb_ and ta[0] == "call" and len(ta) > 3 and re.search(r"Vec::<T>::(new|with_capacity)$|^vec!$", ta[1].split("{")[0]) is not None
    if len(pops) == 1 and (root_local(b, pops[0].args[0]) == st1 or (not is_cl(p1) and same_vector(pops[0].args[0], pops[0].bb, p1.args[3], p1.bb))):
        turn = (pops[0].bb, clean(tm.call_term(pops[0].term, pops[0].bb)))
    else:
        nx2 = [c for c in b.calls() if c.func.get("method") == "next" and c.bb in l2[1] and innermost_loop(b, c.bb) == l2]
        if len(nx2) == 1:
            recv = clean(tm.operand(nx2[0].args[0], nx2[0].bb))
            chain = [x[1] for x in calls_in(recv)]
            revs = [n for n in chain if itm(n, "rev")]
            stack_t = p1.stack_term if is_cl(p1) else clean(tm.operand(p1.args[3], p1.bb))
            if len(revs) == 1 and contains(recv, lambda q: q == stack_t) and not [n for n in chain if re.search(r"Iterator>?::(take|skip|filter|step_by|take_while|skip_while|filter_map)$", n)]:
                turn = (nx2[0].bb, clean(tm.call_term(nx2[0].term, nx2[0].bb)))
    okp = turn is not None
    ctx.check(okp, "pass2:lifo", "pass 2 does not consume the finishing stack last-in first-out", b.where(), detail="container.pop()")
    if turn is not None:
        tbb, root = turn
        ctx.check(clean(tm.operand(p2.args[1], p2.bb)) == root, "pass2:root", "pass 2 does not search from the popped vertex", p2.where())
        # skip visited roots
        cont = [c for c in b.calls() if c.callee and c.callee.startswith("std::collections::HashSet::<T, S, A>::contains") and c.bb in l2[1]]
        oks = len(cont) == 1 and root_local(b, cont[0].args[0]) == vis2 and b.dominates(cont[0].bb, p2.bb) and clean(tm.operand(cont[0].args[1], cont[0].bb)) == root
        if oks:
            verdict = clean(tm.call_term(cont[0].term, cont[0].bb))
            oks = False
            for sbb, dt, names, t in switches(b, tm):
                d = clean(dt)
                neg = False
                while d[0] == "un" and d[1] == "Not":
                    d, neg = d[2], not neg
                if d == verdict and names is None:
                    f, tr = bool_targets(t)
                    if neg:
                        f, tr = tr, f
                    oks = p2.bb not in b.reachable(start=tr, removed_blocks=[tbb]) and p2.bb in b.reachable(start=f, removed_blocks=[tbb])
        ctx.check(oks, "pass2:skip-visited", "an already visited stack entry is not skipped before starting a component", b.where())
    # fresh component per root, pushed once
    news = [(bb, pos) for (bb, pos, proj) in b.defs.get(comp, []) if not proj]
    fresh = any(bb in l2[1] for bb, pos in news)
    ctx.check(fresh, "pass2:fresh-component", "the component vector is not created anew for every root (components would be merged)", p2.where(), detail="Vec::new() inside the loop")
    rp = [c for c in b.calls() if c.callee and c.callee.startswith("std::vec::Vec::<T, A>::push") and c.bb in l2[1]]
    okr = len(rp) == 1 and root_local(b, rp[0].args[1]) == comp and b.dominates(p2.bb, rp[0].bb)
    ctx.check(okr, "pass2:push-component", "the component is not pushed to the result exactly once after its search", b.where())
    if okr:
        res = root_local(b, rp[0].args[0])
        rt = tm.return_term()
        oks_ = [x for x in (rt[1] if rt[0] == "phi" else [rt]) if result_variant(x) == "Ok"]
        ctx.check(len(oks_) == 1 and unmut(deep_strip(agg_payload(oks_[0]))) == unmut(deep_strip(tm.local(res, rp[0].bb, 0))) or len(oks_) == 1, "result-returned", "the collected components are not returned", b.where())
    for c in (p1, p2):
        okp_ = c.propagated if is_cl(c) else try_propagation(b, c, tm)["kind"] == "propagated"
        ctx.check(okp_, "err:%s" % c.callee.split("::")[-1], "Err of a search pass is not propagated", c.where())


def R3_largest(ctx):
    """C18.R3 largest component"""
    F = ctx.F
    ctx.rule("C18.R3", "largest_strongly_connected_component replaces the current best only when a component's len() is greater, over all components, and returns the best", floor=3)
    b = F.need(S + "largest_strongly_connected_component")
    tm = Terms(b)
    src = b.calls_to(S + "all_strongly_connected_componenets")
    if len(src) != 1:
        ctx.bad("shape", "expected one component computation", b.where())
        return
    comps = clean(tm.call_term(src[0].term, src[0].bb))
    ctx.check(try_propagation(b, src[0], tm)["kind"] in ("propagated", "returned"), "err:components", "Err of the component computation is not propagated", src[0].where())
    sels = [x for x in selection_folds(b) if contains(x["src"], lambda q: q == comps)]
    if not ctx.check(len(sels) == 1, "shape", "expected one selection over the components (a loop or fold that keeps either the best so far or the current component), found %d" % len(sels), b.where()):
        return
    sel = sels[0]
    ctx.check(not [x for x in calls_in(sel["src"]) if re.search(r"Iterator>?::(take|skip|filter|step_by|take_while|skip_while|filter_map)$", x[1])], "over-all-components", "the selection does not range over all components", sel["where"])
    # no early normal exit (loop form)
    okx = True
    if sel["form"] == "loop":
        lp = [l_ for l_ in b.natural_loops() if l_[0] == sel["head"]][0]
        for (x, y) in loop_exit_edges(b, lp[1]):
            t = b.blocks[x]["term"]
            good = False
            if t["k"] == "switch":
                d, names = switch_discr_info(b, x)
                dd = clean(tm.operand(d, x))
                if names and dd[0] == "discr" and dd[1][0] == "call" and re.search(r"::next$", dd[1][1]) and switch_target(t, names, "None") == y:
                    good = True
            vals = region_value(b, (x, y))
            if vals and all(is_err_value(deep_strip(v)) for _, v in vals):
                good = True
            okx = okx and good
    ctx.check(bool(okx), "no-early-exit", "the selection loop can stop before all components were compared", b.where())
    # each step keeps a component of the greater size
    ln = lambda x: ("call", "std::vec::Vec::<T, A>::len", (x,))
    ACC, ELEM = ("acc",), ("elem",)
    n_e = n_a = 0
    okc = True
    why = ""
    for facts, ch in sel["cases"]:
        if ch == "elem":
            n_e += 1
            if not implies(facts, ("Le", ln(ACC), ln(ELEM))):
                okc, why = False, "a component replaces the best although it is not known to be at least as large: %s" % sorted((op, short(a_)[:40], short(b_)[:40]) for op, a_, b_ in facts)
        else:
            n_a += 1
            if not implies(facts, ("Le", ln(ELEM), ln(ACC))):
                okc, why = False, "the best is kept although the component is not known to be at most as large: %s" % sorted((op, short(a_)[:40], short(b_)[:40]) for op, a_, b_ in facts)
    okc = okc and n_e >= 1 and n_a >= 1
    ctx.check(okc, "greater-size", "the best component is not replaced on `component.len() > best.len()`: %s" % why, sel["where"], detail="len(component) > len(best) => best = component")
    seed_ok = sel["seed"][0] == "call" and re.search(r"Vec::<T>::new$|Default>::default$", sel["seed"][1]) is not None
    ctx.check(seed_ok, "starts-empty", "the selection does not start from an empty component: %s" % short(sel["seed"])[:80], sel["where"], detail="Vec::new()")
    # the result is the selected component
    okb = False
    if sel["form"] == "fold":
        rt = tm.return_term()
        oks_ = [x for x in (rt[1] if rt[0] == "phi" else [rt]) if result_variant(x) == "Ok"]
        okb = len(oks_) == 1 and clean(agg_payload(oks_[0])) == sel["result"]
    else:
        for bb, blk in enumerate(b.blocks):
            for st_ in blk["stmts"]:
                if st_["k"] == "assign" and st_["place"]["l"] == 0 and not st_["place"]["p"] and st_["rv"]["k"] == "agg" and st_["rv"].get("variant") == "Ok" and not blk["cleanup"]:
                    okb = root_local(b, st_["rv"]["fields"][0]) == sel["local"]
    ctx.check(okb, "returns-best", "the returned component is not the one maintained as best", b.where())


def R_graph_roles(ctx):
    """the graph the property quantifies over is loaded with the file/count arguments in their roles (shared with C15.R3a)"""
    from props.C15 import roles_rule
    roles_rule(ctx, "C18.R4")


def R5_adjacency(ctx):
    """the forward and reverse adjacency the two searches walk are built symmetrically, one row per vertex (shared with C15.R1)"""
    from props.C15 import R1_adjacency
    R1_adjacency(ctx)


def RA_adjacency_container(ctx):
    """the adjacency lists are CompactOrderedHashMaps: what a search sees of a vertex is keys()/iter() of that map, what the loader
    stored is insert().  The container's own rules (every accessor agrees on the slots, growth keeps every entry, dense indices)
    are therefore part of this property too (shared with C11.R1-R3)."""
    from props.C11 import R1_slot_table, R2_growth, R3_dense_index
    R1_slot_table(ctx)
    R2_growth(ctx)
    R3_dense_index(ctx)


def RB_counts(ctx):
    """the adjacency tables are sized by the scanned vertex count: a vertex without a slot has its edges dropped silently and the
    components fall apart (shared with C15.R3: row counters and readers)"""
    from props.C15 import R3_counts_and_readers
    R3_counts_and_readers(ctx)


RULES = [R1_R2_dfs, R2_passes, R3_largest, R_graph_roles, R5_adjacency, RA_adjacency_container, RB_counts]
