"""C11 — every state feature owns exactly one state-vector slot, at any feature count."""
from core import *
import common

EXPLANATION = (
    "C11: the ordered container has five representations; the check decides that all of them describe one abstract object, an "
    "insertion-ordered map with dense indices 0..n-1: the slot table (field k_j / v_j <-> index j-1) agrees across get, get_index, "
    "get_pair, keys, into_iter, len and the overwrite arms of insert for the 1..4-entry variants (60 cells); growth arms keep order and "
    "append the new pair last; the hash-map representation keeps the dense-index invariant (a fresh key gets index len(), an existing key "
    "keeps its own; lookups by index, iteration and sorting use that index); the state model uses the container's slot and nothing else "
    "(initial state, indexed iteration, extend order, getters/setters incl. unit direction, custom formats); query overrides cannot add or "
    "retype features and come after the model's own features. Not decided: std HashMap itself."
)

C = "routee_compass_core::util::compact_ordered_hash_map::"
MAP = C + "CompactOrderedHashMap::<K, V>::"
ADT = C + "CompactOrderedHashMap"
SM = "routee_compass_core::model::state::state_model::StateModel"
SIZES = {"OneEntry": 1, "TwoEntries": 2, "ThreeEntries": 3, "FourEntries": 4}
NEXT = {"OneEntry": "TwoEntries", "TwoEntries": "ThreeEntries", "ThreeEntries": "FourEntries"}
SELF = ("arg", 1)


def fld(variant, name):
    return ("field", ("variant", SELF, variant), name)


def real_bools(row):
    """the path's boolean decisions without drop-flag tests"""
    out = []
    body = getattr(row, "_body", None)
    for dt, lab, bb in row.path.conds:
        if dt[0] == "discr":
            continue
        t = nosite(deep_strip(dt))
        if t[0] in ("phi", "const"):
            continue
        term = body.blocks[bb]["term"] if body is not None else None
        ints = term is not None and term["k"] == "switch" and term.get("discr_ty") in ("usize", "u8", "u16", "u32", "u64", "isize", "i8", "i16", "i32", "i64")
        if ints:
            # `match x { 0 => .., 1 => .., _ => .. }`: read as the chain x == 0, x == 1, .. (the arm taken is the first true one)
            vals = sorted(v for v, _ in term["targets"])
            ty = term.get("discr_ty") or "usize"
            for v in vals:
                eq = ("bin", "Eq", t, ("const", ty, v))
                if lab == v:
                    out.append((eq, True))
                    break
                out.append((eq, False))
            continue
        out.append((t, cond_truth(lab)))
    return tuple(out)


def grouped(body):
    """rows grouped by (variant, real decisions); drop-flag paths collapse"""
    g = {}
    for r in table(body, max_paths=400000):
        if r.end != "return":
            continue
        try:
            r._body = body
        except AttributeError:
            pass
        key = (r.sel.get(SELF), real_bools(r))
        g.setdefault(key, []).append(r)
    return g


def eq_key(t, variant, other):
    """t is `k_j == other` (either orientation): returns j or None"""
    c = as_cmp(t)
    if not c or c[0] != "Eq":
        return None
    ops = [unmut(c[1]), unmut(c[2])]
    if other not in ops:
        return None
    k = ops[0] if ops[1] == other else ops[1]
    if k[0] == "field" and k[1] == ("variant", SELF, variant) and re.match(r"^k\d$", k[2]):
        return int(k[2][1:])
    return None


def first_true_index(decisions, variant, other, by_const=False):
    """decisions = ((term, truth), ...): all false then one true at position j -> j; all false -> 0; else None"""
    js = []
    for t, truth in decisions:
        if by_const:
            c = as_cmp(t)
            j = None
            if c and c[0] == "Eq":
                ops = [c[1], c[2]]
                if other in ops:
                    k = ops[0] if ops[1] == other else ops[1]
                    if k[0] == "const" and isinstance(k[2], int):
                        j = k[2] + 1
        else:
            j = eq_key(t, variant, other)
        if j is None:
            return None
        js.append((j, truth))
    if [j for j, _ in js] != list(range(1, len(js) + 1)):
        return None
    if all(not t for _, t in js):
        return 0
    if js[-1][1] and all(not t for _, t in js[:-1]):
        return js[-1][0]
    return None


def _position_form(ctx, b, g, variant, n):
    """get_index written as `[k1, .., kn].iter().position(|k| search == k)`: the slot of k_j is its place in the array"""
    F = ctx.F
    rows = [r for (v, dec), rs in g.items() if v == variant for r in rs]
    if len(rows) != 1 or any(dec for (v, dec), rs in g.items() if v == variant):
        return False
    t = rows[0].ret
    if not (t[0] == "call" and itm(t[1], "position") and len(t[2]) == 2 and t[2][1][0] == "closure"):
        return False
    src = t[2][0]
    arrs = [x for x in subterms(src) if x[0] == "array"]
    if len(arrs) != 1 or [c for c in calls_in(src) if re.search(r"Iterator>?::(rev|skip|take|step_by|filter|chain)$", c[1])]:
        return False
    want = tuple(fld(variant, "k%d" % j) for j in range(1, n + 1))
    cl = t[2][1]
    crt = nosite(deep_strip(Terms(F.need(cl[1])).return_term()))
    c = as_cmp(crt)
    caps = cl[2]
    eq_ok = False
    if c and c[0] == "Eq":
        ops = [rewrite(x, lambda y: caps[int(y[2])] if y[0] == "field" and y[1] == ("arg", 1) and str(y[2]).isdigit() and int(y[2]) < len(caps) else None) for x in (c[1], c[2])]
        eq_ok = {unmut(ops[0]), unmut(ops[1])} == {("arg", 2)} | {("arg", 2)} or (("arg", 2) in [unmut(o) for o in ops] and any(unmut(o) == ("arg", 2) and True for o in ops) and len([o for o in ops if unmut(o) == ("arg", 2)]) == 2)
        # one operand is the search key (captured arg2 of get_index), the other the element (closure arg2)
        eq_ok = sorted(repr(unmut(o)) for o in ops) == sorted([repr(("arg", 2)), repr(("arg", 2))]) or (len(caps) >= 1 and unmut(caps[0]) == ("arg", 2) and {repr(unmut(c[1])), repr(unmut(c[2]))} == {repr(("field", ("arg", 1), "0")), repr(("arg", 2))})
    ok = arrs[0][1] == want and eq_ok
    for j in range(1, n + 1):
        ctx.check(ok, "get_index:%s:slot%d" % (variant, j - 1), "get_index of %s is not the position of the search key in [k1..k%d]: %s" % (variant, n, short(t)[:160]), b.where(), detail="position in [k1..k%d]" % n)
    ctx.check(ok, "get_index:%s:miss" % variant, "a key that equals none of k1..k%d does not give None" % n, b.where(), detail="position() == None")
    return True


def R1_slot_table(ctx):
    """C11.R1 slot tables agree across all accessors"""
    F = ctx.F
    ctx.rule("C11.R1", "for the n-entry variants (n=1..4) field k_j/v_j is slot j-1 in every accessor: get, get_index, get_pair, keys, into_iter, len, insert(overwrite)", floor=60)
    some = lambda v: ("agg", "std::option::Option", "Some", (("0", v),))
    none = ("agg", "std::option::Option", "None", ())
    # ---- get / get_index / get_pair
    for fn, other, by_const, val in (
        ("get", ("arg", 2), False, lambda v, j: some(fld(v, "v%d" % j))),
        ("get_index", ("arg", 2), False, lambda v, j: some(("const", "usize", j - 1))),
        ("get_pair", ("arg", 2), True, lambda v, j: some(("tuple", (fld(v, "k%d" % j), fld(v, "v%d" % j))))),
    ):
        b = F.need(MAP + fn)
        g = grouped(b)
        for variant, n in SIZES.items():
            seen = set()
            if fn == "get_index" and _position_form(ctx, b, g, variant, n):
                continue
            for (v, dec), rows in g.items():
                if v != variant:
                    continue
                j = first_true_index(dec, variant, other, by_const)
                rets = {r.ret for r in rows}
                if j is None or len(rets) != 1:
                    ctx.bad("%s:%s:shape" % (fn, variant), "unrecognised decision sequence %s" % [(short(t)[:40], tr) for t, tr in dec], b.where())
                    continue
                ret = next(iter(rets))
                seen.add(j)
                if j == 0:
                    ctx.check(len(dec) == n and ret == none, "%s:%s:miss" % (fn, variant), "after %d failed comparisons (expected %d) the result is %s" % (len(dec), n, short(ret)), b.where())
                else:
                    ctx.check(ret == val(variant, j), "%s:%s:slot%d" % (fn, variant, j - 1), "slot %d yields %s, expected %s" % (j - 1, short(ret), short(val(variant, j))), b.where(), detail=short(ret))
            for j in range(1, n + 1):
                if j not in seen:
                    ctx.bad("%s:%s:slot%d" % (fn, variant, j - 1), "no path for slot %d" % (j - 1), b.where())
    # ---- len
    b = F.need(MAP + "len")
    got = {r.sel.get(SELF): r.ret for r in table(b) if r.end == "return"}
    for variant, n in SIZES.items():
        ctx.check(got.get(variant) == ("const", "usize", n), "len:%s" % variant, "len() of %s is %s" % (variant, short(got.get(variant)) if got.get(variant) else None), b.where(), detail=str(n))
    ctx.check(got.get("NEntries") == ("call", "std::collections::HashMap::<K, V, S, A>::len", (fld("NEntries", "0"),)), "len:NEntries", "len() of NEntries is not the hash map's len()", b.where())
    # ---- keys
    b = F.need(MAP + "keys")
    got = {r.sel.get(SELF): r.ret for r in table(b) if r.end == "return"}
    for variant, n in SIZES.items():
        t = got.get(variant)
        want = ("array", tuple(fld(variant, "k%d" % j) for j in range(1, n + 1)))
        ok = t is not None and t[0] == "call" and t[1].endswith("::into_iter") and (t[2][0] == want or t[2][0] == ("tuple", want[1]))
        for j in range(1, n + 1):
            ctx.check(ok, "keys:%s:slot%d" % (variant, j - 1), "keys() of %s is %s, expected k1..k%d in order" % (variant, short(t)[:160] if t else None, n), b.where(), detail="k%d" % j)
    # ---- into_iter: vec![(k_j, IndexedEntry::new(v_j, j-1))]
    b = F.need("<%s<K, V> as std::iter::IntoIterator>::into_iter" % ADT)
    new = C + "IndexedEntry::<V>::new"
    for variant, n in SIZES.items():
        found = None
        for r in table(b, max_paths=100000):
            if r.end != "return" or r.sel.get(SELF) != variant:
                continue
            ptm = path_terms(b, r.path)
            for bb in r.path.blocks:
                for pos, s in enumerate(b.blocks[bb]["stmts"]):
                    if s["k"] == "assign" and s["rv"]["k"] == "agg" and s["rv"].get("agg") == "array":
                        found = nosite(deep_strip(ptm.rvalue(s["rv"], bb, pos)))
            break
        want = tuple(("tuple", (fld(variant, "k%d" % j), ("call", new, (fld(variant, "v%d" % j), ("const", "usize", j - 1))))) for j in range(1, n + 1))
        for j in range(1, n + 1):
            ok = found is not None and len(found[1]) == n and unmut(found[1][j - 1]) == want[j - 1]
            ctx.check(ok, "into_iter:%s:slot%d" % (variant, j - 1), "into_iter() of %s element %d is %s" % (variant, j - 1, short(found[1][j - 1])[:120] if found and len(found[1]) >= j else None), b.where(), detail=short(want[j - 1])[:80])
    # ---- insert: overwrite arms
    b = F.need(MAP + "insert")
    ctx.insert_groups = g = grouped(b)
    for variant, n in SIZES.items():
        for (v, dec), rows in g.items():
            if v != variant:
                continue
            j = first_true_index(dec, variant, ("arg", 2))
            if j is None:
                ctx.bad("insert:%s:shape" % variant, "unrecognised decision sequence", b.where())
                continue
            if j == 0:
                continue
            r = rows[0]
            ptm = path_terms(b, r.path)
            swaps = [[unmut(nosite(deep_strip(ptm.operand(a, c.bb)))) for a in c.args] for c in path_calls(b, r.path) if (c.callee or "").endswith("mem::swap")]
            ok = unmut(r.ret) == some(fld(variant, "v%d" % j)) and len(swaps) == 1 and set(map(repr, swaps[0])) == {repr(fld(variant, "v%d" % j)), repr(("arg", 3))}
            ctx.check(ok, "insert:%s:overwrite-slot%d" % (variant, j - 1), "overwriting key k%d does not swap v%d with the new value and return the old one (returns %s, swaps %s)" % (j, j, short(r.ret)[:80], [[short(x)[:40] for x in s] for s in swaps]), b.where(), detail="swap(v%d, new) -> Some(old)" % j)


def R2_growth(ctx):
    """C11.R2 growth preserves order"""
    F = ctx.F
    ctx.rule("C11.R2", "insert of a fresh key into the n-entry variant builds the n+1 variant with k_j->k_j, v_j->v_j and the new pair last; 4 -> hash map with indices 0..3 and 4; empty -> OneEntry; new(entries) builds the variants in slice order", floor=12)
    b = F.need(MAP + "insert")
    g = getattr(ctx, "insert_groups", None) or grouped(b)
    new = C + "IndexedEntry::<V>::new"
    none = ("agg", "std::option::Option", "None", ())
    for variant, n in SIZES.items():
        rows = [rows for (v, dec), rows in g.items() if v == variant and first_true_index(dec, variant, ("arg", 2)) == 0]
        if len(rows) != 1:
            ctx.bad("grow:%s" % variant, "expected one fresh-key path, found %d" % len(rows), b.where())
            continue
        r = rows[0][0]
        ptm = path_terms(b, r.path)
        aggs = []
        arrs = []
        for bb in r.path.blocks:
            for pos, s in enumerate(b.blocks[bb]["stmts"]):
                if s["k"] == "assign" and s["rv"]["k"] == "agg" and s["rv"].get("adt") == ADT:
                    aggs.append(unmut(nosite(deep_strip(ptm.rvalue(s["rv"], bb, pos)))))
                if s["k"] == "assign" and s["rv"]["k"] == "agg" and s["rv"].get("agg") == "array":
                    arrs.append(unmut(nosite(deep_strip(ptm.rvalue(s["rv"], bb, pos)))))
        swaps = [[unmut(nosite(deep_strip(ptm.operand(a, c.bb)))) for a in c.args] for c in path_calls(b, r.path) if (c.callee or "").endswith("mem::swap")]
        if variant in NEXT:
            nv = NEXT[variant]
            want = {"k%d" % j: fld(variant, "k%d" % j) for j in range(1, n + 1)}
            want.update({"v%d" % j: fld(variant, "v%d" % j) for j in range(1, n + 1)})
            want["k%d" % (n + 1)] = ("arg", 2)
            want["v%d" % (n + 1)] = ("arg", 3)
            ok = len(aggs) == 1 and aggs[0][2] == nv and dict(aggs[0][3]) == want
            ctx.check(ok, "grow:%s->%s" % (variant, nv), "growth does not build %s{k1..k%d kept, new pair last}: %s" % (nv, n, short(aggs[0])[:200] if aggs else None), b.where(), detail=nv)
        else:
            want = tuple(("tuple", (fld(variant, "k%d" % j), ("call", new, (fld(variant, "v%d" % j), ("const", "usize", j - 1))))) for j in range(1, 5)) + (("tuple", (("arg", 2), ("call", new, (("arg", 3), ("const", "usize", 4))))),)
            ok = len(arrs) >= 1 and arrs[0][1] == want and any(a[2] == "NEntries" for a in aggs)
            if not ok:
                ok = _growth_loop_form(F, b, variant, want, new) and any(a[2] == "NEntries" for a in aggs)
            ctx.check(ok, "grow:FourEntries->NEntries", "4 -> N does not build the hash map {k1:0, k2:1, k3:2, k4:3, new:4}: %s" % (short(arrs[0])[:260] if arrs else None), b.where(), detail="indices 0,1,2,3,4")
        okw = unmut(r.ret) == none and len(swaps) == 1 and swaps[0][0] == SELF
        if not okw and unmut(r.ret) == none and not swaps:
            # `*self = grown` instead of mem::swap(self, &mut grown)
            assigns = []
            for bb in r.path.blocks:
                for pos, s in enumerate(b.blocks[bb]["stmts"]):
                    if s["k"] == "assign" and s["place"]["l"] == 1 and [e["k"] for e in s["place"]["p"]] == ["deref"]:
                        assigns.append(unmut(nosite(deep_strip(ptm.rvalue(s["rv"], bb, pos)))))
            okw = len(assigns) == 1 and assigns[0][0] == "agg" and assigns[0][1] == ADT and (variant not in NEXT or assigns[0][2] == NEXT[variant]) and (variant in NEXT or assigns[0][2] == "NEntries")
        ctx.check(okw, "grow:%s:installed" % variant, "the grown representation is not swapped into self (returning None)", b.where())
    # empty -> OneEntry
    rows = [rows for (v, dec), rows in g.items() if v == "NEntries" and any(t[0] == "call" and t[1].endswith("is_empty") and tr for t, tr in dec)]
    ok = len(rows) == 1
    if ok:
        r = rows[0][0]
        ptm = path_terms(b, r.path)
        aggs = [unmut(nosite(deep_strip(ptm.rvalue(s["rv"], bb, pos)))) for bb in r.path.blocks for pos, s in enumerate(b.blocks[bb]["stmts"]) if s["k"] == "assign" and s["rv"]["k"] == "agg" and s["rv"].get("adt") == ADT]
        ok = len(aggs) == 1 and aggs[0][2] == "OneEntry" and dict(aggs[0][3]) == {"k1": ("arg", 2), "v1": ("arg", 3)}
    ctx.check(ok, "grow:empty->OneEntry", "inserting into the empty map does not build OneEntry{k1: k, v1: v}", b.where())
    # new(): slice-ordered construction
    nb = F.need(MAP + "new")
    ntm = Terms(nb)
    aggs = {}
    for bb, blk in enumerate(nb.blocks):
        for pos, s in enumerate(blk["stmts"]):
            if s["k"] == "assign" and s["rv"]["k"] == "agg" and s["rv"].get("adt") == ADT and s["rv"]["variant"] in SIZES:
                aggs[s["rv"]["variant"]] = unmut(nosite(deep_strip(ntm.rvalue(s["rv"], bb, pos))))
    for variant, n in SIZES.items():
        a = aggs.get(variant)
        ok = a is not None
        if ok:
            f = dict(a[3])
            for j in range(1, n + 1):
                kj, vj = f.get("k%d" % j), f.get("v%d" % j)
                okj = kj is not None and vj is not None and kj[0] == "field" and kj[2] == "0" and vj[0] == "field" and vj[2] == "1" and kj[1] == vj[1] and kj[1][0] == "index" and kj[1][2] == ("const", "usize", j - 1)
                ok = ok and okj
        ctx.check(ok, "new:%s" % variant, "new() does not build %s from entries[0..%d] in order: %s" % (variant, n, short(a)[:200] if a else None), nb.where(), detail="k_j = entries[j-1].0")


def _growth_loop_form(F, b, variant, want, new):
    """the five-entry map filled by a loop: for (i, (k, v)) in [(k1,v1),..,(k4,v4)].into_iter().enumerate() { map.insert(k, IndexedEntry::new(v, i)) };
    map.insert(k, IndexedEntry::new(v, 4)) — unrolled it is exactly the literal the other spelling writes"""
    for e in elementwise_builds(b):
        if e["form"] != "loop" or not (e.get("sink") or "").startswith("std::collections::HashMap::<K, V, S, A>::insert") or len(e["values"]) != 2:
            continue
        src = clean(e["src"])
        while src[0] == "call" and len(src[2]) == 1 and re.search(r"::into_iter$|::iter$", src[1].split("{")[0]) and src[2][0][0] == "call":
            src = src[2][0]
        if not (src[0] == "call" and itm(src[1], "enumerate")):
            continue
        arr = src[2][0]
        while arr[0] == "call" and len(arr[2]) == 1 and re.search(r"::into_iter$|::iter$", arr[1].split("{")[0]):
            arr = arr[2][0]
        if arr[0] != "array" or len(arr[1]) != 4:
            continue
        got = []
        for i, item in enumerate(arr[1]):
            el = ("tuple", (("const", "usize", i), item))
            kv = tuple(proj_simplify(rewrite(clean(v), lambda y: el if y == ("elem",) else None)) for v in e["values"])
            got.append(("tuple", kv))
        recv = clean(e["sink_recv"])
        # the fifth insert, after the loop, into the same map
        tm = Terms(b)
        lp = [set(bl) for h, bl in b.natural_loops() if e["site"].bb in bl]
        last = []
        for c in b.calls():
            if c.callee and c.callee.startswith("std::collections::HashMap::<K, V, S, A>::insert") and clean(tm.operand(c.args[0], c.bb)) == recv and not any(c.bb in l for l in lp):
                last.append(("tuple", (clean(tm.operand(c.args[1], c.bb)), clean(tm.operand(c.args[2], c.bb)))))
        if len(last) == 1 and tuple(got) + (last[0],) == tuple(clean(w) for w in want):
            return True
    return False


def R3_dense_index(ctx):
    """C11.R3 NEntries dense-index invariant"""
    F = ctx.F
    ctx.rule("C11.R3", "hash-map representation: a fresh key receives index = map.len() (evaluated before the insertion), an existing key keeps its index; new() enumerates; get_pair finds by index; keys/into_iter sort by index; the iterator advances by one and stops at len()", floor=9)
    b = F.need(MAP + "insert")
    tm = Terms(b)
    m = ("field", ("variant", SELF, "NEntries"), "0")
    ins = [c for c in b.calls() if c.callee and c.callee.startswith("std::collections::HashMap::<K, V, S, A>::insert") and unmut(nosite(deep_strip(tm.operand(c.args[0], c.bb)))) == m]
    if not ins and _entry_form(ctx, F, b, tm, m):
        ins = None
    elif len(ins) != 1:
        raise AnchorMissing("HashMap::insert in CompactOrderedHashMap::insert (found %d)" % len(ins))
    if ins is not None:
        _insert_form(ctx, F, b, tm, m, ins[0])
    _dense_index_rest(ctx, F)


def _entry_form(ctx, F, b, tm, m):
    """match map.entry(k) { Occupied(o) => replace only o.get_mut().v, return the old value; Vacant(v) => v.insert(IndexedEntry::new(v,
    map.len() read before)), None }: the same transition as get/insert.  False when the entry API is not used."""
    ents = [c for c in b.calls() if c.callee and c.callee.startswith("std::collections::HashMap::<K, V, S, A>::entry") and unmut(nosite(deep_strip(tm.operand(c.args[0], c.bb)))) == m]
    if len(ents) != 1:
        return False
    e = ents[0]
    E = nosite(deep_strip(tm.call_term(e.term, e.bb)))
    oke = unmut(nosite(deep_strip(tm.operand(e.args[1], e.bb)))) == ("arg", 2)
    occ_t = vac_t = None
    for sbb, dt, names, t in switches(b, tm):
        d = nosite(deep_strip(dt))
        if d == ("discr", E) and names and set(names.values()) == {"Occupied", "Vacant"}:
            occ_t, vac_t = switch_target(t, names, "Occupied"), switch_target(t, names, "Vacant")
    oke = oke and occ_t is not None
    ctx.check(oke, "insert:entry", "the hash-map arm does not look the key up with map.entry(k) and handle both cases", e.where())
    if not oke:
        return True
    ln = ("call", "std::collections::HashMap::<K, V, S, A>::len", (m,))
    vins = [c for c in b.calls() if c.callee and re.search(r"VacantEntry::<.*>::insert$", c.callee.split("{")[0]) and b.dominates(vac_t, c.bb)]
    okv = len(vins) == 1
    if okv:
        a = [unmut(nosite(deep_strip(tm.operand(x, vins[0].bb)))) for x in vins[0].args]
        okv = a[0] == ("field", ("variant", E, "Vacant"), "0") and a[1][0] == "call" and a[1][1] == C + "IndexedEntry::<V>::new" and a[1][2][0] == ("arg", 3)
        if okv:
            A = Arith(F, {ln: "len"})
            d = A.ev(a[1][2][1])
            ctx.check(d.equals(Ratio(Poly.sym("len"))), "insert:fresh-index=len", "a fresh key gets index %r, expected map.len() (dense indices 0..n-1)" % d, vins[0].where(), detail=repr(d))
    if not okv:
        ctx.bad("insert:index-shape", "the vacant case does not insert IndexedEntry::new(v, index)", e.where())
    lens = [x for x in b.calls() if x.callee and x.callee.startswith("std::collections::HashMap::<K, V, S, A>::len") and unmut(nosite(deep_strip(tm.operand(x.args[0], x.bb)))) == m]
    ctx.check(bool(lens) and bool(vins) and all(b.dominates(x.bb, vins[0].bb) and x.bb != vins[0].bb for x in lens), "insert:len-before-insert", "map.len() is read after the insertion", e.where())
    # occupied: only the value changes
    region = [bb for bb in b.reachable(start=occ_t) if b.dominates(occ_t, bb)]
    writes, bad = [], []
    for bb in region:
        t = b.blocks[bb]["term"]
        if t["k"] == "call":
            ck = callee_key(t["func"]) or ""
            if re.search(r"OccupiedEntry::<.*>::(insert|remove|remove_entry|replace_entry|replace_key)$", ck.split("{")[0]) or ck == C + "IndexedEntry::<V>::new":
                bad.append(ck.split("::")[-1])
            if ck.endswith("mem::replace") or ck.endswith("mem::swap"):
                a = [unmut(nosite(deep_strip(tm.operand(x, bb)))) for x in t["args"]]
                writes.append(a)
        for pos, st_ in enumerate(b.blocks[bb]["stmts"]):
            if st_["k"] == "assign" and st_["place"]["p"] and any(pe.get("name") == "index" for pe in st_["place"]["p"]):
                bad.append("store to .index")
    target = ("field", ("call", "std::collections::OccupiedEntry::<'a, K, V, A>::get_mut", (("field", ("variant", E, "Occupied"), "0"),)), "v")
    okk = not bad and len(writes) == 1 and writes[0][0] == target and writes[0][1] == ("arg", 3)
    ctx.check(okk, "insert:existing-keeps-index", "an existing key does not keep its own index (occupied entry: only the value may be replaced): %s %s" % (bad[:2], [short(w[0])[:80] for w in writes][:2]), e.where(), detail="replace(&mut occupied.get_mut().v, v)")
    return True


def _insert_form(ctx, F, b, tm, m, c):
    args = [unmut(nosite(deep_strip(tm.operand(x, c.bb)))) for x in c.args]
    ok = args[0] == m and args[1] == ("arg", 2) and args[2][0] == "call" and args[2][1] == C + "IndexedEntry::<V>::new" and args[2][2][0] == ("arg", 3)
    ctx.check(ok, "insert:entry", "the hash-map arm does not insert (k, IndexedEntry::new(v, index)) into the map", c.where())
    if ok:
        idx = args[2][2][1]
        ln = ("call", "std::collections::HashMap::<K, V, S, A>::len", (m,))
        okd = idx[0] == "call" and idx[1] == "std::option::Option::<T>::unwrap_or" and len(idx[2]) == 2
        if okd:
            A = Arith(F, {ln: "len"})
            d = A.ev(idx[2][1])
            okd = d.equals(Ratio(Poly.sym("len")))
            ctx.check(okd, "insert:fresh-index=len", "a fresh key gets index %r, expected map.len() (dense indices 0..n-1)" % d, c.where(), detail=repr(d))
            ex = idx[2][0]
            oke = ex[0] == "call" and ex[1].endswith("Option::<T>::map") and ex[2][0] == ("call", "std::collections::HashMap::<K, V, S, A>::get", (m, ("arg", 2))) and ex[2][1][0] == "closure"
            if oke:
                crt = nosite(deep_strip(Terms(F.need(ex[2][1][1])).return_term()))
                oke = crt == ("field", ("arg", 2), "index")
            ctx.check(oke, "insert:existing-keeps-index", "an existing key does not keep its own index (map.get(k).map(|e| e.index))", c.where(), detail="get(k).index")
            # len() is read before the insertion
            lens = [x for x in b.calls() if x.callee and x.callee.startswith("std::collections::HashMap::<K, V, S, A>::len")]
            ctx.check(all(b.dominates(x.bb, c.bb) and c.bb not in b.reachable(start=x.bb) or x.bb != c.bb and c.bb in b.reachable(start=x.bb) and x.bb not in b.reachable(start=c.bb) for x in lens) and bool(lens), "insert:len-before-insert", "map.len() is read after the insertion", c.where())
        else:
            ctx.bad("insert:index-shape", "index of the inserted entry is not `existing index or else a default`: %s" % short(idx)[:160], c.where())


def _dense_index_rest(ctx, F):
    # new(): enumerate index
    nb = F.need(MAP + "new")
    cls = [F.bodies[p] for p in F.bodies if p.startswith(nb.path + "::{closure")]
    oke = False
    for cb in cls:
        rt = nosite(deep_strip(Terms(cb).return_term()))
        if rt[0] == "tuple" and len(rt[1]) == 2 and rt[1][1][0] == "agg" and rt[1][1][1].endswith("IndexedEntry"):
            f = dict(rt[1][1][3])
            oke = f.get("index") == ("field", ("arg", 2), "0") and f.get("v") == ("field", ("field", ("arg", 2), "1"), "1") and rt[1][0] == ("field", ("field", ("arg", 2), "1"), "0")
    nrt = nosite(deep_strip(Terms(nb).return_term()))
    en = [x for x in calls_in(nrt) if itm(x[1], "enumerate")]
    ctx.check(oke and len(en) == 1, "new:enumerate", "new() does not index the entries with their enumerate() position", nb.where(), detail="(i,(k,v)) -> (k, {v, index:i})")
    # get_pair: find index == index
    gp = F.need(MAP + "get_pair")
    rows = [r for r in table(gp) if r.end == "return" and r.sel.get(SELF) == "NEntries" and r.ret != ("agg", "std::option::Option", "None", ())]
    okg = len(rows) == 1
    if okg:
        t = rows[0].ret
        finds = [x for x in calls_in(t) if itm(x[1], "find")]
        okg = len(finds) == 1 and finds[0][2][1][0] == "closure"
        if okg:
            fc = F.need(finds[0][2][1][1])
            crt = nosite(deep_strip(Terms(fc).return_term()))
            c2 = as_cmp(crt)
            caps = finds[0][2][1][2]
            okg = bool(c2) and c2[0] == "Eq" and {repr(unmut(c2[1])), repr(unmut(c2[2]))} == {repr(("field", ("field", ("arg", 2), "1"), "index")), repr(("field", ("arg", 1), "0"))} and caps == (("arg", 2),)
    ctx.check(okg, "get_pair:by-index", "get_pair on the hash map does not find the entry whose stored index equals the requested index", gp.where(), detail="find(|(_,e)| e.index == index)")
    # keys / into_iter sorted by index
    for fnp, name in ((MAP + "keys", "keys"), ("<%s<K, V> as std::iter::IntoIterator>::into_iter" % ADT, "into_iter")):
        kb = F.need(fnp)
        rows = [r for r in table(kb, max_paths=100000) if r.end == "return" and r.sel.get(SELF) == "NEntries"]
        oks = len(rows) >= 1
        if oks:
            srt = [x for x in calls_in(rows[0].ret) if x[1].endswith("sorted_by_key")]
            oks = len(srt) == 1 and srt[0][2][1][0] == "closure"
            if oks:
                crt = nosite(deep_strip(Terms(F.need(srt[0][2][1][1])).return_term()))
                oks = crt == ("field", ("field", ("arg", 2), "1"), "index")
            if not oks and not srt:
                oks = _sorted_vec_form(F, kb, rows[0].ret)
        ctx.check(oks, "%s:sorted-by-index" % name, "%s() of the hash map is not sorted by the stored index" % name, kb.where(), detail="sorted_by_key(|(_,e)| e.index)")
    # iterator
    it = F.need("<%sCompactOrderedHashMapIter<'a, K, V> as std::iter::Iterator>::next" % C)
    rows = [r for r in table(it) if r.end == "return"]
    idx = ("field", SELF, "index")
    ln = ("call", MAP + "len", (("field", SELF, "iterable"),))
    gpc = ("call", MAP + "get_pair", (("field", SELF, "iterable"), idx))
    ok_stop = any(("Le", ln, idx) in {(f[0], unmut(f[1]), unmut(f[2])) for f in r.facts} and r.ret == ("agg", "std::option::Option", "None", ()) for r in rows)
    ctx.check(ok_stop, "iter:stops-at-len", "the iterator does not return None when index >= len()", it.where())
    some_rows = [r for r in rows if result_variant(r.ret) == "Some"]
    ok_adv = len(some_rows) >= 1
    for r in some_rows:
        ok_adv = ok_adv and unmut(agg_payload(r.ret)) == gpc
        incs = []
        for bb in r.path.blocks:
            for pos, s in enumerate(it.blocks[bb]["stmts"]):
                if s["k"] == "assign" and s["place"]["l"] == 1 and s["place"]["p"] and s["place"]["p"][-1].get("name") == "index":
                    ptm = path_terms(it, r.path)
                    incs.append(nosite(deep_strip(ptm.rvalue(s["rv"], bb, pos))))
        A = Arith(F, {idx: "i"})
        ok_adv = ok_adv and len(incs) == 1 and A.ev(unmut(incs[0])).equals(Ratio(Poly.sym("i")) + Ratio(Poly.const(1)))
    ctx.check(ok_adv, "iter:advances-by-one", "a yielded pair is not get_pair(index) followed by index += 1", it.where(), detail="get_pair(i); i += 1")
    ib = F.need(MAP + "iter")
    irt = nosite(deep_strip(Terms(ib).return_term()))
    aggs = [x for x in subterms(irt) if x[0] == "agg" and x[1].endswith("CompactOrderedHashMapIter")]
    ctx.check(len(aggs) == 1 and dict(aggs[0][3]) == {"iterable": SELF, "index": ("const", "usize", 0)}, "iter:starts-at-zero", "iter() does not start at index 0 over self", ib.where())


def _sorted_vec_form(F, kb, ret):
    """let mut v: Vec<(&K, usize)> = map.iter().map(|(k, e)| (k, e.index)).collect(); v.sort_by_key(|(_, i)| *i); v.into_iter().map(|(k, _)| k)"""
    ktm = Terms(kb)
    m = ("field", ("variant", SELF, "NEntries"), "0")
    sorts = [c for c in kb.calls() if c.callee and re.search(r"slice::<impl \[T\]>::(sort_by_key|sort_unstable_by_key|sort_by_cached_key)$", c.callee.split("{")[0])]
    if len(sorts) != 1:
        return False
    c = sorts[0]
    vec = clean(ktm.operand(c.args[0], c.bb))
    key_cl = ktm.operand(c.args[1], c.bb)
    base, steps = chain_steps(F, vec)
    names = [n for n, _ in steps]
    if not (clean(base) == m and [n for n in names if n not in ("iter", "collect", "into_iter")] == ["map"]):
        return False
    pair = [v for n, v in steps if n == "map"][0]
    if not (pair is not None and pair[0] == "tuple" and len(pair[1]) == 2 and pair[1][0] == ("field", ("elem",), "0") and pair[1][1] == ("field", ("field", ("elem",), "1"), "index")):
        return False
    while key_cl[0] in ("mut", "ref"):
        key_cl = key_cl[1]
    if not (key_cl[0] == "closure" and key_cl[1] in F.bodies and clean(Terms(F.bodies[key_cl[1]]).return_term()) == ("field", ("arg", 2), "1")):
        return False
    # what is handed out: the first component of every element of that vector, in its (sorted) order
    obase, osteps = chain_steps(F, ret)
    extra = osteps[len(steps):]
    if clean(obase) != m or osteps[:len(steps)] != steps or [n for n, _ in extra if n not in ("iter", "into_iter", "collect")] != ["map"]:
        return False
    rets = [bb for bb, blk in enumerate(kb.blocks) if blk["term"]["k"] == "return" and not blk["cleanup"]]
    return [v for n, v in extra if n == "map"][0] == ("field", ("elem",), "0") and bool(rets)


def R4_state_model(ctx):
    """C11.R4 state model uses the container's slot"""
    F = ctx.F
    ctx.rule("C11.R4", "StateModel: initial_state maps over self.0.iter() one value per feature (get_initial); indexed_iter = iter().enumerate(); extend re-inserts existing entries first, then the new ones, Err on a conflicting overwrite; new = CompactOrderedHashMap::new; custom formats decode only their own variant", floor=9)
    b = F.need(SM + "::initial_state")
    TRUNC = r"Iterator>?::(take|skip|filter|filter_map|step_by|rev|chain|zip)$"
    builds = [x for x in elementwise_builds(b) if contains(x["src"], lambda q: q == ("call", MAP + "iter", (("field", SELF, "0"),)))]
    ok = len(builds) == 1 and not [y for y in calls_in(builds[0]["chain"]) if re.search(TRUNC, y[1])]
    ctx.check(ok, "initial_state:all-features-in-index-order", "initial_state is not built element by element from self.0.iter() (index order, nothing skipped)", b.where(), detail="one value per feature of self.0.iter()")
    if ok:
        gi = ("call", "routee_compass_core::model::state::state_feature::StateFeature::get_initial", (("field", ("elem",), "1"),))
        okc = builds[0]["values"] == (gi,)
        ctx.check(okc, "initial_state:declared-initial", "each slot is not the feature's declared initial value: %s" % [short(v)[:80] for v in builds[0]["values"]], b.where(), detail="feature.get_initial()")
    ib = F.need(MAP + "indexed_iter")
    irt = nosite(deep_strip(Terms(ib).return_term()))
    ctx.check(irt == ("call", "std::iter::Iterator::enumerate", (("call", MAP + "iter", (SELF,)),)), "indexed_iter", "indexed_iter is not iter().enumerate(): %s" % short(irt), ib.where(), detail="iter().enumerate()")
    tv = F.need(MAP + "to_vec")
    trt = nosite(deep_strip(Terms(tv).return_term()))
    ctx.check(bool([x for x in calls_in(trt) if itm(x[1], "enumerate") and x[2][0] == ("call", MAP + "iter", (SELF,))]), "to_vec", "to_vec does not enumerate iter()", tv.where())
    for fn in ("indexed_iter", "iter", "len", "to_vec"):
        sb = F.need(SM + "::" + fn)
        srt = nosite(deep_strip(Terms(sb).return_term()))
        ctx.check(srt == ("call", MAP + fn, (("field", SELF, "0"),)), "StateModel::%s" % fn, "StateModel::%s does not forward to the container" % fn, sb.where())
    nb = F.need(SM + "::new")
    nrt = nosite(deep_strip(Terms(nb).return_term()))
    ctx.check(nrt == ("agg", SM, "StateModel", (("0", ("call", MAP + "new", (("arg", 1),))),)), "StateModel::new", "StateModel::new is not StateModel(CompactOrderedHashMap::new(features))", nb.where())
    # extend: existing entries first (iter over self.0 -> collect), then insert each new entry; Err iff overwrites non-empty
    eb = F.need(SM + "::extend")
    etm = Terms(eb)
    eb_builds = [x for x in elementwise_builds(eb) if contains(x["src"], lambda q: q == ("call", MAP + "iter", (("field", SELF, "0"),)))]
    okx = len(eb_builds) == 1 and not [y for y in calls_in(eb_builds[0]["chain"]) if re.search(r"Iterator>?::(take|skip|filter|rev|step_by|chain|zip)$", y[1])]
    if okx:
        x = eb_builds[0]
        # (name.clone(), feature.clone()) of every existing entry goes into a CompactOrderedHashMap
        vals = x["values"][0][1] if x["form"] == "map" and x["values"][0][0] == "tuple" else x["values"]
        okx = tuple(vals) == (("field", ("elem",), "0"), ("field", ("elem",), "1")) and ((x["form"] == "map" and ADT in x["targs"]) or (x["form"] == "loop" and x["sink"] == MAP + "insert"))
    ctx.check(okx, "extend:existing-first", "extend does not start from all existing entries in index order", eb.where(), detail="every (name, feature) of self.0.iter() copied into the new map")
    # every new entry inserted exactly once, after the copy
    ins_sites = []
    for tb in [eb] + [F.bodies[p] for p in F.bodies if p.startswith(eb.path + "::{closure")]:
        ttm = Terms(tb)
        for c in tb.calls():
            if c.callee == MAP + "insert":
                key = unmut(nosite(deep_strip(ttm.operand(c.args[1], c.bb))))
                from_new = contains(key, lambda q: q == ("arg", 2)) or ("{closure" in tb.path and contains(key, lambda q: q[0] == "arg" and q[1] == 2))
                if "{closure" in tb.path or contains(ttm.operand(c.args[1], c.bb), lambda q: q == ("arg", 2)):
                    ins_sites.append((tb, c))
    ctx.check(len(ins_sites) == 1, "extend:insert-each-new", "each new entry is not inserted into the copied map exactly once (found %d insert sites fed from `entries`)" % len(ins_sites), eb.where())
    if len(ins_sites) == 1:
        # unconditionally: the later declaration replaces the earlier one (a query's own unit / initial value wins), whatever
        # the old entry was — no path handles an entry without inserting it
        tb, c = ins_sites[0]
        if "{closure" in tb.path:
            oku = all(tb.dominates(c.bb, rb) for rb in tb.return_blocks())
        else:
            lp = innermost_loop(tb, c.bb)
            # loop form: no turn of the loop over the new entries gets back to the loop head without passing the insert
            oku = lp is not None and lp[0] not in tb.reach_from_succs(lp[0], removed_blocks=[c.bb])
        ctx.check(oku, "extend:insert-unconditional", "a new entry is inserted only under a condition (e.g. only when the name is not present yet): the later declaration of a feature would be dropped silently", c.where(), detail="map.insert(name, new) for every entry")
    rows = [r for r in table(eb, max_paths=100000) if r.end == "return"]
    okr = any(result_variant(r.ret) == "Ok" for r in rows) and any(result_variant(r.ret) == "Err" for r in rows)
    emp = [r for r in rows if any(t[0] == "call" and t[1].endswith("is_empty") for t, _ in r.bools)]
    for r in emp:
        truth = [cond_truth(l) for t, l in r.bools if t[0] == "call" and t[1].endswith("is_empty")][0]
        okr = okr and (result_variant(r.ret) == ("Ok" if truth else "Err"))
    ctx.check(okr and bool(emp), "extend:conflict=>Err", "extend does not return Err exactly when conflicting overwrites were collected", eb.where())
    # FromIterator inserts every item in order
    fb = F.need("<%s<K, V> as std::iter::FromIterator<(K, V)>>::from_iter" % ADT)
    fins = [c for c in fb.calls() if c.callee == MAP + "insert"]
    okf = len(fins) == 1 and innermost_loop(fb, fins[0].bb) is not None
    ctx.check(okf, "from_iter:insert-each", "from_iter does not insert every item in iteration order", fb.where())
    # custom feature formats
    cf = "routee_compass_core::model::state::custom_feature_format::CustomFeatureFormat::"
    kinds = {"f64": "FloatingPoint", "i64": "SignedInteger", "u64": "UnsignedInteger", "bool": "Boolean"}
    for op in ("encode", "decode"):
        for k, variant in kinds.items():
            fb_ = F.bodies.get(cf + "%s_%s" % (op, k))
            if fb_ is None:
                ctx.bad("format:%s_%s" % (op, k), "function missing", None)
                continue
            got = {}
            for r in table(fb_):
                if r.end == "return":
                    got.setdefault(r.sel.get(SELF), set()).add(result_variant(r.ret) if not is_err_value(r.ret) else "Err")
            okv = got.get(variant) == {"Ok"} and all(v == {"Err"} for kk, v in got.items() if kk != variant and kk is not None)
            # `_ => Err` arms are grouped under an 'otherwise' label
            others = [v for kk, v in got.items() if isinstance(kk, tuple)]
            okv = "Ok" in got.get(variant, set()) and all(v == {"Err"} for kk, v in got.items() if kk != variant)
            # a value of the format's own kind always round-trips: the only refusal inside the own variant is a negative value
            # for the unsigned format (the slot holds a float; -3 is a legitimate signed value and must read back as -3)
            refused = [r for r in table(fb_) if r.end == "return" and r.sel.get(SELF) == variant and is_err_value(r.ret)]
            if k != "u64" or op == "encode":
                okv = okv and not refused
            else:
                okv = okv and all(any(f[0] == "Lt" and contains(f[1], lambda q: q == ("arg", 2)) for f in r.facts) for r in refused)
            ctx.check(okv, "format:%s_%s" % (op, k), "%s_%s accepts %s (expected only %s)" % (op, k, {str(kk): v for kk, v in got.items()}, variant), fb_.where(), detail=variant)


def R5_overrides(ctx):
    """C11.R5 query overrides cannot add or retype features"""
    F = ctx.F
    ctx.rule("C11.R5", "collect_features: an unknown user feature name => Err, a different feature type => Err; the result lists the model's features first and the user's overrides after them (last writer wins in StateModel::extend)", floor=4)
    b = F.need("routee_compass::app::search::search_app_ops::collect_features")
    tm = Terms(b)
    cls = [F.bodies[p] for p in F.bodies if p.startswith(b.path + "::{closure")]
    ok_unknown = ok_type = ok_keep = False
    for cb in cls:
        for r in table(cb):
            if r.end != "return":
                continue
            looks = [(k, v) for k, v in r.sel.items() if k[0] == "call" and k[1].startswith("std::collections::HashMap::<K, V, S, A>::get")]
            if not looks:
                continue
            k, v = looks[0]
            if v == "None":
                ok_unknown = ok_unknown or (result_variant(r.ret) == "Err" and agg_payload(r.ret)[2] == "UnknownStateVariableName")
            elif v == "Some":
                cmps = [(as_cmp(t), cond_truth(l)) for t, l in r.bools if as_cmp(t)]
                ft = [c for c, tr in cmps if c and all(x[0] == "call" and x[1].endswith("get_feature_type") for x in (c[1], c[2]))]
                differs = [tr if c[0] == "Ne" else (not tr) for c, tr in cmps if c and c in ft]
                if differs and differs[0]:
                    ok_type = ok_type or (result_variant(r.ret) == "Err" and agg_payload(r.ret)[2] == "UnexpectedFeatureType")
                elif differs:
                    ok_keep = ok_keep or (result_variant(r.ret) == "Ok" and agg_payload(r.ret) == ("tuple", (("field", ("arg", 2), "0"), ("field", ("arg", 2), "1"))))
    if not (ok_unknown and ok_type and ok_keep):
        # the same validation written as a loop over the user's features (one turn per feature)
        for h, _bl in b.natural_loops():
            try:
                rows = [r for r in iteration_table(b, h) if r.kind != "diverge"]
            except Exception:
                continue
            if not rows or not all(r.conds for r in rows):
                continue
            d0 = clean(rows[0].conds[0][0])
            if not (d0[0] == "discr" and d0[1][0] == "call" and re.search(r"::next$", d0[1][1])):
                continue
            ELEM = d0[1]
            u = t_ = k_ = False
            for r in rows:
                look = [(clean(dt), l) for dt, l, _ in r.conds if clean(dt)[0] == "discr" and clean(dt)[1][0] == "call" and clean(dt)[1][1].startswith("std::collections::HashMap::<K, V, S, A>::get")]
                if not look:
                    continue
                lab = look[0][1]
                retv = nosite(deep_strip(r.ret)) if r.ret is not None else None
                if lab == "None":
                    u = u or (r.kind == "return" and retv is not None and contains(retv, lambda q: q[0] == "agg" and q[2] == "UnknownStateVariableName") and (is_err_value(retv) or result_variant(retv) == "Err"))
                elif lab == "Some":
                    ft = [(op, a_, b_) for op, a_, b_ in r.facts if all(x[0] == "call" and x[1].endswith("get_feature_type") for x in (clean(a_), clean(b_)))]
                    differs = [f for f in ft if f[0] == "Ne"]
                    same = [f for f in ft if f[0] == "Eq"]
                    if differs:
                        t_ = t_ or (r.kind == "return" and retv is not None and contains(retv, lambda q: q[0] == "agg" and q[2] == "UnexpectedFeatureType"))
                    elif same and r.kind == "back":
                        pushes = [clean(v) for _, k2, v in r.sites if k2 and k2.endswith("Vec::<T, A>::push")]
                        want = ("tuple", (("field", ELEM, "0"), ("field", ELEM, "1")))
                        k_ = k_ or (len(pushes) == 1 and (pushes[0][2][1] == want or pushes[0][2][1] == ELEM))
            ok_unknown, ok_type, ok_keep = ok_unknown or u, ok_type or t_, ok_keep or k_
    ctx.check(ok_unknown, "unknown-name=>Err", "a user feature that is not a model feature is not rejected with UnknownStateVariableName", b.where())
    ctx.check(ok_type, "different-type=>Err", "a user feature of another feature type is not rejected with UnexpectedFeatureType", b.where())
    ctx.check(ok_keep, "same-type=>kept", "a valid override is not passed on as (name, feature)", b.where())
    # order: model features, then user features
    oks = [r for r in table(b, max_paths=100000) if r.end == "return" and result_variant(r.ret) == "Ok"]
    exts = [c for c in b.calls() if c.callee and c.callee.endswith("::extend") and "Vec" in c.callee]
    ok_order = len(exts) == 1 and len(oks) >= 1
    if ok_order:
        base = nosite(deep_strip(tm.operand(exts[0].args[0], exts[0].bb)))
        ext = nosite(deep_strip(tm.operand(exts[0].args[1], exts[0].bb)))
        user_read = lambda t: any(x[0] == "const" and x[2] == "state_features" for x in subterms(t))
        model_read = lambda t: any(x[0] == "call" and x[1].endswith("::state_features") for x in subterms(t))
        ext_user = user_read(ext)
        if not ext_user:
            # the overrides collected by a loop with one push per user feature
            for e in elementwise_builds(b):
                if e["form"] == "loop" and e.get("sink", "").endswith("::push") and clean(e["sink_recv"]) == clean(ext) and user_read(e["src"]) and not model_read(e["src"]):
                    ext_user = True
        ok_order = model_read(base) and not user_read(base) and ext_user
        ret = agg_payload(oks[0].ret)
        ok_order = ok_order and unmut(ret) == unmut(base)
    ctx.check(ok_order, "model-features-then-overrides", "the returned list is not [model features..., user overrides...] (an override placed first is overwritten by the model's default)", b.where(), detail="model_features ++ user_features")


def R6_units(ctx):
    """C11.R6 getters/setters round-trip through unit conversion"""
    sel = lambda fn: fn.startswith(SM + "::")
    common.unit_rule(ctx, "C11.R6", "unit typestate in StateModel get/set/add: get converts stored unit -> caller unit, set converts caller unit -> stored unit, the state write is in the stored unit", sel, floor=12)


def R7_overrides_through_extend(ctx):
    """C11.R7 the override list reaches the state model only through StateModel::extend"""
    F = ctx.F
    ctx.rule("C11.R7", "collect_features lists an overridden feature twice by design (model's entry, then the query's); only StateModel::extend gives such a list one slot per name (re-insert, last writer wins) — StateModel::new / CompactOrderedHashMap::new enumerate positions and would leave a gap and a slot past the end. Every workspace function that receives the list is StateModel::extend", floor=1)
    CF = "routee_compass::app::search::search_app_ops::collect_features"
    EXT = SM + "::extend"
    n = 0
    for p_, b in sorted(F.bodies.items()):
        if not [c for c in b.calls() if c.callee == CF]:
            continue
        tm = Terms(b)
        for c in b.calls():
            if c.callee is None or c.callee == CF or re.sub(r"\{.*\}$", "", c.callee) not in F.bodies and c.callee not in F.bodies:
                continue
            args = [clean(tm.operand(a, c.bb)) for a in c.args]
            if not any(contains(a, lambda q: q[0] == "call" and q[1] == CF) for a in args):
                continue
            # (calls that merely receive something computed from the extended model do not count: the list itself must be an argument)
            direct = [i for i, a in enumerate(args) if a[0] == "call" and a[1] == CF]
            if not direct:
                continue
            n += 1
            ctx.check(c.callee == EXT and direct == [1], "%s:list->%s" % (short_fn_name(p_), short_fn_name(c.callee)), "the feature list of collect_features (which repeats overridden names) is handed to %s instead of StateModel::extend: positions are enumerated without merging repeated names" % short_fn_name(c.callee), c.where(), detail="self.state_model.extend(list)")
    ctx.check(n >= 1, "extend-site", "no call that hands the collected feature list to the state model was found", None)


def R8_configured_names(ctx):
    """C11.R8 the configured features keep the names they were given.  CompactOrderedHashMap::new is the one constructor of the
    container that relies on its input having distinct keys (with a repeated key it numbers the slots with gaps: len() = n-1, slot 0
    never assigned, iter()/initial_state() empty).  The configuration reaches it through TryFrom<&Value> for StateModel, where the
    names are the keys of one JSON object — distinct by construction *as long as they are passed on unchanged*."""
    F = ctx.F
    ctx.rule("C11.R8", "TryFrom<&Value> for StateModel hands StateModel::new / From<Vec<..>> the list [(key_i, decode(value_i))] of the configuration object's own entries: the name of a feature is the object key itself (any normalisation — trim, lower-casing — can make two distinct keys collide in CompactOrderedHashMap::new, which does not de-duplicate), and its declaration is decoded from the value under that same key", floor=2)
    cands = [p for p in F.bodies if re.search(r"StateModel as std::convert::TryFrom<&('\w+ )?serde_json::value::Value>>::try_from$", p)]
    if len(cands) != 1:
        raise AnchorMissing("TryFrom<&serde_json::Value> for StateModel")
    b = F.bodies[cands[0]]
    tm = Terms(b)
    sinks = [c for c in b.calls_deep() if re.search(r"StateModel::new$|StateModel as std::convert::From<std::vec::Vec<\(std::string::String, .*StateFeature\)>>>::from$", c.callee or "")]
    if not ctx.check(len(sinks) == 1, "config:one-constructor", "expected exactly one StateModel::new / From<Vec<(String, StateFeature)>> in try_from, found %d" % len(sinks), b.where()):
        return
    c = sinks[0]
    lst = c.arg_terms[0] if isinstance(c, VirtualCallSite) else tm.operand(c.args[0], c.bb)
    sf = sequence_form(F, b, norm_adaptors(F, deep_strip(clean(lst))))
    if sf is None:
        sf = sequence_form(F, b, clean(lst))
    elem = None
    if sf is not None:
        alts = list(sf[0][1]) if sf[0][0] == "phi" else [sf[0]]
        oks = [a for a in alts if not is_err_value(a) and not (a[0] == "call" and "from_residual" in a[1])]
        if len(oks) == 1:
            e = oks[0]
            if e[0] == "agg" and e[2] == "Ok":
                e = dict(e[3]).get("0")
            elem = clean(e) if e is not None else None
    obj = None
    ok_name = ok_val = False
    if elem is not None and elem[0] == "tuple" and len(elem[1]) == 2:
        n, v = elem[1]
        if n[0] == "field" and n[2] == "0" and n[1][0] == "at":
            obj = n[1][1]
            ok_name = obj[0] == "call" and obj[1].endswith("Value::as_object") and clean(obj[2][0]) == ("arg", 1)
            ent_val = ("field", n[1], "1")
            ok_val = contains(v, lambda x: x == ent_val) and not contains(v, lambda x: x[0] == "at" and x != n[1])
    ctx.check(ok_name, "config:name=object-key", "the name of a configured feature is not the key of its entry in the configuration object, unchanged: %s" % (short(elem)[:200] if elem else "unreadable list"), c.where(), detail="(key_i, ..) for entry i of json.as_object()")
    ctx.check(ok_val, "config:feature=value-under-that-key", "the declaration of a configured feature is not decoded from the value stored under its own key", c.where(), detail="(.., from_value(value_i))")


def R9_conversion_tables(ctx):
    """"round-trips its value through unit conversion": get converts feature unit -> caller unit, set converts back; the pair is
    the identity only if the tables are mutually inverse (shared with C09.R1/R2; round 7: one constant used for both directions of
    gasoline <-> diesel)"""
    from props.C09 import R1_R2_tables
    R1_R2_tables(ctx)


RULES = [R1_slot_table, R2_growth, R3_dense_index, R4_state_model, R5_overrides, R6_units, R7_overrides_through_extend, R8_configured_names, R9_conversion_tables]
