"""C20 — every output format renders the same route, with geometry in edge order."""
from core import *

EXPLANATION = (
    "C20: every route output format is derived from an in-order pass over the route (no reversing, sorting, filtering, de-duplication or "
    "truncation; per-format dispatch table); geometry is looked up as geoms[edge_id.0] of the element being rendered, a missing geometry "
    "becomes an Err that reaches the caller (never skipped or defaulted), linestrings are concatenated by flat-mapping all points in order; "
    "a GeoJSON feature carries the edge's id, its own traversal as properties and the geometry passed with it; tree outputs map over all "
    "tree values exactly once; the uuid plugin attaches uuids[origin vertex] / uuids[destination vertex] under the origin / destination "
    "keys from the ids stored in the request, a miss is an Err; geometry and uuid tables are read row-aligned with read_raw_file. "
    "Not decided: WKT/WKB/GeoJSON encoders (external crates), float formatting."
)

T = "routee_compass::plugin::output::default::traversal::"
OPS = T + "traversal_ops::"
FMT = T + "traversal_output_format::TraversalOutputFormat"
BAD = re.compile(r"Iterator>?::(filter|filter_map|skip|take|rev|step_by|take_while|skip_while|flatten|dedup|peekable)$|Itertools::(sorted\w*|dedup\w*|unique\w*)$|::sort\w*$|::dedup\w*$|::reverse$|Option::<T>::unwrap_or(_default|_else)?$|Result::<T, E>::(ok|unwrap_or(_default|_else)?)$")


def all_calls(F, body):
    """callee names in a function and all its closures (recursively)"""
    out = []
    for p, b in F.bodies.items():
        if p == body.path or p.startswith(body.path + "::{closure"):
            for c in b.calls():
                if c.callee:
                    out.append((c.callee, c))
    return out


def closures_under(F, body):
    return [b for p, b in sorted(F.bodies.items()) if p.startswith(body.path + "::{closure")]


def pipeline_rule(ctx, fn, source, elem_edge_id, kind):
    """shared shape of the geometry pipelines"""
    F = ctx.F
    b = F.need(OPS + fn)
    bad = [n for n, c in all_calls(F, b) if BAD.search(n)]
    ctx.check(not bad, "%s:in-order-complete" % fn, "%s uses %s: elements can be skipped, defaulted, re-ordered or dropped" % (fn, sorted({x.split("::")[-1] for x in bad})), b.where(), detail="no filter/skip/take/rev/sort/dedup/default")
    rt = nosite(deep_strip(Terms(b).return_term()))
    # (`for x in slice` iterates through IntoIterator: the same sequence as slice.iter())
    alt_src = ("call", "<I as std::iter::IntoIterator>::into_iter", (source[2][0],)) if source[0] == "call" and source[1].endswith("::iter") and len(source[2]) == 1 else None
    src_ok = contains(rt, lambda s: s == source or (alt_src is not None and s == alt_src))
    if not src_ok and source[0] == "call" and len(source[2]) == 1:
        # the result is a vector filled by a loop over the source (one element per turn)
        for e in elementwise_builds(b):
            if e["form"] != "loop":
                continue
            sr = clean(e["src"])
            while sr[0] == "call" and len(sr[2]) == 1 and re.search(r"::(into_iter|iter)$", sr[1]):
                sr = sr[2][0]
            if sr == source[2][0]:
                src_ok = True
    ctx.check(src_ok, "%s:over-all-%s" % (fn, kind), "%s does not map over %s" % (fn, short(source)), b.where(), detail=short(source))
    # every geometry lookup: geoms.get(<edge id>.0) guarded by ok_or / ok_or_else
    n = 0
    for cb in [b] + closures_under(F, b):
        tm = Terms(cb)
        for c in cb.calls():
            if c.callee == "std::slice::<impl [T]>::get":
                recv = unmut(nosite(deep_strip(tm.operand(c.args[0], c.bb))))
                if not (recv == ("arg", 2) or (recv[0] == "field" and recv[1] == ("arg", 1))):
                    continue
                n += 1
                idx = nosite(deep_strip(tm.operand(c.args[1], c.bb)))
                okx = idx[0] == "field" and idx[2] == "0" and (idx[1] == ("arg", 2) and elem_edge_id == "id" and cb is not b or idx[1][0] == "field" and idx[1][2] == "edge_id" or idx[1] == ("field", ("arg", 1), "edge_id"))
                ctx.check(okx, "%s:lookup-by-edge-id" % fn, "geometry is looked up with %s, not the rendered element's edge id" % short(idx), c.where(), detail=short(idx))
                ct = tm.call_term(c.term, c.bb)
                guards = [x for x in cb.calls() if x.callee and re.search(r"Option::<T>::ok_or(_else)?$", x.callee) and contains(tm.operand(x.args[0], x.bb), lambda s: s == ct)]
                # (or the None arm of a match on the lookup returns an Err)
                ctx.check(len(guards) >= 1 or none_is_err(cb, c, tm), "%s:missing=>Err" % fn, "a missing geometry is not turned into an Err", c.where(), detail="ok_or_else(missing edge id)")
    if n == 0:
        # the lookup may be delegated per element to create_edge_geometry / create_branch_geometry (both decided on their own:
        # geoms[element's edge id], Err for a miss) — the element handed over must be the mapped one
        for cb in [b] + closures_under(F, b):
            tm = Terms(cb)
            for c in cb.calls():
                if c.callee in (OPS + "create_edge_geometry", OPS + "create_branch_geometry"):
                    a0 = clean(tm.operand(c.args[0], c.bb))
                    a1 = clean(tm.operand(c.args[1], c.bb))
                    okd = (a0 == ("arg", 2) or (a0[0] == "field" and a0[1] == ("arg", 2)) or a0[0] == "call") and (a1 == ("arg", 2) and cb is b or (a1[0] == "field" and a1[1] == ("arg", 1)) or a1 == ("arg", 2))
                    n += 1
                    ctx.check(okd, "%s:lookup-by-edge-id" % fn, "the per-element geometry helper is not given the mapped element and the geometry table", c.where(), detail="helper(element, geoms)")
    ctx.check(n >= 1, "%s:has-lookup" % fn, "no geometry lookup found", b.where())
    # errors reach the caller: collect into Result + `?` (or the Result itself is returned)
    rows = [r for r in table(b, max_paths=100000) if r.end == "return"]
    ctx.check(any(is_err_value(r.ret) for r in rows) or fn in ("create_edge_geometry",), "%s:err-reaches-caller" % fn, "lookup errors cannot reach the caller", b.where())


def R1_formats(ctx):
    """C20.R1 order-preserving traversal in every format"""
    F = ctx.F
    ctx.rule("C20.R1", "generate_route_output: Wkt/Wkb from create_route_linestring(route, geoms), GeoJson from create_route_geojson(route, geoms), EdgeId = route.iter().map(edge_id).collect(), Json = to_value(route); no reordering anywhere", floor=6)
    b = F.need(FMT + "::generate_route_output")
    got = {}
    tm_b = Terms(b)
    for r in table(b, max_paths=100000):
        if r.end != "return" or is_err_value(r.ret) or result_variant(r.ret) == "Err":
            continue
        v = r.retn if getattr(r, "retn", None) is not None else r.ret
        # the value returned on success: Ok(x) is x; a fallible call returned as it is stands for its Ok payload
        if result_variant(v) == "Ok":
            v = agg_payload(v)
        elif result_variant(r.ret) == "Ok":
            v = agg_payload(r.ret)
        got.setdefault(r.sel.get(("arg", 1)), v)
    ls = ("call", OPS + "create_route_linestring", (("arg", 2), ("arg", 3)))
    gj = ("call", OPS + "create_route_geojson", (("arg", 2), ("arg", 3)))
    ctx.check("Wkt" in got and contains(got["Wkt"], lambda s: s == ls), "Wkt", "Wkt is not rendered from create_route_linestring(route, geoms)", b.where(), detail="linestring(route)")
    ctx.check("Wkb" in got and contains(got["Wkb"], lambda s: s == ls), "Wkb", "Wkb is not rendered from create_route_linestring(route, geoms)", b.where(), detail="linestring(route)")
    ctx.check(got.get("GeoJson") == gj, "GeoJson", "GeoJson is not create_route_geojson(route, geoms)", b.where(), detail="geojson(route)")
    js = got.get("Json")
    ctx.check(js is not None and js[0] == "call" and js[1].endswith("to_value") and js[2] == (("arg", 2),), "Json", "Json is not serde to_value(route)", b.where(), detail="to_value(route)")
    ei = got.get("EdgeId")
    oke = ei is not None
    if oke:
        # json!(ids) with ids[i] = route[i].edge_id for every i (adaptor chain or a loop pushing one id per element)
        inner = clean(ei)
        while inner[0] == "call" and len(inner[2]) == 1 and re.search(r"to_value$|Result::<T, E>::unwrap$", inner[1].split("{")[0]):
            inner = inner[2][0]
        sf = sequence_form(F, b, inner)
        oke = sf is not None and sf[0] == ("field", ("at", ("arg", 2), ("i",)), "edge_id") and sf[1] == {("len", ("arg", 2))}
    ctx.check(oke, "EdgeId", "EdgeId is not route.iter().map(|e| e.edge_id)", b.where(), detail="iter().map(edge_id)")
    bad = [n for n, c in all_calls(F, b) if BAD.search(n)]
    ctx.check(not bad, "no-reordering", "generate_route_output uses %s" % bad, b.where())
    variants = {v["name"] for v in F.adts[FMT]["variants"]}
    ctx.check(variants == set(got), "all-formats", "formats %s vs rendered %s" % (sorted(variants), sorted(map(str, got))), b.where())


def _append_whole(cb, ctm, crt):
    """all coordinates of all inputs in order, written as one loop that appends each input's coordinate vector whole"""
    loops = cb.natural_loops()
    if len(loops) != 1:
        return False
    h, blocks = loops[0]
    rows = [r for r in iteration_table(cb, h, stop_at_exit=True) if r.kind != "diverge"]
    if not rows or not all(r.conds for r in rows):
        return False
    d0 = clean(rows[0].conds[0][0])
    if not (d0[0] == "discr" and d0[1][0] == "call" and re.search(r"::next$", d0[1][1])):
        return False
    src = d0[1][2][0]
    while src[0] == "call" and len(src[2]) == 1 and re.search(r"::into_iter$", src[1]):
        src = src[2][0]
    if src != ("call", "std::slice::<impl [T]>::iter", (("arg", 1),)) and src != ("arg", 1):
        return False
    ELEM = d0[1]
    backs = [r for r in rows if r.kind == "back"]
    sink = None
    for r in backs:
        adds = [clean(v) for _, k, v in r.sites if k and re.search(r"Vec::<T, A>::extend_from_slice$|Extend<.*>>::extend$|Vec::<T, A>::append$", k)]
        if len(adds) != 1:
            return False
        a = adds[0]
        what = a[2][1]
        while what[0] == "call" and len(what[2]) == 1 and re.search(r"::(iter|into_iter|as_slice|to_vec)$|Iterator>?::(copied|cloned)$", what[1]):
            what = what[2][0]
        if what != ("field", ELEM, "0"):
            return False
        sink = a[2][0]
    # the only way out is exhaustion, and the sink is what the result is built from
    for r in rows:
        if r.kind == "exit" and r.conds[0][1] != "None":
            return False
    return bool(backs) and sink is not None and contains(crt, lambda q: q == sink)


def _nested_flatten(cb, ctm, crt):
    """all points of all inputs in order, written as two nested loops with one push per point into the returned collection"""
    loops = sorted(cb.natural_loops(), key=lambda l: -len(l[1]))
    # the copying pair: a loop nested in another; further loops (e.g. one that only sizes the buffer) may exist but must not
    # push, return or skip
    pairs = [(o, i) for o in loops for i in loops if o is not i and set(i[1]) < set(o[1])]
    if len(pairs) != 1:
        return False
    outer, inner = pairs[0]
    for l in loops:
        if l is outer or l is inner:
            continue
        for bb in l[1]:
            t_ = cb.blocks[bb]["term"]
            if t_["k"] == "return" or (t_["k"] == "call" and re.search(r"Vec::<T, A>::(push|extend\w*|insert|append)$", (callee_key(t_["func"]) or "").split("{")[0])):
                return False
    # every turn of the outer loop goes through the inner loop (no input is skipped)
    latches = [a for a in cb.pred[outer[0]] if a in outer[1]]
    if not latches or not all(cb.dominates(inner[0], a) for a in latches):
        return False
    orows = [r for r in iteration_table(cb, outer[0]) if r.kind != "diverge"]
    irows = [r for r in iteration_table(cb, inner[0]) if r.kind != "diverge"]
    if not orows or not irows or not all(r.conds for r in orows + irows):
        return False
    o0, i0 = clean(orows[0].conds[0][0]), clean(irows[0].conds[0][0])
    if not (o0[0] == "discr" and o0[1][0] == "call" and re.search(r"::next$", o0[1][1]) and i0[0] == "discr" and i0[1][0] == "call" and re.search(r"::next$", i0[1][1])):
        return False
    osrc = o0[1][2][0]
    while osrc[0] == "call" and len(osrc[2]) == 1 and re.search(r"::into_iter$", osrc[1]):
        osrc = osrc[2][0]
    isrc = i0[1][2][0]
    while isrc[0] == "call" and len(isrc[2]) == 1 and re.search(r"::into_iter$", isrc[1]):
        isrc = isrc[2][0]
    if osrc != ("call", "std::slice::<impl [T]>::iter", (("arg", 1),)):
        return False
    by_points = isrc[0] == "call" and isrc[1].endswith("::points") and isrc[2] == (o0[1],)
    by_coords = isrc == ("call", "std::slice::<impl [T]>::iter", (("field", o0[1], "0"),))
    if not (by_points or by_coords):
        return False
    backs = [r for r in irows if r.kind == "back" and r.conds[0][1] == "Some"]
    pushes = [[clean(v) for _, k, v in r.sites if k and k.endswith("Vec::<T, A>::push")] for r in backs]
    def _is_elem(v_):
        # the point itself, or Point::from(coordinate) / Point(coordinate) of the element
        while v_ != i0[1] and ((v_[0] == "call" and len(v_[2]) == 1 and re.search(r"Point|::from$|Into<U>>::into$", v_[1])) or (v_[0] == "agg" and "Point" in v_[1] and len(v_[3]) == 1)):
            v_ = v_[2][0] if v_[0] == "call" else v_[3][0][1]
        return v_ == i0[1]
    if not backs or any(len(p_) != 1 or not _is_elem(p_[0][2][1]) for p_ in pushes):
        return False
    sink = pushes[0][0][2][0]
    # no push outside the inner loop, no other exit than exhaustion, and the sink is what is returned
    for r in orows:
        if r.kind == "back" and [1 for _, k, v in r.sites if k and k.endswith("Vec::<T, A>::push")]:
            return False
    return contains(crt, lambda q: q == sink)


def R2_geometry(ctx):
    """C20.R2 geometry lookup and concatenation"""
    F = ctx.F
    ctx.rule("C20.R2", "create_route_linestring / create_route_geojson / create_edge_geometry: geometry = geoms[element.edge_id.0], a miss is an Err reaching the caller, nothing skipped or defaulted; concat_linestrings = flat_map(points) over all inputs in order; feature = (id, properties, geometry) of the same traversal", floor=14)
    route = ("call", "std::slice::<impl [T]>::iter", (("arg", 1),))
    pipeline_rule(ctx, "create_route_linestring", route, "id", "route-edges")
    pipeline_rule(ctx, "create_route_geojson", route, "elem", "route-edges")
    b = F.need(OPS + "create_edge_geometry")
    rt = Terms(b).return_term()
    okg = bool(calls_in(rt, "ok_or_else") or calls_in(rt, "ok_or"))
    st = nosite(deep_strip(rt))
    look_ = ("call", "std::slice::<impl [T]>::get", (("arg", 2), ("field", ("field", ("arg", 1), "edge_id"), "0")))
    okg = okg and st == look_
    if not okg:
        # the same with a `match` on the lookup (possibly written out from a helper) and `.cloned()` on the result
        t_ = clean(rt)
        while t_[0] == "call" and len(t_[2]) == 1 and re.search(r"Result::<.*>::(cloned|copied)$|Result::<&T, E>::(cloned|copied)$", t_[1]):
            t_ = t_[2][0]
        alts_ = list(t_[1]) if t_[0] == "phi" else [t_]
        oks_ = [agg_payload(a_) for a_ in alts_ if result_variant(a_) == "Ok"]
        errs_ = [a_ for a_ in alts_ if result_variant(a_) == "Err" or is_err_value(a_)]
        okg = bool(oks_) and all(o_ == look_ for o_ in oks_) and bool(errs_) and len(oks_) + len(errs_) == len(alts_)
    ctx.check(okg, "create_edge_geometry", "create_edge_geometry is not geoms[edge.edge_id.0] with Err for a miss", b.where(), detail="geoms.get(edge_id.0).ok_or_else")
    bg = F.need(OPS + "create_branch_geometry")
    brt = clean(Terms(bg).return_term())
    ctx.check(brt == ("call", OPS + "create_edge_geometry", (("field", ("arg", 1), "edge_traversal"), ("arg", 2))), "create_branch_geometry", "create_branch_geometry is not create_edge_geometry(branch.edge_traversal, geoms)", bg.where(), detail="edge geometry of the branch's own traversal")
    # linestring: ids in route order, then lookups in id order, then concat
    lb = F.need(OPS + "create_route_linestring")
    ltm = Terms(lb)
    cc = [c for c in lb.calls() if c.callee == "routee_compass_core::util::geo::geo_io_utils::concat_linestrings"]
    okc = len(cc) == 1
    got = None
    if okc:
        got = sequence_form(F, lb, ltm.operand(cc[0].args[0], cc[0].bb))
        want = ("call", "std::slice::<impl [T]>::get", (("arg", 2), ("field", ("field", ("at", ("arg", 1), ("i",)), "edge_id"), "0")))
        okc = got is not None and got[0] == want and got[1] == {("len", ("arg", 1))}
        # and that is what is returned
        rt = ltm.return_term()
        oks_ = [x for x in (rt[1] if rt[0] == "phi" else [rt]) if result_variant(x) == "Ok"]
        okc = okc and len(oks_) == 1 and clean(agg_payload(oks_[0])) == clean(ltm.call_term(cc[0].term, cc[0].bb))
    ctx.check(okc, "linestring:concat-of-lookups", "the route geometry is not concat_linestrings(lookups of the route's edge ids in order): %s" % (short(got[0])[:120] if got else None), lb.where(), detail="concat([geoms[route[i].edge_id.0] for i in 0..len(route)])")
    cb = F.need("routee_compass_core::util::geo::geo_io_utils::concat_linestrings")
    ctm = Terms(cb)
    crt = clean(ctm.return_term())
    bad = [n for n, c in all_calls(F, cb) if BAD.search(n)]
    okf = not bad
    fm = [x for x in calls_in(crt) if itm(x[1], "flat_map")]
    if fm:
        okf = okf and len(fm) == 1 and fm[0][2][0] == ("call", "std::slice::<impl [T]>::iter", (("arg", 1),))
        if okf:
            k = clean(Terms(F.need(fm[0][2][1][1])).return_term())
            okf = k[0] == "call" and k[1].endswith("::points") and k[2] == (("arg", 2),)
    else:
        # nested loops: for ls in linestrings.iter() { for p in ls.points() { all.push(p) } }
        # or one loop appending each input whole: for ls in linestrings.iter() { all.extend_from_slice(&ls.0) }
        okf = okf and (_nested_flatten(cb, ctm, crt) or _append_whole(cb, ctm, crt))
    ctx.check(okf, "concat:all-points-in-order", "concat_linestrings is not flat_map(points) over all inputs in order (found forbidden adaptors %s)" % sorted({x.split("::")[-1] for x in bad}), cb.where(), detail="iter().flat_map(points)")
    # feature
    fb = F.need(OPS + "create_geojson_feature")
    rows = [r for r in table(fb, max_paths=100000) if r.end == "return" and result_variant(r.ret) == "Ok"]
    feats = {x for r in rows for x in subterms(r.ret) if x[0] == "agg" and x[1].endswith("::Feature")}
    okt = len(feats) >= 1
    any_props = False
    for ft in feats:
        f = dict(ft[3])
        idt = f.get("id")
        okid = idt is not None and contains(idt, lambda s: s == ("field", ("field", ("arg", 1), "edge_id"), "0")) and contains(idt, lambda s: s[0] == "agg" and s[2] == "Number")
        okp = f.get("properties") is not None and contains(f["properties"], lambda s: s[0] == "call" and s[1].endswith("to_value") and s[2] == (("arg", 1),))
        okgm = f.get("geometry") is not None and contains(f["geometry"], lambda s: unmut(s) == ("arg", 2))
        any_props = any_props or (okp and not contains(f["properties"], lambda s: result_variant(s) == "Err"))
        okt = okt and okid and okgm
    okt = okt and any_props
    ctx.check(okt, "feature", "a GeoJSON feature is not {id: Number(t.edge_id.0), properties: to_value(t), geometry: from(g)} of the same traversal", fb.where(), detail="id/properties/geometry of t")
    # geojson closure passes the same t with its geometry
    gb = F.need(OPS + "create_route_geojson")
    ok2 = False
    for k in closures_under(F, gb):
        krt = nosite(deep_strip(Terms(k).return_term()))
        if krt[0] == "call" and krt[1] == fb.path:
            ok2 = krt[2] == (("field", ("arg", 1), "0"), ("arg", 2))
    if not ok2:
        # written as a loop (possibly shared with the tree output through a helper): the geometry handed over is the one
        # looked up under the edge id of the very traversal handed over
        for kb in tree_of(F, gb.path):
            ktm = Terms(kb)
            for c in kb.calls():
                if c.callee == fb.path:
                    a0, a1 = clean(ktm.operand(c.args[0], c.bb)), clean(ktm.operand(c.args[1], c.bb))
                    want_ix = ("field", ("field", a0, "edge_id"), "0")
                    ok2 = contains(a1, lambda q: q[0] == "call" and q[1] == "std::slice::<impl [T]>::get" and q[2][1] == want_ix)
    ctx.check(ok2, "geojson:same-traversal", "create_geojson_feature is not called with the traversal whose geometry was looked up", gb.where())


def R3_trees(ctx):
    """C20.R3 trees: one entry per branch"""
    F = ctx.F
    ctx.rule("C20.R3", "every tree output maps over tree.values() exactly once without filtering; geometry by the branch's edge id with Err for a miss", floor=10)
    vals = ("call", "std::collections::HashMap::<K, V, S, A>::values", (("arg", 1),))
    for fn in ("create_tree_geojson", "create_tree_multilinestring", "create_tree_multipoint"):
        pipeline_rule(ctx, fn, vals, "id", "branches")
    b = F.need(FMT + "::generate_tree_output")
    bad = [n for n, c in all_calls(F, b) if BAD.search(n)]
    ctx.check(not bad, "generate_tree_output:complete", "generate_tree_output uses %s" % bad, b.where())
    got = {}
    tm_b = Terms(b)
    for r in table(b, max_paths=100000):
        if r.end != "return" or is_err_value(r.ret) or result_variant(r.ret) == "Err":
            continue
        v = r.retn if getattr(r, "retn", None) is not None else r.ret
        # the value returned on success: Ok(x) is x; a fallible call returned as it is stands for its Ok payload
        if result_variant(v) == "Ok":
            v = agg_payload(v)
        elif result_variant(r.ret) == "Ok":
            v = agg_payload(r.ret)
        got.setdefault(r.sel.get(("arg", 1)), v)
    tvals = ("call", "std::collections::HashMap::<K, V, S, A>::values", (("arg", 2),))
    for v in ("Json", "EdgeId"):
        ctx.check(v in got and contains(got[v], lambda s: s == tvals), "tree:%s" % v, "tree %s output is not built from tree.values()" % v, b.where(), detail="tree.values()")
    for v, fn in (("Wkt", "create_tree_multilinestring"), ("Wkb", "create_tree_multilinestring"), ("GeoJson", "create_tree_geojson")):
        ctx.check(v in got and contains(got[v], lambda s: s == ("call", OPS + fn, (("arg", 2), ("arg", 3)))), "tree:%s" % v, "tree %s output is not %s(tree, geoms)" % (v, fn), b.where(), detail=fn)


def R4_identifiers(ctx):
    """C20.R4 identifiers"""
    F = ctx.F
    U = "routee_compass::plugin::output::default::uuid::"
    ctx.rule("C20.R4", "UUIDOutputPlugin::process writes uuids[origin_vertex_id.0] under the origin key and uuids[destination_vertex_id.0] under the destination key, ids read from request.origin_vertex / request.destination_vertex, a miss is an Err; the table is read row-aligned with read_raw_file(identity); summary counts", floor=7)
    b = F.need("<%splugin::UUIDOutputPlugin as routee_compass::plugin::output::output_plugin::OutputPlugin>::process" % U)
    tm = Terms(b)
    ims = [c for c in b.calls() if c.func.get("method") == "index_mut"]
    ods = [c for c in b.calls() if c.func.get("method") == "get_od_vertex_ids"]
    ok = len(ims) == 2 and len(ods) == 1
    ctx.check(ok, "shape", "expected one get_od_vertex_ids and two writes (found %d/%d)" % (len(ods), len(ims)), b.where())
    if ok:
        od = nosite(strip_try(deep_strip(tm.call_term(ods[0].term, ods[0].bb))))
        roles = {}
        for c in ims:
            key = unmut(nosite(deep_strip(tm.operand(c.args[1], c.bb))))
            # the value assigned through the returned &mut: find the assignment *(dest) = Value::String(x)
            dest = c.dest["l"]
            val = None
            for bb, blk in enumerate(b.blocks):
                for pos, s in enumerate(blk["stmts"]):
                    if s["k"] == "assign" and s["place"]["l"] == dest and s["place"]["p"] and s["place"]["p"][0]["k"] == "deref":
                        val = unmut(nosite(deep_strip(tm.rvalue(s["rv"], bb, pos))))
            roles[key[2] if key[0] == "field" else short(key)] = val
        def src_of(v):
            gets = [x for x in calls_in(v) if x[1] == "std::slice::<impl [T]>::get"] if v else []
            return gets[0][2] if len(gets) == 1 else None
        o, d = src_of(roles.get("o_key")), src_of(roles.get("d_key"))
        uu = ("field", ("arg", 1), "uuids")
        ctx.check(o == (uu, ("field", ("field", unmut(od), "0"), "0")), "origin", "the origin key does not receive uuids[origin_vertex_id.0]: %s" % (short(roles.get("o_key"))[:120] if roles.get("o_key") else None), b.where(), detail="output[o_key] = uuids[od.0.0]")
        ctx.check(d == (uu, ("field", ("field", unmut(od), "1"), "0")), "destination", "the destination key does not receive uuids[destination_vertex_id.0]: %s" % (short(roles.get("d_key"))[:120] if roles.get("d_key") else None), b.where(), detail="output[d_key] = uuids[od.1.0]")
        gets = [c for c in b.calls() if c.callee == "std::slice::<impl [T]>::get"]
        for c in gets:
            ct = tm.call_term(c.term, c.bb)
            guards = [x for x in b.calls() if x.callee and re.search(r"Option::<T>::ok_or(_else)?$", x.callee) and contains(tm.operand(x.args[0], x.bb), lambda s: s == ct)]
            okm = bool(guards) and all(try_propagation(b, g, tm)["kind"] == "propagated" for g in guards)
            if not guards:
                # `match self.uuids.get(i) { Some(u) => .., None => Err(..) }` (possibly written out from a helper)
                okm = none_is_err(b, c, tm)
            ctx.check(okm, "miss=>Err", "a missing uuid row is not a propagated Err", c.where())
    # key names
    fb = F.need(U + "plugin::UUIDOutputPlugin::from_file")
    ftm = Terms(fb)
    aggs = [x for x in subterms(nosite(deep_strip(ftm.return_term()))) if x[0] == "agg" and x[1].endswith("UUIDOutputPlugin")]
    okk = len(aggs) >= 1
    for a in aggs:
        f = dict(a[3])
        okk = okk and contains(f["o_key"], lambda s: s[0] == "agg" and s[2] == "OriginVertexUUID") and contains(f["d_key"], lambda s: s[0] == "agg" and s[2] == "DestinationVertexUUID")
        rr = [x for x in calls_in(f["uuids"]) if x[1].endswith("read_utils::read_raw_file")]
        okr = len(rr) == 1 and unmut(rr[0][2][0]) == ("arg", 1)
        # the stored table is that result itself: between the read and the field only row-preserving steps are allowed
        t_ = clean(f["uuids"])
        while okr and t_ != clean(rr[0]):
            if t_[0] == "call" and t_[2] and re.search(r"Result::<T, E>::map_err$|::(into_iter|iter|into_boxed_slice|into_vec|to_vec)$|Iterator>?::(cloned|copied|collect)(\{.*\})?$|Itertools::collect_vec$|From<.*>>::from$|Into<.*>>::into$", t_[1]):
                t_ = t_[2][0]
            else:
                okr = False
        if okr:
            op = rr[0][2][1]
            okr = op[0] == "closure" and nosite(deep_strip(Terms(F.need(op[1])).return_term())) == ("agg", "std::result::Result", "Ok", (("0", ("arg", 3)),))
        ctx.check(okr, "table:row-aligned", "the uuid table is not read with read_raw_file(file, |_idx, row| Ok(row)) (row = vertex index; a CSV reader skips blank rows)", fb.where(), detail="read_raw_file(identity)")
    ctx.check(okk, "keys", "o_key/d_key are not the origin/destination uuid field names respectively", fb.where(), detail="o_key=OriginVertexUUID d_key=DestinationVertexUUID")
    # get_od_vertex_ids: (request.origin_vertex, request.destination_vertex)
    gb = [F.bodies[p] for p in F.bodies if p.endswith("UUIDJsonExtensions>::get_od_vertex_ids")]
    okg = len(gb) == 1
    if okg:
        rows = [r for r in table(gb[0], max_paths=200000) if r.end == "return" and result_variant(r.ret) == "Ok"]
        okg = len(rows) >= 1
        for r in rows:
            v = agg_payload(r.ret)
            if v[0] != "tuple" or len(v[1]) != 2:
                okg = False
                continue
            k0 = [s[2] for s in subterms(v[1][0]) if (s[0] == "agg" and s[1].endswith("UUIDJsonField")) or (s[0] == "const" and isinstance(s[2], str))]
            k1 = [s[2] for s in subterms(v[1][1]) if (s[0] == "agg" and s[1].endswith("UUIDJsonField")) or (s[0] == "const" and isinstance(s[2], str))]
            okg = okg and any("Origin" in str(k) or "origin" in str(k) for k in k0) and any("Destination" in str(k) or "destination" in str(k) for k in k1) and not any("Destination" in str(k) or "destination" in str(k) for k in k0)
    ctx.check(okg, "od-from-request", "get_od_vertex_ids does not return (request.origin_vertex, request.destination_vertex) in that order", gb[0].where() if gb else None, detail="(origin, destination)")


def R5_tables(ctx):
    """C20.R5 table alignment at load"""
    F = ctx.F
    ctx.rule("C20.R5", "the traversal plugin's geometry table is read with read_raw_file in row order (row = edge id) and stored as it was read (no row removed, moved or added)", floor=2)
    cands = [b for p, b in F.bodies.items() if p.startswith(T + "plugin::TraversalPlugin::from_file") and b.kind == "assocfn"]
    if not cands:
        raise AnchorMissing("TraversalPlugin::from_file")
    b = cands[0]
    rr = [c for c in b.calls() if c.callee and c.callee.endswith("read_utils::read_raw_file")]
    ctx.check(len(rr) == 1, "geometry:read_raw_file", "the geometry table is not read with read_raw_file", b.where(), detail="read_raw_file(geometry file, parse_linestring)")
    # the stored table is that read result itself (row i = edge i): only row-preserving steps between the read and the field —
    # no filter / dedup / sort / skip.  (round 6: blank rows decoded to empty linestrings by the row parser and then filtered
    # out of the table by from_file: every later edge was rendered with its neighbour's geometry.)
    ftm = Terms(b)
    aggs = [x for x in subterms(nosite(deep_strip(ftm.return_term()))) if x[0] == "agg" and x[1].endswith("TraversalPlugin")]
    okt = len(aggs) >= 1
    why = "no TraversalPlugin value built"
    for a in aggs:
        f = dict(a[3])
        g = f.get("geoms")
        if g is None:
            okt = False; why = "no geoms field"; break
        rrt = [x for x in calls_in(g) if x[1].endswith("read_utils::read_raw_file")]
        if len(rrt) != 1:
            okt = False; why = "geoms does not come from one read_raw_file"; break
        t_ = clean(g)
        while okt and t_ != clean(rrt[0]):
            if t_[0] == "call" and t_[2] and re.search(r"Result::<T, E>::map_err$|::(into_iter|iter|into_boxed_slice|into_vec|to_vec)$|Iterator>?::(cloned|copied|collect)(\{.*\})?$|Itertools::collect_vec$|From<.*>>::from$|Into<.*>>::into$", t_[1]):
                t_ = t_[2][0]
            else:
                okt = False; why = "between the read and the table: %s" % short(t_)[:120]
    ctx.check(okt, "geometry:table=read-result", "the geometry table is not the row-aligned read result itself (%s)" % why, b.where(), detail="geoms = read_raw_file(..)? unchanged")


def R6_readers(ctx):
    """the row-aligned tables (geometries, identifiers) are read by readers that keep every row, plain or gzip (shared with C15.R3)"""
    from props.C15 import R3_counts_and_readers
    R3_counts_and_readers(ctx)


RULES = [R1_formats, R2_geometry, R3_trees, R4_identifiers, R5_tables, R6_readers]
