"""C09 — unit conversions are linear, invertible and physically correct.

Decided completely for the finite conversion tables (up to the rounding of a
single f64 multiplication): the factor of every (from,to) pair is extracted from
the MIR of `*Unit::convert` by trace-partitioned evaluation in the rational
domain and compared with exact SI definitions."""
from fractions import Fraction

from core import *
import common

EXPLANATION = (
    "C09: every arm of the six *Unit::convert tables is evaluated in an exact rational domain from MIR "
    "(linearity, identity, round trip <=0.1%, physical factor <=0.1%), the associated-unit tables and base-unit "
    "constants are checked for dimensional consistency, and the three constructors create_time/create_speed/"
    "create_energy are checked structurally (normalise to base units, guard, quotient order, final conversion)."
)

U = "routee_compass_core::model::unit::"
TOL = Fraction(1, 1000)

# exact SI definitions (value of one unit in the family's base)
PHYS = {
    "distance_unit::DistanceUnit": {
        "Meters": Fraction(1),
        "Kilometers": Fraction(1000),
        "Miles": Fraction("1609.344"),
        "Inches": Fraction("0.0254"),
        "Feet": Fraction("0.3048"),
    },
    "time_unit::TimeUnit": {"Hours": Fraction(3600), "Minutes": Fraction(60), "Seconds": Fraction(1), "Milliseconds": Fraction(1, 1000)},
    "speed_unit::SpeedUnit": {
        "KilometersPerHour": Fraction(1000, 3600),
        "MilesPerHour": Fraction("1609.344") / 3600,
        "MetersPerSecond": Fraction(1),
    },
    "grade_unit::GradeUnit": {"Percent": Fraction(1, 100), "Decimal": Fraction(1), "Millis": Fraction(1, 1000)},
    "weight_unit::WeightUnit": {"Pounds": Fraction("0.45359237"), "Tons": Fraction("0.45359237") * 2000, "Kg": Fraction(1)},
    "energy_unit::EnergyUnit": None,  # identity + round trip only (as the property states)
}
VALUE_TYPES = {
    "distance_unit::DistanceUnit": "Distance",
    "time_unit::TimeUnit": "Time",
    "speed_unit::SpeedUnit": "Speed",
    "grade_unit::GradeUnit": "Grade",
    "weight_unit::WeightUnit": "Weight",
    "energy_unit::EnergyUnit": "Energy",
}


def enum_variants(F, path):
    a = F.adts.get(path)
    if a is None:
        raise AnchorMissing(path)
    return [v["name"] for v in a["variants"]]


def extract_table(ctx, unit):
    """(from,to) -> Fraction factor, by evaluating every return path of convert"""
    F = ctx.F
    body = F.need(U + unit + "::convert")
    variants = enum_variants(F, U + unit)
    A = Arith(F, {("arg", 2): "v"})
    table = {}
    problems = []
    for p in enumerate_paths(body):
        sel = {}
        for dt, label, bb in p.conds:
            if dt[0] == "discr":
                base = deep_strip(dt[1])
                if base == ("arg", 1):
                    sel["from"] = label
                elif base == ("arg", 3):
                    sel["to"] = label
                else:
                    sel.setdefault("other", []).append((short(dt), label))
            else:
                sel.setdefault("other", []).append((short(dt), label))
        if p.end == "unreachable":
            continue
        if p.end != "return":
            problems.append(("diverges", sel, p.end))
            continue
        if "other" in sel or isinstance(sel.get("from"), tuple) or isinstance(sel.get("to"), tuple) or "from" not in sel or "to" not in sel:
            problems.append(("not-a-variant-table", sel, p.end))
            continue
        rt = path_return_term(body, p)
        r = A.ev(rt)
        k = r.linear_factor("v")
        key = (sel["from"], sel["to"])
        if k is None:
            problems.append(("non-linear", sel, repr(r)))
            continue
        if key in table and table[key] != k:
            problems.append(("ambiguous", sel, "%s vs %s" % (table[key], k)))
        table[key] = k
    if problems or any((a, b_) not in table for a in variants for b_ in variants):
        # the same table written differently (nested matches, a private factor function, ...): evaluate convert for every
        # concrete (from, to) pair by partial evaluation
        table2, problems2 = {}, []
        for a in variants:
            for b_ in variants:
                rt = spec_eval(F, body, {1: a, 3: b_})
                if rt is None:
                    problems2.append(("no-single-value", {"from": a, "to": b_}, "partial evaluation does not give one value"))
                    continue
                k = A.ev(rt).linear_factor("v")
                if k is None:
                    problems2.append(("non-linear", {"from": a, "to": b_}, short(rt)[:80]))
                    continue
                table2[(a, b_)] = k
        if not problems2:
            return body, variants, table2, []
    return body, variants, table, problems


def R1_R2_tables(ctx):
    """C09.R1/R2 conversion tables: linear, identity, round trip, physical factor"""
    ctx.rule("C09.R1", "every (from,to) arm of *Unit::convert is k*value for an exact rational k (linearity, totality)", floor=77)
    tables = {}
    for unit in PHYS:
        body, variants, table, problems = extract_table(ctx, unit)
        tables[unit] = (variants, table)
        short_unit = unit.split("::")[-1]
        for kind, sel, info in problems:
            ctx.bad("%s:%s->%s:%s" % (short_unit, sel.get("from"), sel.get("to"), kind), "convert arm is not a linear map of the value: %s %s" % (kind, info), body.where())
        for a in variants:
            for b in variants:
                k = table.get((a, b))
                inst = "%s:%s->%s" % (short_unit, a, b)
                if k is None:
                    ctx.bad(inst + ":missing", "no linear return value extracted for this pair", body.where())
                else:
                    ctx.ok(inst, "k=%s (~%.10g)" % (k, float(k)))
        ctx.sample({"unit": short_unit, "table": {"%s->%s" % k: str(v) for k, v in sorted(table.items())}})
    ctx.rule("C09.R2", "identity k(a,a)=1; round trip |k(a,b)k(b,a)-1|<=1e-3; physical |k/k_SI-1|<=1e-3 (exact rationals)", floor=21 + 28 + 50)
    for unit, (variants, table) in tables.items():
        su = unit.split("::")[-1]
        body = ctx.F.need(U + unit + "::convert")
        for a in variants:
            k = table.get((a, a))
            if k is not None:
                ctx.check(k == 1, "%s:identity:%s" % (su, a), "identity conversion scales by %s" % k, body.where())
        for i, a in enumerate(variants):
            for b in variants[i + 1 :]:
                k1, k2 = table.get((a, b)), table.get((b, a))
                if k1 is None or k2 is None:
                    continue
                dev = abs(k1 * k2 - 1)
                ctx.check(dev <= TOL, "%s:roundtrip:%s<->%s" % (su, a, b), "there-and-back factor %s*%s deviates from 1 by %.6g (>0.1%%)" % (k1, k2, float(dev)), body.where(), detail="dev=%.3g" % float(dev))
        phys = PHYS[unit]
        if phys is not None:
            if set(phys) != set(variants):
                ctx.bad("%s:physical-table-variants" % su, "unit variants %s differ from the checker's SI table %s" % (variants, sorted(phys)), body.where())
                continue
            for a in variants:
                for b in variants:
                    if a == b:
                        continue
                    k = table.get((a, b))
                    if k is None:
                        continue
                    ref = phys[a] / phys[b]
                    dev = abs(k / ref - 1)
                    ctx.check(dev <= TOL, "%s:physical:%s->%s" % (su, a, b), "factor %s (~%.8g) deviates from the physical factor %.8g by %.4g%%" % (k, float(k), float(ref), float(dev) * 100), body.where(), detail="dev=%.3g" % float(dev))
    ctx.trust("f64 multiplication/division rounds to within 1 ulp (IEEE-754)")
    ctx.tables = tables


def variant_table(ctx, path, argidx=1):
    """for `match self {V => Const}` helpers: variant -> returned aggregate variant name"""
    body = ctx.F.need(path)
    out = {}
    for p in enumerate_paths(body):
        if p.end != "return":
            continue
        sel = None
        for dt, label, bb in p.conds:
            if dt[0] == "discr" and deep_strip(dt[1]) == ("arg", argidx):
                sel = label
        rt = path_return_term(body, p)
        if sel is None or isinstance(sel, tuple) or rt[0] != "agg":
            out[str(sel)] = ("?", short(rt))
        else:
            out[sel] = rt[2]
    # the table may live in a helper that this function reads through (`let (e, _) = self.parts(); e`): evaluate per variant
    try:
        adt = re.sub(r"^&('\w+ )?", "", body.locals[argidx]["ty"]).strip()
        for v in enum_variants(ctx.F, adt):
            if not isinstance(out.get(v), str):
                sv = spec_eval(ctx.F, body, {argidx: v})
                if sv is not None and sv[0] == "agg" and not sv[3]:
                    out[v] = sv[2]
    except Exception:
        pass
    return body, out


def const_variant(ctx, path):
    b = ctx.F.bodies.get("const " + path)
    if b is None:
        raise AnchorMissing("const " + path)
    t = Terms(b).return_term()
    if t[0] != "agg":
        raise AnchorMissing("const %s is not an enum constant: %s" % (path, short(t)))
    return t[2]


def R3_associated(ctx):
    """C09.R3 associated-unit tables and base constants are dimensionally consistent"""
    ctx.rule("C09.R3", "speed = distance/time and rate = energy/distance hold for the associated units; BASE_* form an associated triple", floor=3 + 5 + 5 + 3)
    dist = PHYS["distance_unit::DistanceUnit"]
    time = PHYS["time_unit::TimeUnit"]
    speed = PHYS["speed_unit::SpeedUnit"]
    bd, tabd = variant_table(ctx, U + "speed_unit::SpeedUnit::associated_distance_unit")
    bt, tabt = variant_table(ctx, U + "speed_unit::SpeedUnit::associated_time_unit")
    for s in enum_variants(ctx.F, U + "speed_unit::SpeedUnit"):
        d, t = tabd.get(s), tabt.get(s)
        ok = d in dist and t in time and s in speed and dist[d] / time[t] == speed[s]
        ctx.check(ok, "SpeedUnit:%s" % s, "associated units (%s,%s) do not form %s" % (d, t, s), bd.where(), detail="%s/%s" % (d, t))
    # energy rate: name encodes energy and distance
    expect = {
        "GallonsGasolinePerMile": ("GallonsGasoline", "Miles"),
        "GallonsDieselPerMile": ("GallonsDiesel", "Miles"),
        "KilowattHoursPerMile": ("KilowattHours", "Miles"),
        "KilowattHoursPerKilometer": ("KilowattHours", "Kilometers"),
        "KilowattHoursPerMeter": ("KilowattHours", "Meters"),
    }
    be, tabe = variant_table(ctx, U + "energy_rate_unit::EnergyRateUnit::associated_energy_unit")
    bdd, tabdd = variant_table(ctx, U + "energy_rate_unit::EnergyRateUnit::associated_distance_unit")
    evs = enum_variants(ctx.F, U + "energy_rate_unit::EnergyRateUnit")
    if set(evs) != set(expect):
        ctx.bad("EnergyRateUnit:variants", "variants %s differ from the checker's table" % evs, be.where())
    for v in evs:
        if v not in expect:
            continue
        ctx.check(tabe.get(v) == expect[v][0], "EnergyRateUnit:%s:energy" % v, "associated energy unit is %s, name says %s" % (tabe.get(v), expect[v][0]), be.where(), detail=tabe.get(v))
        ctx.check(tabdd.get(v) == expect[v][1], "EnergyRateUnit:%s:distance" % v, "associated distance unit is %s, name says %s" % (tabdd.get(v), expect[v][1]), bdd.where(), detail=tabdd.get(v))
    bdu = const_variant(ctx, U + "builders::BASE_DISTANCE_UNIT")
    btu = const_variant(ctx, U + "builders::BASE_TIME_UNIT")
    bsu = const_variant(ctx, U + "builders::BASE_SPEED_UNIT")
    where = ctx.F.need(U + "builders::create_time").where()
    ctx.check(tabd.get(bsu) == bdu, "BASE:distance", "BASE_SPEED_UNIT %s has associated distance %s but BASE_DISTANCE_UNIT is %s" % (bsu, tabd.get(bsu), bdu), where, detail=bdu)
    ctx.check(tabt.get(bsu) == btu, "BASE:time", "BASE_SPEED_UNIT %s has associated time %s but BASE_TIME_UNIT is %s" % (bsu, tabt.get(bsu), btu), where, detail=btu)
    ctx.check(bsu in speed and bdu in dist and btu in time and dist[bdu] / time[btu] == speed[bsu], "BASE:triple", "base units (%s,%s,%s) are not a consistent triple" % (bdu, btu, bsu), where, detail="%s/%s=%s" % (bdu, btu, bsu))


def is_convert(t, unit, recv, value, target):
    """t == <unit>::convert(recv, value, target) (site-erased)"""
    t = nosite(deep_strip(t))
    return t[0] == "call" and t[1] == U + unit + "::convert" and t[2] == (recv, value, target)


def quotient_impl(ctx, path, num_idx, den_idx, inst, op="Div"):
    """From<(A,B)> impl returns A op B with the tuple fields in that order"""
    b = ctx.F.need(path)
    rt = Terms(b).return_term()
    A = Arith(ctx.F, {("field", ("arg", 1), num_idx): "n", ("field", ("arg", 1), den_idx): "d"})
    # tuple fields appear as field(arg1, 0)/(arg1,1)
    A.symbols = {nosite(("field", ("arg", 1), "0")): "x0", nosite(("field", ("arg", 1), "1")): "x1"}
    r = A.ev(deep_strip(rt))
    x0, x1 = Ratio(Poly.sym("x0")), Ratio(Poly.sym("x1"))
    want = (x0 / x1) if op == "Div" else (x0 * x1)
    if num_idx == 1:
        want = (x1 / x0) if op == "Div" else want
    ctx.check(r.equals(want), inst, "%s computes %r, expected %r" % (path, r, want), b.where(), detail=repr(r))


def is_conv_to(q, target, sources):
    """q is `x.into()` / `Target::from(x)` converting a tuple of the given source quantities into the target quantity"""
    if q[0] != "call":
        return False
    k = q[1]
    src = r"\(.*" + r", .*".join(re.escape(x) for x in sources) + r"\)"
    if "::into{" in k and k.endswith(target + "}") and re.search(src, k):
        return True
    return re.search(r"<.*" + re.escape(target) + r" as std::convert::From<" + src + r">>::from(\{.*\})?$", k) is not None


def R4_constructors(ctx):
    """C09.R4 create_time / create_speed / create_energy"""
    F = ctx.F
    ctx.rule("C09.R4", "constructors normalise to base units, reject non-positive inputs, divide in the defined order and convert from the base unit", floor=14)
    item = lambda n: ("item", U + n)
    # ---- create_time(speed, speed_unit, distance, distance_unit, time_unit)
    b = F.need(U + "builders::create_time")
    d = nosite(("call", U + "distance_unit::DistanceUnit::convert", (("arg", 4), ("arg", 3), item("builders::BASE_DISTANCE_UNIT")), 0))
    s = nosite(("call", U + "speed_unit::SpeedUnit::convert", (("arg", 2), ("arg", 1), item("builders::BASE_SPEED_UNIT")), 0))
    need = {("Lt", item("speed::Speed::ZERO"), s), ("Lt", item("distance::Distance::ZERO"), d)}
    n_ok = 0
    for p in enumerate_paths(b):
        if p.end != "return":
            continue
        rt = deep_strip(path_return_term(b, p))
        if result_variant(rt) == "Ok":
            n_ok += 1
            facts = path_facts(p)
            ctx.check(need <= facts, "create_time:guard", "an Ok result is reachable without both guards `speed > 0` and `distance > 0` on the base-unit values (have: %s)" % sorted(short(("bin",) + f) for f in facts), b.where(), detail="Ok path requires 0 < s and 0 < d")
            val = nosite(agg_payload(rt))
            ok = val[0] == "call" and val[1] == U + "time_unit::TimeUnit::convert" and val[2][0] == item("builders::BASE_TIME_UNIT") and val[2][2] == ("arg", 5)
            ctx.check(ok, "create_time:final-conversion", "result is not BASE_TIME_UNIT.convert(time, time_unit): %s" % short(val), b.where(), detail=short(val))
            if ok:
                q = val[2][1]
                okq = is_conv_to(q, "time::Time", ["distance::Distance", "speed::Speed"]) and q[2] == (("tuple", (d, s)),)
                ctx.check(okq, "create_time:quotient-args", "time is not built from (distance_in_base, speed_in_base): %s" % short(q), b.where(), detail=short(q))
    ctx.check(n_ok >= 1, "create_time:has-ok-path", "no Ok return found", b.where())
    quotient_impl(ctx, "<%stime::Time as std::convert::From<(%sdistance::Distance, %sspeed::Speed)>>::from" % (U, U, U), 0, 1, "Time::from((d,s))=d/s")
    # ---- create_speed(time, time_unit, distance, distance_unit, speed_unit)
    b = F.need(U + "builders::create_speed")
    t = nosite(("call", U + "time_unit::TimeUnit::convert", (("arg", 2), ("arg", 1), item("builders::BASE_TIME_UNIT")), 0))
    need = {("Lt", item("time::Time::ZERO"), t)}
    n_ok = 0
    for p in enumerate_paths(b):
        if p.end != "return":
            continue
        rt = deep_strip(path_return_term(b, p))
        if result_variant(rt) == "Ok":
            n_ok += 1
            facts = path_facts(p)
            ctx.check(need <= facts, "create_speed:guard", "an Ok result is reachable without the guard `time > 0` on the base-unit value", b.where())
            val = nosite(agg_payload(rt))
            ok = val[0] == "call" and val[1] == U + "speed_unit::SpeedUnit::convert" and val[2][0] == item("builders::BASE_SPEED_UNIT") and val[2][2] == ("arg", 5)
            ctx.check(ok, "create_speed:final-conversion", "result is not BASE_SPEED_UNIT.convert(speed, speed_unit): %s" % short(val), b.where(), detail=short(val))
            if ok:
                q = val[2][1]
                okq = is_conv_to(q, "speed::Speed", ["distance::Distance", "time::Time"]) and q[2] == (("tuple", (d, t)),)
                ctx.check(okq, "create_speed:quotient-args", "speed is not built from (distance_in_base, time_in_base): %s" % short(q), b.where(), detail=short(q))
    ctx.check(n_ok >= 1, "create_speed:has-ok-path", "no Ok return found", b.where())
    quotient_impl(ctx, "<%sspeed::Speed as std::convert::From<(%sdistance::Distance, %stime::Time)>>::from" % (U, U, U), 0, 1, "Speed::from((d,t))=d/t")
    # ---- create_energy(rate, rate_unit, distance, distance_unit) -> (energy, unit)
    b = F.need(U + "builders::create_energy")
    rt = nosite(deep_strip(Terms(b).return_term()))
    ok = result_variant(rt) == "Ok"
    pay = agg_payload(rt) if ok else None
    ok = ok and pay[0] == "tuple" and len(pay[1]) == 2
    ctx.check(ok, "create_energy:shape", "does not return Ok((energy, unit)): %s" % short(rt), b.where())
    if ok:
        e, u = pay[1]
        rdu = ("call", U + "energy_rate_unit::EnergyRateUnit::associated_distance_unit", (("arg", 2),))
        reu = ("call", U + "energy_rate_unit::EnergyRateUnit::associated_energy_unit", (("arg", 2),))
        ctx.check(u == reu, "create_energy:unit", "returned unit is not energy_rate_unit.associated_energy_unit(): %s" % short(u), b.where(), detail=short(u))
        cd = ("call", U + "distance_unit::DistanceUnit::convert", (("arg", 4), ("arg", 3), rdu))
        okq = is_conv_to(e, "energy::Energy", ["energy_rate::EnergyRate", "distance::Distance"]) and e[2] == (("tuple", (("arg", 1), cd)),)
        ctx.check(okq, "create_energy:product-args", "energy is not built from (rate, distance converted to the rate's distance unit): %s" % short(e), b.where(), detail=short(e))
    quotient_impl(ctx, "<%senergy::Energy as std::convert::From<(%senergy_rate::EnergyRate, %sdistance::Distance)>>::from" % (U, U, U), 0, 1, "Energy::from((r,d))=r*d", op="Mul")
    # ---- thin wrappers pass their arguments through in order
    for w, target, n in (("time::Time::create", "builders::create_time", 5), ("speed::Speed::create", "builders::create_speed", 5), ("energy::Energy::create", "builders::create_energy", 4)):
        wb = F.need(U + w)
        rt = nosite(deep_strip(Terms(wb).return_term()))
        ok = rt[0] == "call" and rt[1] == U + target and rt[2] == tuple(("arg", i) for i in range(1, n + 1))
        ctx.check(ok, "wrapper:%s" % w, "wrapper does not forward its arguments in order: %s" % short(rt), wb.where(), detail=short(rt))


def S0(ctx):
    common.S0_ops(ctx, "C09.S0")


def R5_conversion_sites(ctx):
    """a conversion agrees with the physical factor only when it is asked the right way round: at the comparison of a vehicle
    dimension with a restriction the receiver is the value's own unit and the argument the unit it is compared in (shared with
    C04.R3; round 7: the per-axle arm converting the *limit* with the vehicle's unit as receiver and the restriction's as target)"""
    from props.C04 import R3_predicates
    R3_predicates(ctx)


RULES = [R1_R2_tables, R3_associated, R4_constructors, S0, R5_conversion_sites]
