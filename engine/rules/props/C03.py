"""C03 — reported state and costs along a route are the true sums over its edges."""
from core import *
import astar
import common

EXPLANATION = (
    "C03: an edge step applies the access update and then the traversal update to one copy of the parent's state, prices access on "
    "(parent state, state after access) and the edge on (parent state, final state) with the travel-ordered edge pair in both directions; "
    "unit typestate on the whole traversal/access/state path (every quantity is added, set, converted and compared in the unit it is "
    "expressed in; get converts feature unit -> caller unit, set converts caller unit -> feature unit, add = get + value, set with the same "
    "name and unit); one slot per feature name; the turn table partitions [-180,180] into disjoint, symmetric classes and the heading "
    "difference is wrapped; delays are looked up for (source edge, destination edge) of the trajectory; the route summary and cost are "
    "computed from the last edge's result state with the query's own models. Not decided: float sums, monotonicity on concrete inputs."
)

M = "routee_compass_core::model::"
ET = astar.A + "edge_traversal::EdgeTraversal"
G = M + "network::graph::Graph::"
SM = M + "state::state_model::StateModel"


def R1_edge_step(ctx):
    """C03.R1 edge step = access then traversal on a copy of the parent state"""
    F = ctx.F
    ctx.rule("C03.R1", "forward/reverse_traversal: result_state = copy of prev_state; access_edge then traverse_edge on that same vector; access_cost(e1, e2, prev_state, state after access) is taken between them; traversal_cost(edge, prev_state, final state) after; trajectories in travel order", floor=22)
    for fn in ("forward_traversal", "reverse_traversal"):
        b = F.need(ET + "::" + fn)
        tm = Terms(b)
        acc = [c for c in b.calls() if c.func.get("method") == "access_edge"]
        trv = [c for c in b.calls() if c.func.get("method") == "traverse_edge"]
        ac = [c for c in b.calls() if c.callee == M + "cost::cost_model::CostModel::access_cost"]
        tc = [c for c in b.calls() if c.callee == M + "cost::cost_model::CostModel::traversal_cost"]
        if not (len(acc) == len(trv) == len(ac) == len(tc) == 1):
            ctx.bad(fn + ":calls", "expected one access_edge, traverse_edge, access_cost and traversal_cost call each (found %d/%d/%d/%d)" % (len(acc), len(trv), len(ac), len(tc)), b.where())
            continue
        acc, trv, ac, tc = acc[0], trv[0], ac[0], tc[0]
        # one state vector
        st_acc, st_trv = root_local(b, acc.args[2]), root_local(b, trv.args[2])
        ctx.check(st_acc is not None and st_acc == st_trv, fn + ":one-state", "access_edge and traverse_edge do not update the same state vector", trv.where())
        st_ac, st_tc = root_local(b, ac.args[4]), root_local(b, tc.args[3])
        ctx.check(st_ac == st_acc and st_tc == st_acc, fn + ":priced-state", "access/traversal costs are not priced on the updated state vector", tc.where())
        # it is a copy of prev_state (arg3)
        init = [d for d in b.defs.get(st_acc, []) if not d[2]]
        okc = len(init) == 1
        if okc:
            bb, pos, _ = init[0]
            t = tm.call_term(b.blocks[bb]["term"], bb) if pos == "term" else tm.rvalue(b.blocks[bb]["stmts"][pos]["rv"], bb, pos)
            okc = unmut(deep_strip(t)) == ("arg", 3)
        ctx.check(okc, fn + ":copy-of-parent-state", "the updated vector is not initialised as a copy of prev_state", b.where())
        # the returned traversal carries that vector
        ets = [(bb, pos, s) for bb, blk in enumerate(b.blocks) for pos, s in enumerate(blk["stmts"]) if s["k"] == "assign" and s["rv"]["k"] == "agg" and s["rv"].get("adt") == ET]
        okr = len(ets) == 1
        if okr:
            bb, pos, s = ets[0]
            names = s["rv"]["fnames"]
            okr = root_local(b, s["rv"]["fields"][names.index("result_state")]) == st_acc
            eid = deep_strip(tm.operand(s["rv"]["fields"][names.index("edge_id")], bb, pos))
            ctx.check(eid == ("arg", 1), fn + ":edge-id", "the returned edge_id is not the traversed edge: %s" % short(eid), b.where(bb))
        ctx.check(okr, fn + ":result-state", "the returned result_state is not the updated vector", b.where())
        # order by dominance: access_edge < access_cost < traverse_edge < traversal_cost
        ctx.check(b.dominates(acc.bb, ac.bb), fn + ":access-before-access-cost", "access cost is not computed after the access update", ac.where())
        ctx.check(ac.bb not in b.reachable(start=trv.bb) and trv.bb in b.reachable(start=ac.bb), fn + ":access-cost-before-traversal", "access cost is computed on a state that already contains the traversal update", ac.where())
        ctx.check(acc.bb not in b.reachable(start=trv.bb) and trv.bb in b.reachable(start=acc.bb), fn + ":access-before-traversal", "the traversal update is applied before the access update", trv.where())
        ctx.check(b.dominates(trv.bb, tc.bb), fn + ":traversal-before-total", "the edge total is priced before the traversal update", tc.where())
        # prev states
        ctx.check(deep_strip(tm.operand(ac.args[3], ac.bb)) == ("arg", 3) and deep_strip(tm.operand(tc.args[2], tc.bb)) == ("arg", 3), fn + ":priced-from-parent-state", "costs are not priced from prev_state", tc.where())
        # trajectories
        graph = ("field", ("arg", 4), "directed_graph")
        trip = ("call", G + "edge_triplet", (graph, ("arg", 1)))
        other = ("call", G + "get_edge", (graph, ("arg", 2)))  # Option payload stripped
        tr_args = proj_simplify(nosite(deep_strip(tm.operand(trv.args[1], trv.bb))))
        ctx.check(tr_args == trip, fn + ":traversal-trajectory", "traverse_edge is not given edge_triplet(this edge): %s" % short(tr_args)[:120], trv.where())
        at = nosite(deep_strip(tm.operand(acc.args[1], acc.bb)))
        f = lambda i: ("field", trip, str(i))
        if fn == "forward_traversal":
            want = ("tuple", (("call", G + "get_vertex", (graph, ("field", other, "src_vertex_id"))), other, f(0), f(1), f(2)))
            want_cost = (other, f(1))
        else:
            want = ("tuple", (f(0), f(1), f(2), other, ("call", G + "get_vertex", (graph, ("field", other, "dst_vertex_id")))))
            want_cost = (f(1), other)
        ctx.check(at == want, fn + ":access-trajectory", "access trajectory is not (v1,e1,v2,e2,v3) in travel order: %s" % short(at)[:260], acc.where(), detail=short(want)[:160])
        ce = (nosite(deep_strip(tm.operand(ac.args[1], ac.bb))), nosite(deep_strip(tm.operand(ac.args[2], ac.bb))))
        ctx.check(ce == want_cost, fn + ":access-cost-edges", "access_cost is not priced for (earlier edge, later edge): (%s, %s)" % (short(ce[0])[:80], short(ce[1])[:80]), ac.where())
        te = nosite(deep_strip(tm.operand(tc.args[1], tc.bb)))
        ctx.check(te == f(1), fn + ":total-edge", "traversal_cost is not priced for the traversed edge", tc.where())
        # access only when there is a neighbouring edge
        gate = None
        for sbb, dt, names, t in switches(b, tm):
            d_ = nosite(deep_strip(dt))
            # (Some/None of `opt.map(f)` is Some/None of opt)
            while d_[0] == "discr" and d_[1][0] == "call" and re.search(r"Option::<T>::(map|copied|cloned|as_ref)$", d_[1][1].split("{")[0]) and d_[1][2]:
                d_ = ("discr", d_[1][2][0])
            if d_ == ("discr", ("arg", 2)) and names and "Some" in names.values():
                gate = (sbb, switch_target(t, names, "Some"))
        ctx.check(gate is not None and b.dominates(gate[1], acc.bb) and not b.dominates(gate[1], trv.bb), fn + ":access-iff-neighbour", "access update is not applied exactly when a neighbouring edge exists (and traversal always)", acc.where())


def R2_units(ctx):
    """C03.R2 unit-tag agreement"""
    sel = lambda fn: (fn.startswith("<" + M + "traversal::default::") or fn.startswith("<" + M + "access::default::") or fn.startswith(M + "access::default::") or fn.startswith(M + "traversal::default::") or fn.startswith(SM + "::") or fn.startswith(M + "unit::builders::")) and "::test" not in fn
    common.unit_rule(ctx, "C03.R2", "unit typestate on the traversal / access / state-model path: each (quantity, unit) pair names the unit the quantity is expressed in; convert is applied from the value's own unit; state writes are in the feature's stored unit", sel, floor=28)
    # add_X = get_X(name, from_unit) + value, set_X(name, .., from_unit) with the same name and unit
    F = ctx.F
    ctx.rule("C03.R2b", "StateModel::add_{distance,time,energy}(state, name, v, unit) = set_X(state, name, get_X(state, name, unit) + v, unit)", floor=3)
    for q in ("distance", "time", "energy"):
        b = F.need(SM + "::add_" + q)
        tm = Terms(b)
        sets = b.calls_to(SM + "::set_" + q)
        ok = len(sets) == 1
        got = None
        if ok:
            args = [nosite(deep_strip(tm.operand(x, sets[0].bb))) for x in sets[0].args]
            getc = ("call", SM + "::get_" + q, (("arg", 1), unmut(args[1]), ("arg", 3), ("arg", 5)))
            A = Arith(F, {("arg", 4): "v"})
            A.symbols[getc] = "g"
            got = A.ev(unmut(args[3]))
            ok = args[0] == ("arg", 1) and unmut(args[1]) == ("arg", 2) and args[2] == ("arg", 3) and args[4] == ("arg", 5) and got.equals(Ratio(Poly.sym("g")) + Ratio(Poly.sym("v")))
        ctx.check(ok, "add_" + q, "add_%s is not set(name, get(name, unit) + value, unit) on the same state/name/unit (value: %r)" % (q, got), b.where(), detail=repr(got))


def R3_one_slot(ctx):
    """C03.R3 one slot per name"""
    F = ctx.F
    ctx.rule("C03.R3", "get_state_variable and update_state index the vector with CompactOrderedHashMap::get_index(name) of the same name; update_state writes only state[index]", floor=4)
    g = F.need(SM + "::get_state_variable")
    rows = [r for r in table(g) if r.end == "return" and result_variant(r.ret) == "Ok"]
    idx = ("call", "routee_compass_core::util::compact_ordered_hash_map::CompactOrderedHashMap::<K, V>::get_index", (("field", ("arg", 1), "0"), ("arg", 3)))
    ok = len(rows) >= 1 and all(agg_payload(r.ret) == ("call", "std::slice::<impl [T]>::get", (("arg", 2), idx)) for r in rows)
    ctx.check(ok, "get:index", "get_state_variable is not state[get_index(name)]: %s" % [short(r.ret)[:160] for r in rows][:1], g.where(), detail="state.get(self.0.get_index(name))")
    u = F.need(SM + "::update_state")
    tm = Terms(u)
    # all writes into *state go through state[index] with index = get_index(name)
    writes = []
    for bb, blk in enumerate(u.blocks):
        for pos, s in enumerate(blk["stmts"]):
            if s["k"] == "assign" and s["place"]["l"] == 2 and s["place"]["p"]:
                writes.append((bb, pos, s))
    idxm = [c for c in u.calls() if c.callee and c.callee.endswith("::index_mut") or (c.callee and c.callee.endswith("get_mut"))]
    sites = 0
    for bb, pos, s in writes:
        ix = [e for e in s["place"]["p"] if e["k"] == "index"]
        okw = len(ix) == 1 and nosite(deep_strip(tm.local(ix[0]["l"], bb, pos))) == nosite(idx)
        ctx.check(okw, "update:write-slot", "a write into the state vector is not at get_index(name)", u.where(line=s["line"]))
        sites += 1
    for c in idxm:
        v = nosite(deep_strip(tm.operand(c.args[1], c.bb)))
        base = root_local(u, c.args[0])
        if base == 2:
            ctx.check(v == nosite(idx), "update:slot", "state is indexed mutably with %s, expected get_index(name)" % short(v), c.where())
            sites += 1
    ctx.check(sites >= 1, "update:has-write", "update_state has no recognisable write to state[index]", u.where())
    # the index is range checked and a miss is an Err
    oor = [r for r in table(u, max_paths=100000) if r.end == "return" and is_err_value(r.ret)]
    ctx.check(len(oor) >= 1, "update:errors", "update_state has no Err path for an unknown name / out-of-range index", u.where())


def intervals_of(rows, var=("arg", 1), lo=-40000, hi=40000):
    """per row: (lo, hi) of integer values of `var` consistent with the path's comparison facts, or None"""
    out = []
    for r in rows:
        l, h = lo, hi
        feasible = True
        for (op, a, b) in r.facts:
            ca = a[2] if a[0] == "const" and isinstance(a[2], int) else None
            cb = b[2] if b[0] == "const" and isinstance(b[2], int) else None
            if a == var and cb is not None:
                if op == "Le":
                    h = min(h, cb)
                elif op == "Lt":
                    h = min(h, cb - 1)
                elif op == "Eq":
                    l, h = max(l, cb), min(h, cb)
            elif b == var and ca is not None:
                if op == "Le":
                    l = max(l, ca)
                elif op == "Lt":
                    l = max(l, ca + 1)
                elif op == "Eq":
                    l, h = max(l, ca), min(h, ca)
            else:
                feasible = None  # a fact we cannot read: keep the interval but mark
        out.append((l, h) if l <= h else None)
    return out


MIRROR = {"NoTurn": "NoTurn", "UTurn": "UTurn", "SlightRight": "SlightLeft", "SlightLeft": "SlightRight", "Right": "Left", "Left": "Right", "SharpRight": "SharpLeft", "SharpLeft": "SharpRight"}


def R4_turns(ctx):
    """C03.R4 turn classification"""
    F = ctx.F
    T = M + "access::default::turn_delays::"
    ctx.rule("C03.R4", "Turn::from_angle partitions [-180,180] into disjoint classes, symmetric under negation (left/right mirrored), Err outside; bearing_to_destination = dest.start - self.end wrapped into [-180,180]; end_heading falls back to arrival; get_delay uses (e1, e2) of the trajectory and the table's own unit", floor=10)
    b = F.need(T + "turn::Turn::from_angle")
    rows = [r for r in table(b, max_paths=200000) if r.end == "return"]
    ivs = intervals_of(rows)
    cls = {}
    for r, iv in zip(rows, ivs):
        if iv is None:
            continue
        if result_variant(r.ret) == "Ok":
            v = agg_payload(r.ret)
            name = v[2] if v[0] == "agg" else short(v)
        else:
            name = "Err"
        for x in range(max(iv[0], -400), min(iv[1], 400) + 1):
            cls.setdefault(x, set()).add(name)
    amb = [x for x, s in cls.items() if len(s) > 1]
    ctx.check(not amb, "disjoint", "angles with more than one class: %s" % amb[:5], b.where(), detail="each angle has one class")
    gaps = [x for x in range(-180, 181) if cls.get(x, {"Err"}) == {"Err"} or x not in cls]
    ctx.check(not gaps, "covers[-180,180]", "angles in [-180,180] that are rejected or unclassified: %s" % gaps[:8], b.where(), detail="361 angles classified")
    outside = [x for x in list(range(-400, -180)) + list(range(181, 401)) if cls.get(x, {"Err"}) != {"Err"}]
    ctx.check(not outside, "err-outside", "angles outside [-180,180] that are classified: %s" % outside[:5], b.where())
    asym = [x for x in range(0, 181) if x in cls and -x in cls and len(cls[x]) == 1 and len(cls[-x]) == 1 and MIRROR.get(next(iter(cls[x]))) != next(iter(cls[-x]))]
    ctx.check(not asym, "symmetric", "class(-a) is not the mirror image of class(a) for a in %s" % asym[:6], b.where(), detail="left/right mirrored")
    ctx.check(cls.get(0) == {"NoTurn"} and cls.get(180) == {"UTurn"} and cls.get(90) == {"Right"} and cls.get(-90) == {"Left"}, "anchors", "0 -> %s, 180 -> %s, 90 -> %s, -90 -> %s" % (cls.get(0), cls.get(180), cls.get(90), cls.get(-90)), b.where(), detail="0:NoTurn 90:Right -90:Left 180:UTurn")
    variants = {v["name"] for v in F.adts[T + "turn::Turn"]["variants"]}
    used = {n for s in cls.values() for n in s} - {"Err"}
    ctx.check(used == variants == set(MIRROR), "all-classes-used", "turn classes %s vs classified %s" % (sorted(variants), sorted(used)), b.where())
    # bearing
    hb = F.need(T + "edge_heading::EdgeHeading::bearing_to_destination")
    hrows = [r for r in table(hb) if r.end == "return"]
    d0 = None
    A = Arith(F)
    st = ("call", T + "edge_heading::EdgeHeading::start_heading", (("arg", 2),))
    en = ("call", T + "edge_heading::EdgeHeading::end_heading", (("arg", 1),))
    A.symbols = {st: "s", en: "e"}
    base = Ratio(Poly.sym("s")) - Ratio(Poly.sym("e"))
    seen = set()
    okb = True
    for r in hrows:
        got = A.ev(r.ret)
        off = got - base
        if not (off.p.is_const() and off.q.is_const()):
            okb = False
            continue
        k = int(off.p.const_value() / off.q.const_value())
        # facts on `angle` in this path
        facts = set()
        for (op, a, bb_) in r.facts:
            for side, other in ((a, bb_), (bb_, a)):
                if other[0] == "const" and isinstance(other[2], int) and A.ev(side).equals(base):
                    facts.add((op, side is a, other[2]))
        seen.add(k)
        if k == -360:
            okb = okb and ("Lt", False, 180) in facts  # 180 < angle
        elif k == 360:
            okb = okb and ("Lt", True, -180) in facts  # angle < -180
        elif k == 0:
            okb = okb and (("Le", True, 180) in facts and ("Le", False, -180) in facts)
        else:
            okb = False
    ctx.check(okb and seen == {0, 360, -360}, "bearing:wrapped-difference", "bearing is not (dest.start - self.end) with -360 when > 180 and +360 when < -180 (offsets seen %s)" % sorted(seen), hb.where(), detail="start(dest) - end(self), wrapped")
    eh = F.need(T + "edge_heading::EdgeHeading::end_heading")
    er = {r.sel.get(("field", ("arg", 1), "departure_heading")): r.ret for r in table(eh) if r.end == "return"}
    DEP, ARR = ("field", ("arg", 1), "departure_heading"), ("field", ("arg", 1), "arrival_heading")
    okeh = er.get("Some") == DEP and er.get("None") == ARR
    if not okeh:
        # the same choice through a combinator: departure_heading.unwrap_or(arrival_heading) / map_or / unwrap_or_else
        raw_ = nosite(Terms(eh).return_term())
        okeh = canon_default(raw_) == ("default", DEP, ARR) or norm_adaptors(F, raw_) == ("default", DEP, ARR)
    ctx.check(okeh, "end-heading", "end_heading is not departure_heading or else arrival_heading", eh.where())
    sh = F.need(T + "edge_heading::EdgeHeading::start_heading")
    ctx.check(nosite(deep_strip(Terms(sh).return_term())) == ("field", ("arg", 1), "arrival_heading"), "start-heading", "start_heading is not arrival_heading", sh.where())
    # get_delay
    gd = F.need(T + "turn_delay_access_model_engine::TurnDelayAccessModelEngine::get_delay")
    oks = [r for r in table(gd) if r.end == "return" and result_variant(r.ret) == "Ok"]
    gh = lambda i: ("call", T + "turn_delay_access_model_engine::get_headings", (("field", ("arg", 1), "edge_headings"), ("field", ("field", ("arg", 2), str(i)), "edge_id")))
    tab = ("variant", ("field", ("arg", 1), "turn_delay_model"), "TabularDiscrete")
    want = ("tuple", (("call", "std::collections::HashMap::<K, V, S, A>::get", (("field", tab, "table"), ("call", T + "turn::Turn::from_angle", (("call", hb.path, (gh(1), gh(3))),)))), ("field", tab, "time_unit")))
    ctx.check(len(oks) >= 1 and all(agg_payload(r.ret) == want for r in oks), "get-delay", "get_delay is not (table[class(bearing(headings[e1], headings[e2]))], table.time_unit): %s" % [short(agg_payload(r.ret))[:200] for r in oks][:1], gd.where(), detail="(table[turn(e1->e2)], time_unit)")
    gb = F.need(T + "turn_delay_access_model_engine::get_headings")
    oks = [r for r in table(gb) if r.end == "return" and result_variant(r.ret) == "Ok"]
    okg = len(oks) >= 1 and all(agg_payload(r.ret) == ("call", "std::slice::<impl [T]>::get", (("arg", 1), ("call", M + "network::edge_id::EdgeId::as_usize", (("arg", 2),)))) for r in oks)
    ctx.check(okg, "headings-by-edge-id", "headings are not looked up by the edge id", gb.where())
    # access model adds the delay to its time feature
    am = F.need("<%sturn_delay_access_model::TurnDelayAccessModel as %saccess::access_model::AccessModel>::access_edge" % (T, M))
    tm = Terms(am)
    adds = am.calls_to(SM + "::add_time")
    oka = len(adds) == 1
    if oka:
        args = [nosite(deep_strip(tm.operand(x, adds[0].bb))) for x in adds[0].args]
        dl = ("call", gd.path, (("field", ("arg", 1), "engine"), ("arg", 2)))
        oka = unmut(args[1]) == ("arg", 3) and args[2] == ("field", ("field", ("arg", 1), "engine"), "time_feature_name") and args[3] == ("field", dl, "0") and args[4] == ("field", dl, "1") and args[0] == ("arg", 4)
    ctx.check(oka, "access-adds-delay", "access_edge does not add get_delay(trajectory) to the engine's time feature in the delay's own unit", am.where())


def R5_summary(ctx):
    """C03.R5 summary = state after the last edge"""
    F = ctx.F
    ctx.rule("C03.R5", "the traversal output plugin computes traversal_summary and cost from route.last().result_state with the state/cost model of the query's own search instance; an empty route is an error", floor=4)
    P = "routee_compass::plugin::output::default::traversal::plugin::"
    cands = [b for p, b in F.bodies.items() if p.startswith(P) and b.kind in ("fn", "closure", "assocfn")]
    ser_state = []
    ser_cost = []
    for b in cands:
        tm = Terms(b)
        for c in b.calls():
            if c.callee == SM + "::serialize_state":
                ser_state.append((b, tm, c))
            if c.callee == M + "cost::cost_model::CostModel::serialize_cost":
                ser_cost.append((b, tm, c))
    ctx.check(len(ser_state) >= 1 and len(ser_cost) >= 1, "found", "summary/cost serialisation not found in the traversal plugin (%d/%d)" % (len(ser_state), len(ser_cost)), None)
    for what, lst, fld in (("summary", ser_state, "state_model"), ("cost", ser_cost, "cost_model")):
        for b, tm, c in lst:
            st = nosite(deep_strip(tm.operand(c.args[1], c.bb)))
            lasts = [x for x in calls_in(st) if x[1] == "std::slice::<impl [T]>::last"]
            ok = st[0] == "field" and st[2] == "result_state" and len(lasts) == 1
            ctx.check(ok, "%s:last-edge-state" % what, "%s is not computed from route.last().result_state: %s" % (what, short(st)[:160]), c.where(), detail=short(st)[:100])
            recv = nosite(deep_strip(tm.operand(c.args[0], c.bb)))
            okm = recv[0] == "field" and recv[2] == fld and not contains(recv, lambda s: s[0] == "field" and s[2] == "search_app")
            ctx.check(okm, "%s:query-model" % what, "%s is not serialised with the search instance's %s: %s" % (what, fld, short(recv)[:120]), c.where(), detail=short(recv)[:80])
            # empty route => Err : last() goes through ok_or / ok_or_else
            raw = tm.operand(c.args[1], c.bb)
            guards = [x for x in calls_in(raw) if re.search(r"Option::<T>::ok_or(_else)?$", x[1])]
            ctx.check(bool(guards), "%s:empty-route=>Err" % what, "an empty route is not turned into an error before reading the last edge", c.where())


def R6_edge_cost_formula(ctx):
    """C03.R6 each edge's cost is the weighted, rated change of state (shared with C07.R4)"""
    from props.C07 import R4_formula
    R4_formula(ctx, "C03.R6")


def R7_reorient(ctx):
    """C03.R7 the reverse half of a via-route is re-traversed from the forward half's final state (shared with C01.R5)"""
    from props.C01 import R5_reorient
    R5_reorient(ctx, "C03.R7")


def R8_declared_features(ctx):
    """the values are reported in the units / start from the initial values that were declared last (configuration, then query):
    the state model's construction and extension (shared with C11.R4)"""
    from props.C11 import R4_state_model
    R4_state_model(ctx)


def R9_synthetic_destination_state(ctx):
    """C03.R9 the zero-cost destination edge of an edge-oriented route repeats the state at the end of that same route"""
    F = ctx.F
    ctx.rule("C03.R9", "edge-oriented wrappers append the destination edge with zero cost and the state reached just before it: per route, route.last().result_state of the route it is pushed to (k-shortest-path wrapper); the search tree's branch at src(destination edge) (A* wrapper, one route) — the traversal summary is read from route.last() (C03.R5), so any other state makes the reported totals differ from the sums over the route's edges", floor=2)
    A_ = "routee_compass_core::algorithm::search::"
    ETP = A_ + "edge_traversal::EdgeTraversal"
    kb = F.need(A_ + "search_algorithm::run_edge_oriented")
    tm = Terms(kb)
    pushes = [c for c in kb.calls() if c.callee and c.callee.startswith("std::vec::Vec::<T, A>::push")]
    n = 0
    for c in pushes:
        v = clean(tm.operand(c.args[1], c.bb))
        if not (v[0] == "agg" and v[1] == ETP and dict(v[3]).get("edge_id") == ("arg", 2)):
            continue
        n += 1
        recv = clean(tm.operand(c.args[0], c.bb))
        st = dict(v[3]).get("result_state")
        want = ("field", ("call", "std::slice::<impl [T]>::last", (recv,)), "result_state")
        ctx.check(st == want, "ksp:destination-state=own-route-end", "the destination edge appended to a route does not carry the state at the end of that route (route.last().result_state): %s" % short(st)[:160], c.where(), detail="route.last().result_state")
    ctx.check(n == 1, "ksp:destination-edge-site", "expected one push of the destination edge onto the routes of the sub-search, found %d" % n, kb.where())
    ab = F.need(A_ + "a_star::a_star_algorithm::run_a_star_edge_oriented")
    tm2 = Terms(ab)
    m_ = 0
    for c in ab.calls():
        if not (c.callee and c.callee.endswith("::extend")):
            continue
        for q in subterms(clean(tm2.operand(c.args[1], c.bb))):
            if q[0] == "agg" and q[1] == ETP and dict(q[3]).get("edge_id") == ("arg", 2):
                m_ += 1
                st = dict(q[3]).get("result_state")
                ok = st[0] == "field" and st[2] == "result_state" and st[1][0] == "field" and st[1][2] == "edge_traversal" and st[1][1][0] == "call" and st[1][1][1].endswith("::get") and st[1][1][2][1] == ("call", "routee_compass_core::model::network::graph::Graph::src_vertex_id", (("field", ("arg", 5), "directed_graph"), ("arg", 2))) and st[1][1][2][0][0] == "field" and st[1][1][2][0][2] == "tree"
                ctx.check(ok, "a*:destination-state=tree[src(e2)]", "the destination edge of the A* wrapper does not carry the state of the tree's branch at src(destination edge): %s" % short(st)[:160], c.where(), detail="tree.get(src(e2)).edge_traversal.result_state")
    ctx.check(m_ >= 1, "a*:destination-edge-site", "the destination branch of the A* wrapper was not found", ab.where())


def R10_spliced_route_states(ctx):
    """C03.R10 a route spliced from two searches continues the state across the junction"""
    F = ctx.F
    ctx.rule("C03.R10", "a returned route that is spliced from the results of two searches carries states accumulated over the whole route: the second part is re-traversed from the state at the end of the first (single-via: reorient_reverse_route, C03.R7), because every search starts its own states from StateModel::initial_state; Yen's candidates (root path ++ spur route) need the same", floor=2)
    K_ = "routee_compass_core::algorithm::search::ksp::"
    ETF = ET + "::forward_traversal"
    # single-via: the reverse half goes through reorient_reverse_route (whose re-traversal C03.R7 checks)
    sb = F.need(K_ + "single_via_paths_algorithm::run")
    reor = [c for kb in tree_of(F, sb.path) for c in kb.calls() if (c.callee or "").endswith("bidirectional_ops::reorient_reverse_route")]
    ctx.check(len(reor) >= 1, "single-via:reverse-half-re-traversed", "single-via routes are spliced without re-traversing the reverse half from the forward half's final state", sb.where(), detail="reorient_reverse_route(fwd, rev, si)")
    # Yen's: root ++ spur
    yb = F.need(K_ + "yens_algorithm::run")
    ytm = Terms(yb)
    spur = [c for c in yb.calls() if c.callee == astar.A + "search_algorithm::SearchAlgorithm::run_vertex_oriented" and innermost_loop(yb, c.bb) is not None]
    chains = [c for c in yb.calls() if c.callee and itm(c.callee, "chain") and innermost_loop(yb, c.bb) is not None]
    if len(spur) != 1 or len(chains) != 1:
        raise AnchorMissing("spur search / root.chain(spur) in yens_algorithm::run")
    sp = clean(ytm.call_term(spur[0].term, spur[0].bb))
    tail = clean(ytm.operand(chains[0].args[1], chains[0].bb))
    retrav = [c for kb in tree_of(F, yb.path) for c in kb.calls() if c.callee in (ETF, ET + "::reverse_traversal") or (c.callee or "").endswith("bidirectional_ops::reorient_reverse_route")]
    direct = contains(tail, lambda q: q == sp)
    ctx.check(not direct or bool(retrav), "yens_algorithm::run:spur-states-restart", "a candidate is the root path followed by the spur search's own edge traversals, whose states were accumulated from StateModel::initial_state at the spur vertex: the states (and the summary read from route.last()) of every alternative route restart at the spur vertex instead of continuing the root path's totals", chains[0].where(), detail="spur part re-traversed from root.last().result_state")


def R11_cost_vectors_aligned(ctx):
    """the cost of an edge is priced from the slot of the feature it names: CostModel::new lines weights, rates and state indices up position by position (shared with C07.R5)"""
    from props.C07 import R5_weights
    R5_weights(ctx)


def R12_query_overrides(ctx):
    """a query may re-declare a feature (`state_features`): the route then starts from the declared initial value and is reported in
    the declared unit only if the override reaches the state model as it was given — (name, feature) unchanged, through
    StateModel::extend (shared with C11.R5 and C11.R7; round 6: a merge helper that kept the model's unit and the user's raw number)"""
    from props.C11 import R5_overrides, R7_overrides_through_extend
    R5_overrides(ctx)
    R7_overrides_through_extend(ctx)


RULES = [R1_edge_step, R2_units, R3_one_slot, R4_turns, R5_summary, R6_edge_cost_formula, R7_reorient, R8_declared_features, R9_synthetic_destination_state, R10_spliced_route_states, R11_cost_vectors_aligned, R12_query_overrides]
