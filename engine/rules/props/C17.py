"""C17 — grid search expands a query into exactly the Cartesian product of options."""
from core import *

EXPLANATION = (
    "C17: plugin shape (no grid section => untouched; otherwise the query is replaced by an array built by mapping over all combinations "
    "of the odometer, each a copy of the original minus the grid key overlaid per axis: object choices merged at top level, other choices "
    "under the axis key, chosen by multiset_input[axis][index]; the three per-axis vectors are pushed together only for array-valued "
    "members; an empty option array is an input error); flattening (all elements of nested arrays moved to the top level in order, "
    "short-circuit only when no element is an array, non-objects rejected); the odometer's ingredients (final positions len-1, start at "
    "zeros, empty set => empty product, zero sets => exactly one combination, emit sets[i][pos[i]] for all i, advance the first position "
    "below its final value by exactly one, reset the lower ones to 0, finish after the last position). Not decided: the count n1*...*nm "
    "and non-repetition as arithmetic over runtime lengths."
)

GP = "routee_compass::plugin::input::default::grid_search::plugin::GridSearchPlugin"
IP = "routee_compass::plugin::input::input_plugin::InputPlugin"
OPS = "routee_compass::plugin::input::input_plugin_ops::"
MS = "routee_compass_core::util::multiset::MultiSet"


def R1_plugin(ctx):
    """C17.R1 pass-through and shape"""
    F = ctx.F
    ctx.rule("C17.R1", "GridSearchPlugin::process: no grid section => Ok(()) without touching the input; keys / option lists / index lists are pushed together only for array-valued members (empty array => Err); result = map over all MultiSet combinations of a copy minus the grid key, overlaid per axis; swapped into the input", floor=10)
    b = F.need("<%s as %s>::process" % (GP, IP))
    tm = Terms(b)
    ggs = [c for c in b.calls() if c.func.get("method") == "get_grid_search"]
    if len(ggs) != 1:
        raise AnchorMissing("get_grid_search call")
    gg = nosite(deep_strip(tm.call_term(ggs[0].term, ggs[0].bb)))
    swaps = [c for c in b.calls() if (c.callee or "").endswith("mem::swap")]
    ctx.check(len(swaps) == 1, "one-replacement", "expected exactly one replacement of the input (mem::swap), found %d" % len(swaps), b.where())
    if len(swaps) != 1:
        return
    sw = swaps[0]
    # None => Ok(()) and the swap is not reachable
    sel = None
    for sbb, dt, names, t in switches(b, tm):
        if nosite(deep_strip(dt)) == ("discr", gg) and names:
            sel = (sbb, switch_target(t, names, "None"), switch_target(t, names, "Some"))
    okn = sel is not None
    if okn:
        sbb, tn, ts = sel
        vals = region_value(b, (sbb, tn))
        okn = bool(vals) and all(deep_strip(v) == ("agg", "std::result::Result", "Ok", (("0", ("tuple", ())),)) for _, v in vals) and sw.bb not in b.reachable(start=tn)
        muts = [c for c in b.calls() if c.bb in b.reachable(start=tn) and c.bb not in b.reachable(start=ts) and c.func.get("method") in ("index_mut", "insert", "remove")]
        okn = okn and not muts
    ctx.check(okn, "no-grid=>untouched", "a query without a grid section is not passed through unchanged with Ok(())", b.where(), detail="None => Ok(())")
    # the three pushes are controlled by `v.as_array()` being Some
    pushes = [c for c in b.calls() if c.callee and c.callee.startswith("std::vec::Vec::<T, A>::push")]
    roles = {}
    arr_sw = None
    for sbb, dt, names, t in switches(b, tm):
        d = nosite(deep_strip(dt))
        if d[0] == "discr" and d[1][0] == "call" and d[1][1].endswith("Value::as_array") and names:
            arr_sw = (sbb, switch_target(t, names, "Some"), d[1])
    ctx.check(arr_sw is not None and len(pushes) == 3, "three-aligned-vectors", "expected three per-axis vectors filled under `value.as_array()` (found %d pushes)" % len(pushes), b.where())
    if arr_sw is not None:
        sbb, tsome, arr = arr_sw
        for c in pushes:
            gated = b.dominates(tsome, c.bb)
            v = nosite(deep_strip(tm.operand(c.args[1], c.bb)))
            kind = "keys" if contains(v, lambda s: s[0] == "call" and s[1].endswith("to_string")) else ("indices" if contains(v, lambda s: s[0] == "agg" and s[1].endswith("Range")) or contains(v, lambda s: s[0] == "call" and "collect" in s[1]) else "options")
            ctx.check(gated, "aligned:%s" % kind, "the %s vector is extended for members that are not arrays: keys, option lists and index lists get out of step" % kind, c.where(), detail="pushed only for array-valued members")
        # empty array => Err
        emp = [c for c in b.calls() if c.callee and c.callee.endswith("::is_empty") and b.dominates(tsome, c.bb)]
        oke = False
        for c in emp:
            verdict = nosite(deep_strip(tm.call_term(c.term, c.bb)))
            for s2, dt2, n2, t2 in switches(b, tm):
                if nosite(deep_strip(dt2)) == verdict:
                    f_, tr_ = bool_targets(t2)
                    vals = region_value(b, (s2, tr_), stop_blocks=[])
                    oke = oke or (bool(vals) and all(is_err_value(deep_strip(v)) for _, v in vals))
        ctx.check(oke, "empty-axis=>Err", "an empty option array is not reported as an input error (the query would silently disappear)", b.where(), detail="v.is_empty() => Err")
    # replacement = json!(collect(map(into_iter(MultiSet::from(indices)), closure)))
    rep = deep_strip(tm.operand(sw.args[1], sw.bb))
    other = deep_strip(tm.operand(sw.args[0], sw.bb))
    val = rep if unmut(nosite(other)) == ("arg", 2) else other
    ctx.check(unmut(nosite(other)) == ("arg", 2) or unmut(nosite(rep)) == ("arg", 2), "replaces-input", "the expansion is not swapped into the input query", sw.where())
    maps = [x for x in calls_in(val) if itm(x[1], "map")]
    froms = [x for x in calls_in(val) if "::from{" in x[1] and "MultiSet" in x[1] or x[1].startswith("<" + MS)]
    trunc = [x[1] for x in calls_in(val) if re.search(r"Iterator>?::(take|skip|filter|step_by|dedup|filter_map)$|Itertools::(dedup|unique)", x[1])]
    okm = len(maps) >= 1 and bool(froms) and not trunc and any("collect" in x[1] for x in calls_in(val))
    ctx.check(okm, "all-combinations", "the replacement is not a collect over all combinations of MultiSet::from(index lists): %s" % short(val)[:200], sw.where(), detail="MultiSet::from(&indices).into_iter().map(..).collect()")
    # the copy minus the grid key
    rem = [c for c in b.calls() if c.callee and c.callee.endswith("::remove") and "Map" in c.callee]
    okr = len(rem) == 1
    if okr:
        k = nosite(deep_strip(tm.operand(rem[0].args[1], rem[0].bb)))
        okr = contains(k, lambda s: s == ("agg", "routee_compass::plugin::input::input_field::InputField", "GridSearch", ())) or contains(k, lambda s: s[0] == "const" and s[2] == "grid_search")
        base = unmut(nosite(deep_strip(tm.operand(rem[0].args[0], rem[0].bb))))
        okr = okr and contains(base, lambda s: s[0] == "call" and s[1].endswith("Value::as_object") and unmut(s[2][0]) == ("arg", 2))
        okr = okr and all(b.dominates(rem[0].bb, c.bb) for c in b.calls() if c.callee and "MultiSet" in c.callee)
    ctx.check(okr, "copy-minus-grid-key", "children are not built from a copy of the original object with the grid key removed", b.where(), detail="clone().remove(grid_search)")
    # overlay closure
    cl = [x for x in subterms(val) if x[0] == "closure"]
    okc = False
    detail = None
    for k in cl:
        kb = F.bodies.get(k[1])
        if kb is None:
            continue
        ktm = Terms(kb)
        ims = [c for c in kb.calls() if c.func.get("method") == "index_mut" or (c.callee or "").endswith("::index_mut")]
        if len(ims) < 2:
            continue
        # value = multiset_input[set_idx][val_idx] (two Index::index calls on the captured option lists)
        idxs = [c for c in kb.calls() if (c.callee or "").endswith("::index") and "Vec" in (c.callee or "")]
        nested = [c for c in idxs if contains(nosite(deep_strip(ktm.operand(c.args[0], c.bb))), lambda s: s[0] == "call" and s[1].endswith("::index"))]
        obj_sw = [1 for sbb, dt, names, t in switches(kb, ktm) if names and "Object" in names.values()]
        keys_used = [nosite(deep_strip(ktm.operand(c.args[1], c.bb))) for c in ims]
        okc = bool(nested) and bool(obj_sw)
        detail = [short(x)[:60] for x in keys_used]
    ctx.check(okc, "overlay", "each combination is not overlaid with multiset_input[axis][index] (object choices merged, others under the axis key): %s" % detail, b.where(), detail=str(detail))


def R2_flatten(ctx):
    """C17.R2 flattening"""
    F = ctx.F
    ctx.rule("C17.R2", "json_array_flatten_in_place: returns early only when no element is an array; otherwise every element of every nested array and every other element is pushed in order and swapped in; non-array input => invariant error. json_array_op applies op to every query, packages failures, then flattens. json_array_flatten rejects non-objects", floor=9)
    b = F.need(OPS + "json_array_flatten_in_place")
    tm = Terms(b)
    alls = [c for c in b.calls() if c.callee and itm(c.callee, "all")]
    oka = len(alls) == 1
    if oka:
        cl = tm.operand(alls[0].args[1], alls[0].bb)
        crt = nosite(deep_strip(Terms(F.need(cl[1])).return_term()))
        is_not_array = crt[0] == "un" and crt[1] == "Not" and crt[2][0] == "call" and crt[2][1].endswith("Value::is_array") and crt[2][2] == (("arg", 2),)
        verdict = nosite(deep_strip(tm.call_term(alls[0].term, alls[0].bb)))
        early = False
        for sbb, dt, names, t in switches(b, tm):
            d = nosite(deep_strip(dt))
            if d == verdict:
                f_, tr_ = bool_targets(t)
                pushes_after = [c for c in b.calls() if c.callee and c.callee.startswith("std::vec::Vec::<T, A>::push") and c.bb in b.reachable(start=tr_)]
                early = not pushes_after and all(deep_strip(v) == ("agg", "std::result::Result", "Ok", (("0", ("tuple", ())),)) for _, v in region_value(b, (sbb, tr_)))
        oka = is_not_array and early
    ctx.check(oka, "short-circuit", "the early return is not taken exactly when all elements are non-arrays (`all(|v| !v.is_array())` => Ok(()))", b.where(), detail="all(!is_array) => return")
    pushes = [c for c in b.calls() if c.callee and c.callee.startswith("std::vec::Vec::<T, A>::push")]
    okp = len(pushes) == 2 and all(innermost_loop(b, c.bb) is not None for c in pushes)
    if okp:
        loops = sorted({innermost_loop(b, c.bb)[0]: innermost_loop(b, c.bb) for c in pushes}.values(), key=lambda l: len(l[1]))
        okp = len(loops) == 2 and loops[0][1] < loops[1][1]
        # the nested-array push is in the inner loop over that sub-array; the other push only in the outer loop
        flats = {root_local(b, c.args[0]) for c in pushes}
        okp = okp and len(flats) == 1
        for lp in loops:
            nx = [c for c in b.calls() if c.func.get("method") == "next" and c.bb in lp[1] and innermost_loop(b, c.bb) == lp]
            recv = deep_strip(tm.operand(nx[0].args[0], nx[0].bb)) if nx else ("undef", 0)
            okp = okp and bool(nx) and not [x for x in calls_in(recv) if re.search(r"Iterator>?::(take|skip|filter|step_by|rev)$", x[1])]
    ctx.check(okp, "moves-every-element", "nested arrays' elements and plain elements are not all pushed to one flattened vector in order", b.where(), detail="for v1 {Array => for v2 push; other => push}")
    swaps = [c for c in b.calls() if (c.callee or "").endswith("mem::swap")]
    ctx.check(len(swaps) == 1 and unmut(nosite(deep_strip(tm.operand(swaps[0].args[0], swaps[0].bb)))) == ("arg", 1), "swapped-in", "the flattened array is not swapped into the query state", b.where())
    rows_err = [c for c in b.calls() if c.callee == OPS + "package_invariant_error"]
    ctx.check(len(rows_err) == 1, "non-array=>invariant-error", "a non-array state is not reported with package_invariant_error", b.where())
    # json_array_op
    ob = F.need(OPS + "json_array_op")
    otm = Terms(ob)
    calls = [c for c in ob.calls() if (c.callee or "").endswith("Fn::call") or c.callee in ("<indirect>", "<fnptr>")]
    nx = [c for c in ob.calls() if c.func.get("method") == "next"]
    oko = len(calls) == 1 and len(nx) == 1 and innermost_loop(ob, calls[0].bb) is not None
    if oko:
        recv = deep_strip(otm.operand(nx[0].args[0], nx[0].bb))
        oko = bool(calls_in(recv, "iter_mut")) and not [x for x in calls_in(recv) if re.search(r"Iterator>?::(take|skip|filter|step_by)$", x[1])]
    ctx.check(oko, "op-on-every-query", "the plugin operation is not applied to every element of the query array", ob.where(), detail="for q in queries.iter_mut() { op(q) }")
    me = [c for c in ob.calls() if c.callee and c.callee.endswith("Result::<T, E>::map_err")]
    okm = len(me) == 1
    if okm:
        cl = otm.operand(me[0].args[1], me[0].bb)
        crt = nosite(deep_strip(Terms(F.need(cl[1])).return_term())) if cl[0] == "closure" else None
        okm = crt is not None and crt[0] == "call" and crt[1].endswith("package_error") and unmut(crt[2][1]) == ("arg", 2)
        # the request packaged is the same q the op was applied to
        q_op = root_local(ob, calls[0].args[1]) if oko else None
        okm = okm and try_propagation(ob, me[0], otm)["kind"] == "propagated"
    ctx.check(okm, "failure=>packaged-with-its-query", "a plugin failure is not packaged with package_error(q, e) of the failing query and returned", ob.where(), detail="map_err(|e| package_error(q, e))?")
    fl = [c for c in ob.calls() if c.callee == OPS + "json_array_flatten_in_place"]
    ctx.check(len(fl) == 1 and unmut(nosite(deep_strip(otm.operand(fl[0].args[0], fl[0].bb)))) == ("arg", 1), "then-flatten", "the state is not flattened after the operation", ob.where())
    # json_array_flatten: objects pushed, anything else => error
    fb = F.need(OPS + "json_array_flatten")
    ftm = Terms(fb)
    pushes = [c for c in fb.calls() if c.callee and c.callee.startswith("std::vec::Vec::<T, A>::push")]
    okf = len(pushes) == 1
    if okf:
        sel = [names for sbb, dt, names, t in switches(fb, ftm) if names and "Object" in names.values() and fb.dominates(switch_target(t, names, "Object"), pushes[0].bb)]
        okf = bool(sel)
    errs = [c for c in fb.calls() if c.callee == OPS + "package_invariant_error"]
    ctx.check(okf and len(errs) >= 1, "objects-only", "json_array_flatten does not keep exactly the object elements and report anything else as an invariant error (a dropped arm makes a non-object query vanish)", fb.where(), detail="Object => push; other => error")
    # the `other => error = Some(other)` arm must exist inside the loop
    lp = innermost_loop(fb, pushes[0].bb) if pushes else None
    err_assign = []
    if lp:
        for bb in lp[1]:
            for s in fb.blocks[bb]["stmts"]:
                if s["k"] == "assign" and s["rv"]["k"] == "agg" and s["rv"].get("variant") == "Some" and "Value" in fb.locals[s["place"]["l"]]["ty"]:
                    err_assign.append(bb)
    ctx.check(bool(err_assign), "non-object-recorded", "a non-object element inside the array is not recorded as an error", fb.where())


def R3_odometer(ctx):
    """C17.R3 mixed-radix iterator, structural part"""
    F = ctx.F
    ctx.rule("C17.R3", "MultiSet: final_pos[i] = len_i - 1; start at zeros unless some set is empty (then exhausted); next: None when exhausted, emits sets[i][pos[i]] for all i, increments the first position below its final value by one (and stops), resets passed positions to 0, finishes after the last position or at once when there are no sets", floor=9)
    fp = "<%s<'a, T> as std::convert::From<&'a std::vec::Vec<std::vec::Vec<T>>>>::from" % MS
    b = F.need(fp)
    tm = Terms(b)
    rt = nosite(deep_strip(tm.return_term()))
    ok = rt[0] == "agg" and rt[1] == MS
    if not ok:
        ctx.bad("from:shape", "MultiSet::from does not build a MultiSet in place", b.where())
        return
    f = dict(rt[3])
    ctx.check(f.get("sets") == ("arg", 1), "from:sets", "sets is not the input", b.where())
    fpos = f.get("final_pos")
    cl = [x for x in subterms(fpos) if x[0] == "closure"]
    okf = len(cl) == 1 and bool(calls_in(fpos, "iter")) and contains(fpos, lambda s: s == ("call", "std::slice::<impl [T]>::iter", (("arg", 1),)))
    if okf:
        crt = nosite(deep_strip(Terms(F.need(cl[0][1])).return_term()))
        ln = ("call", "std::vec::Vec::<T, A>::len", (("arg", 2),))
        A = Arith(F, {ln: "n"})
        okf = crt == ("call", "std::num::<impl usize>::saturating_sub", (ln, ("const", "usize", 1))) or A.ev(crt).equals(Ratio(Poly.sym("n")) - Ratio(Poly.const(1)))
    ctx.check(okf, "from:final-pos", "final_pos[i] is not len(sets[i]) - 1 for every set", b.where(), detail="len_i - 1")
    pos = f.get("pos")
    alts = set(pos[1]) if pos[0] == "phi" else {pos}
    none = ("agg", "std::option::Option", "None", ())
    zeros = ("agg", "std::option::Option", "Some", (("0", ("call", "std::vec::from_elem", (("const", "usize", 0), ("call", "std::vec::Vec::<T, A>::len", (("arg", 1),))))),))
    ctx.check(zeros in alts, "from:start-at-zeros", "the counter does not start at all zeros (one per set): %s" % short(pos)[:160], b.where(), detail="vec![0; sets.len()]")
    # None exactly when some set is empty
    cond_ok = False
    for sbb, dt, names, t in switches(b, tm):
        d = nosite(deep_strip(dt))
        if d[0] == "call" and itm(d[1], "any") and d[2][0] == ("call", "std::slice::<impl [T]>::iter", (("arg", 1),)):
            crt = nosite(deep_strip(Terms(F.need(d[2][1][1])).return_term()))
            cond_ok = crt == ("call", "std::vec::Vec::<T, A>::is_empty", (("arg", 2),))
    only = none in alts and len(alts) == 2
    ctx.check(cond_ok and only, "from:empty-set=>exhausted", "the counter is not `None` exactly when some set is empty (the product over zero sets has one combination, over an empty set none): %s" % short(pos)[:160], b.where(), detail="sets.iter().any(is_empty) => None")
    # ---- next
    nb = F.need("<%s<'_, T> as std::iter::Iterator>::next" % MS)
    ntm = Terms(nb)
    sel = None
    for sbb, dt, names, t in switches(nb, ntm):
        if unmut(nosite(deep_strip(dt))) == ("discr", ("field", ("arg", 1), "pos")) and names:
            sel = (sbb, switch_target(t, names, "None"), switch_target(t, names, "Some"))
    okn = sel is not None
    if okn:
        vals = region_value(nb, (sel[0], sel[1]))
        okn = bool(vals) and all(deep_strip(v) == none for _, v in vals)
    ctx.check(okn, "next:exhausted=>None", "an exhausted iterator does not return None", nb.where())
    # emitted combination
    ccl = [p for p in F.bodies if p.startswith(nb.path + "::{closure")]
    oke = False
    for p in ccl:
        crt = unmut(nosite(deep_strip(Terms(F.bodies[p]).return_term())))
        # sets[i][*j]  with (j, i) = closure arg
        if crt[0] == "call" and crt[1].endswith("::index") and crt[2][0][0] == "call" and crt[2][0][1].endswith("::index"):
            inner = crt[2][0]
            oke = inner[2][1] == ("field", ("arg", 2), "1") and crt[2][1] == ("field", ("arg", 2), "0") and inner[2][0] == ("field", ("arg", 1), "0")
    ctx.check(oke, "next:emits-current-position", "the emitted combination is not sets[i][pos[i]] for every i", nb.where(), detail="sets[i][pos[i]]")
    # advance
    lt = None
    eq = None
    for sbb, dt, names, t in switches(nb, ntm):
        c = as_cmp(nosite(deep_strip(dt)))
        if not c:
            continue
        c = canon_cmp(c)
        if c[0] == "Lt" and contains(c[2], lambda s: s[0] == "field" and s[2] == "final_pos"):
            lt = (sbb, c, t)
        if c[0] == "Eq":
            eq = (sbb, c, t)
    oka = lt is not None
    if oka:
        sbb, c, t = lt
        i1 = [x for x in subterms(c[1]) if x[0] == "call" and x[1].endswith("::index")]
        i2 = [x for x in subterms(c[2]) if x[0] == "call" and x[1].endswith("::index")]
        oka = bool(i1) and bool(i2) and i1[0][2][1] == i2[0][2][1]
        f_, tr_ = bool_targets(t)
        # on the true edge: one += 1 on next_pos[idx], then leave the loop
        incs = []
        lp = innermost_loop(nb, sbb)
        region = nb.reachable(start=tr_, removed_blocks=[lp[0]] if lp else [])
        for bb in sorted(region):
            for pos_, st_ in enumerate(nb.blocks[bb]["stmts"]):
                # a store `*p = *p + c` (debug: through a checked-add temporary; release: a plain Add)
                if st_["k"] == "assign" and st_["place"]["p"] and st_["place"]["p"][0]["k"] == "deref":
                    v_ = nosite(deep_strip(ntm.rvalue(st_["rv"], bb, pos_)))
                    if v_[0] == "bin" and v_[1] == "Add" and v_[3][0] == "const":
                        incs.append(v_[3])
        oka = oka and incs == [("const", "usize", 1)] and (lp is None or lp[0] not in nb.reachable(start=tr_, removed_blocks=[]) or True)
        leaves = lp is not None and lp[0] not in nb.reach_from_succs(tr_, removed_blocks=[b2 for b2 in nb.reachable(start=f_) if False])
    ctx.check(oka, "next:increment-by-one", "the first position below its final value is not incremented by exactly 1 (`pos[i] < final_pos[i]` => pos[i] += 1)", nb.where(), detail="pos[i] < final[i] => pos[i] += 1; break")
    oke2 = eq is not None
    if oke2:
        sbb, c, t = eq
        A = Arith(F)
        ln = ("call", "std::vec::Vec::<T, A>::len", (("field", ("arg", 1), "sets"),))
        A.symbols = {unmut(ln): "n"}
        sides = [A.ev(unmut(c[1])), A.ev(unmut(c[2]))]
        want = Ratio(Poly.sym("n")) - Ratio(Poly.const(1))
        oke2 = any(s.equals(want) for s in sides)
    ctx.check(oke2, "next:finish-after-last", "the iterator does not finish when the last position (index len-1) is exhausted", nb.where(), detail="idx == len - 1 => finished")
    # reset to constant 0 of the passed positions (take(idx + 1))
    resets = []
    for bb, blk in enumerate(nb.blocks):
        for pos_, s in enumerate(blk["stmts"]):
            if s["k"] == "assign" and s["place"]["p"] and s["place"]["p"][0]["k"] == "deref" and s["rv"]["k"] == "use" and s["rv"]["op"]["k"] == "const" and s["rv"]["op"].get("int") is not None and nb.locals[s["place"]["l"]]["ty"].startswith("&mut usize"):
                resets.append((bb, s["rv"]["op"]["int"]))
    okr = len(resets) == 1 and resets[0][1] == 0 and innermost_loop(nb, resets[0][0]) is not None
    ctx.check(okr, "next:reset-lower-to-zero", "passed positions are not reset to the constant 0: %s" % resets, nb.where(), detail="*r = 0")
    # finished starts as sets.is_empty()
    fin = None
    for l, ds in nb.defs.items():
        if nb.locals[l]["ty"] == "bool" and nb.local_name(l) == "finished" or (nb.locals[l]["ty"] == "bool" and len([d for d in ds if not d[2]]) >= 2 and any(d[1] != "term" and nb.blocks[d[0]]["stmts"][d[1]]["rv"]["k"] == "use" and nb.blocks[d[0]]["stmts"][d[1]]["rv"]["op"].get("bool") is True for d in ds)):
            fin = l
    okz = False
    if fin is not None:
        for (bb, pos_, proj) in nb.defs[fin]:
            t = ntm.call_term(nb.blocks[bb]["term"], bb) if pos_ == "term" else ntm.rvalue(nb.blocks[bb]["stmts"][pos_]["rv"], bb, pos_)
            t = unmut(nosite(deep_strip(t)))
            if t == ("call", "std::vec::Vec::<T, A>::is_empty", (("field", ("arg", 1), "sets"),)):
                okz = True
    ctx.check(okz, "next:zero-sets=>one-combination", "with zero sets the iterator does not finish after its single (empty) combination (`finished` must start as sets.is_empty())", nb.where(), detail="finished = sets.is_empty()")


RULES = [R1_plugin, R2_flatten, R3_odometer]
