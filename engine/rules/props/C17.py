"""C17 — grid search expands a query into exactly the Cartesian product of options."""
from core import *

EXPLANATION = (
    "C17: plugin shape (no grid section => untouched; otherwise the query is replaced by an array built by mapping over all combinations "
    "of the odometer, each a copy of the original minus the grid key overlaid per axis: object choices merged at top level, other choices "
    "under the axis key, chosen by multiset_input[axis][index]; the three per-axis vectors are pushed together only for array-valued "
    "members; an empty option array is an input error); flattening (all elements of nested arrays moved to the top level in order, "
    "short-circuit only when no element is an array, non-objects rejected); the odometer's ingredients (final positions len-1, start at "
    "zeros, empty set => empty product, zero sets => exactly one combination, emit sets[i][pos[i]] for all i, advance the first position "
    "below its final value by exactly one, reset the lower ones to 0, finish after the last position). Not decided: the count n1*...*nm "
    "and non-repetition as arithmetic over runtime lengths."
)

GP = "routee_compass::plugin::input::default::grid_search::plugin::GridSearchPlugin"
IP = "routee_compass::plugin::input::input_plugin::InputPlugin"
OPS = "routee_compass::plugin::input::input_plugin_ops::"
MS = "routee_compass_core::util::multiset::MultiSet"


def R1_plugin(ctx):
    """C17.R1 pass-through and shape"""
    F = ctx.F
    ctx.rule("C17.R1", "GridSearchPlugin::process: no grid section => Ok(()) without touching the input; keys / option lists / index lists are pushed together only for array-valued members (empty array => Err); result = map over all MultiSet combinations of a copy minus the grid key, overlaid per axis; swapped into the input", floor=10)
    b = F.need("<%s as %s>::process" % (GP, IP))
    tm = Terms(b)
    ggs = [c for c in b.calls() if c.func.get("method") == "get_grid_search"]
    if len(ggs) != 1:
        raise AnchorMissing("get_grid_search call")
    gg = nosite(deep_strip(tm.call_term(ggs[0].term, ggs[0].bb)))
    # the one place where the input query is replaced: mem::swap(&mut replacement, input) or `*input = replacement`
    swaps = [c for c in b.calls() if (c.callee or "").endswith("mem::swap") or (c.callee or "").endswith("mem::replace")]
    assigns = []
    for bb_, blk_ in enumerate(b.blocks):
        if blk_["cleanup"]:
            continue
        for pos_, st_ in enumerate(blk_["stmts"]):
            if st_["k"] == "assign" and st_["place"]["l"] == 2 and [e["k"] for e in st_["place"]["p"]] == ["deref"]:
                assigns.append((bb_, pos_, st_))
    ctx.check(len(swaps) + len(assigns) == 1, "one-replacement", "expected exactly one replacement of the input (mem::swap / assignment), found %d" % (len(swaps) + len(assigns)), b.where())
    if len(swaps) + len(assigns) != 1:
        return

    class _Site:
        pass
    sw = _Site()
    if swaps:
        sw.bb, sw.where = swaps[0].bb, swaps[0].where
        rep = deep_strip(tm.operand(swaps[0].args[1], swaps[0].bb))
        other = deep_strip(tm.operand(swaps[0].args[0], swaps[0].bb))
        sw.val = rep if unmut(nosite(other)) == ("arg", 2) else other
        sw.onto_input = unmut(nosite(other)) == ("arg", 2) or unmut(nosite(rep)) == ("arg", 2)
    else:
        bb_, pos_, st_ = assigns[0]
        sw.bb, sw.where = bb_, (lambda: b.where(bb_))
        sw.val = deep_strip(tm.rvalue(st_["rv"], bb_, pos_))
        sw.onto_input = True
    # None => Ok(()) and the swap is not reachable
    sel = None
    for sbb, dt, names, t in switches(b, tm):
        if nosite(deep_strip(dt)) == ("discr", gg) and names:
            sel = (sbb, switch_target(t, names, "None"), switch_target(t, names, "Some"))
    okn = sel is not None
    if okn:
        sbb, tn, ts = sel
        vals = region_value(b, (sbb, tn))
        okn = bool(vals) and all(deep_strip(v) == ("agg", "std::result::Result", "Ok", (("0", ("tuple", ())),)) for _, v in vals) and sw.bb not in b.reachable(start=tn)
        muts = [c for c in b.calls() if c.bb in b.reachable(start=tn) and c.bb not in b.reachable(start=ts) and c.func.get("method") in ("index_mut", "insert", "remove")]
        okn = okn and not muts
    ctx.check(okn, "no-grid=>untouched", "a query without a grid section is not passed through unchanged with Ok(())", b.where(), detail="None => Ok(())")
    # the three pushes are controlled by `v.as_array()` being Some
    pushes = [c for c in b.calls() if c.callee and c.callee.startswith("std::vec::Vec::<T, A>::push")]
    roles = {}
    arr_sw = None
    for sbb, dt, names, t in switches(b, tm):
        d = nosite(deep_strip(dt))
        if d[0] == "discr" and d[1][0] == "call" and d[1][1].endswith("Value::as_array") and names:
            arr_sw = (sbb, switch_target(t, names, "Some"), d[1])
    # (a push onto the vector that becomes the replacement is the per-combination result, not an axis vector)
    raw_val = deep_strip(sw.val)
    def _is_result_vec(c_):
        r_ = deep_strip(tm.operand(c_.args[0], c_.bb))
        while r_[0] == "mut":
            r_ = unmut(r_)
        v_ = raw_val
        for _ in range(4):
            while v_[0] == "mut":
                v_ = unmut(v_)
            if v_[0] == "agg" and v_[2] == "Array" and v_[3]:
                v_ = v_[3][0][1]
            elif v_[0] == "call" and len(v_[2]) == 1 and re.search(r"to_value|::from$|Into<U>>::into$", v_[1].split("{")[0]):
                v_ = v_[2][0]
        return r_[0] == "call" and v_ == r_
    result_pushes = [c for c in pushes if _is_result_vec(c)]
    pushes = [c for c in pushes if c not in result_pushes]
    # one vector of (key, options) pairs instead of two aligned vectors: aligned by construction
    pair_push = None
    opt_field = "1"
    for c in pushes:
        v_ = proj_simplify(cleanA(tm.operand(c.args[1], c.bb)))
        if v_[0] == "tuple" and len(v_[1]) == 2:
            pair_push = (c, v_)
        elif v_[0] == "agg" and len(v_[3]) == 2 and "serde_json" not in v_[1]:
            # a small private struct {key, options} instead of a tuple: read as the pair (key-like field, array field)
            ARR_ = cleanA(arr_sw[2]) if arr_sw is not None else None
            of_ = [n for n, t_ in v_[3] if t_ == ARR_]
            kf_ = [n for n, t_ in v_[3] if t_ != ARR_]
            if len(of_) == 1 and len(kf_) == 1:
                pair_push = (c, ("tuple", (dict(v_[3])[kf_[0]], dict(v_[3])[of_[0]])))
                opt_field = of_[0]
    derived_idx = _indices_from_options(F, b, tm, pushes, pair=opt_field if pair_push is not None else None) if len(pushes) in (1, 2) else None
    ctx.check(arr_sw is not None and (len(pushes) == 3 or derived_idx is True), "three-aligned-vectors", "expected three per-axis vectors filled under `value.as_array()` (found %d pushes%s)" % (len(pushes), "; " + derived_idx if isinstance(derived_idx, str) else ""), b.where())
    if derived_idx is True:
        ctx.check(True, "axis:indices=0..len(array)", "", b.where(), detail="indices[i] = (0..options[i].len()).collect(), one per option list")
        ctx.check(True, "aligned:indices", "", b.where(), detail="mapped from the option lists, position by position")
    if arr_sw is not None:
        sbb, tsome, arr = arr_sw
        if pair_push is not None:
            c, v_ = pair_push
            gated = b.dominates(tsome, c.bb)
            ARRA = cleanA(arr)
            member = ARRA[1][1] if ARRA[0] == "field" and ARRA[1][0] == "variant" else None   # the member's value: (k, v).1
            key_ok = member is not None and member[0] == "field" and member[2] == "1" and contains(v_[1][0], lambda q: q == ("field", member[1], "0")) and not contains(v_[1][0], lambda q: q == member)
            ctx.check(gated, "aligned:keys", "the (key, options) vector is extended for members that are not arrays", c.where(), detail="pushed only for array-valued members")
            ctx.check(gated and key_ok, "aligned:options", "a pushed pair is not (the member's own key, the member's own array): %s" % short(v_)[:120], c.where(), detail="(key, options) of one member")
            ctx.check(v_[1][1] == ARRA, "axis:options=the-array", "the option list of an axis is not the member's own array: %s" % short(v_[1][1])[:100], c.where(), detail="options.as_slice()")
        for c in ([] if pair_push is not None else pushes):
            gated = b.dominates(tsome, c.bb)
            v = nosite(deep_strip(tm.operand(c.args[1], c.bb)))
            kind = "keys" if contains(v, lambda s: s[0] == "call" and s[1].endswith("to_string")) else ("indices" if contains(v, lambda s: s[0] == "agg" and s[1].endswith("Range")) or contains(v, lambda s: s[0] == "call" and "collect" in s[1]) else "options")
            ctx.check(gated, "aligned:%s" % kind, "the %s vector is extended for members that are not arrays: keys, option lists and index lists get out of step" % kind, c.where(), detail="pushed only for array-valued members")
            # the index list of an axis enumerates exactly the positions of that axis' own option list
            vc = clean(tm.operand(c.args[1], c.bb))
            ARR = clean(arr)
            if kind == "options":
                ctx.check(vc == ARR, "axis:options=the-array", "the option list of an axis is not the member's own array: %s" % short(vc)[:100], c.where(), detail="v.to_vec()")
            elif kind == "indices":
                rng = [x for x in subterms(vc) if x[0] == "agg" and x[1].endswith("ops::Range")]
                okr = len(rng) == 1 and dict(rng[0][3]).get("start") == ("const", "usize", 0) and dict(rng[0][3]).get("end") == ("call", "std::vec::Vec::<T, A>::len", (ARR,)) and not [x for x in calls_in(vc) if re.search(r"Iterator>?::(take|skip|filter|step_by|rev|chain)$", x[1])]
                ctx.check(okr, "axis:indices=0..len(array)", "the index list of an axis is not 0..len of the member's own array: %s" % short(vc)[:100], c.where(), detail="(0..v.len()).collect()")
        # empty array => Err
        emp = [c for c in b.calls() if c.callee and c.callee.endswith("::is_empty") and b.dominates(tsome, c.bb)]
        oke = False
        for c in emp:
            verdict = nosite(deep_strip(tm.call_term(c.term, c.bb)))
            for s2, dt2, n2, t2 in switches(b, tm):
                if nosite(deep_strip(dt2)) == verdict:
                    f_, tr_ = bool_targets(t2)
                    vals = region_value(b, (s2, tr_), stop_blocks=[])
                    oke = oke or (bool(vals) and all(is_err_value(deep_strip(v)) for _, v in vals))
        ctx.check(oke, "empty-axis=>Err", "an empty option array is not reported as an input error (the query would silently disappear)", b.where(), detail="v.is_empty() => Err")
    # replacement = json!(collect(map(into_iter(MultiSet::from(indices)), closure)))
    val = sw.val
    ctx.check(sw.onto_input, "replaces-input", "the expansion is not swapped into the input query", sw.where())
    maps = [x for x in calls_in(val) if itm(x[1], "map")]
    froms = [x for x in calls_in(val) if "::from{" in x[1] and "MultiSet" in x[1] or x[1].startswith("<" + MS)]
    trunc = [x[1] for x in calls_in(val) if re.search(r"Iterator>?::(take|skip|filter|step_by|dedup|filter_map)$|Itertools::(dedup|unique)", x[1])]
    okm = len(maps) >= 1 and bool(froms) and not trunc and any("collect" in x[1] for x in calls_in(val))
    outer_loop = None
    if not okm and len(result_pushes) == 1:
        # for combination in MultiSet::from(&indices) { ..; result.push(instance) }: one push on every turn of a loop that
        # takes its elements from the multiset iterator, none skipped
        rp = result_pushes[0]
        lp_ = innermost_loop(b, rp.bb)
        if lp_ is not None:
            h_, bl_ = lp_
            latches = [a for a in b.pred[h_] if a in bl_]
            every_turn = bool(latches) and all(b.dominates(rp.bb, a) for a in latches)
            nxt = [c for c in b.calls() if c.bb in bl_ and c.func.get("method") == "next" and innermost_loop(b, c.bb) == lp_ and b.dominates(c.bb, rp.bb)]
            src_ok = False
            for c in nxt:
                src_ = nosite(deep_strip(tm.operand(c.args[0], c.bb)))
                src_ok = src_ok or (bool([x for x in calls_in(src_) if "MultiSet" in x[1] and "::from" in x[1]]) and not [x for x in calls_in(src_) if re.search(r"Iterator>?::(take|skip|filter|step_by|dedup|filter_map|take_while|skip_while)$|Itertools::(dedup|unique)", x[1])])
            okm = every_turn and src_ok
            outer_loop = lp_
    ctx.check(okm, "all-combinations", "the replacement is not a collect over all combinations of MultiSet::from(index lists): %s" % short(val)[:200], sw.where(), detail="MultiSet::from(&indices).into_iter().map(..).collect()")
    # the copy minus the grid key
    rem = [c for c in b.calls() if c.callee and c.callee.endswith("::remove") and "Map" in c.callee]
    okr = len(rem) == 1
    if okr:
        k = nosite(deep_strip(tm.operand(rem[0].args[1], rem[0].bb)))
        okr = contains(k, lambda s: s == ("agg", "routee_compass::plugin::input::input_field::InputField", "GridSearch", ())) or contains(k, lambda s: s[0] == "const" and s[2] == "grid_search")
        base = unmut(nosite(deep_strip(tm.operand(rem[0].args[0], rem[0].bb))))
        okr = okr and contains(base, lambda s: s[0] == "call" and s[1].endswith("Value::as_object") and unmut(s[2][0]) == ("arg", 2))
        okr = okr and all(b.dominates(rem[0].bb, c.bb) for c in b.calls() if c.callee and "MultiSet" in c.callee)
    ctx.check(okr, "copy-minus-grid-key", "children are not built from a copy of the original object with the grid key removed", b.where(), detail="clone().remove(grid_search)")
    # whether a section is expanded or refused does not depend on what its option *values* say: no branch of `process` is decided
    # by a test on the serialised text of the section (fixed defect: the recursion guard was `to_string(section).contains("grid_search")`,
    # so {"grid_search": {"name": ["grid_search_run_a", "b"]}} was an error instead of two queries; the guard now looks for a nested
    # grid_search *key*)
    textual = []
    for sbb, dt, names, t_ in switches(b, tm):
        d_ = nosite(deep_strip(dt))
        ser = [x for x in calls_in(d_) if re.search(r"serde_json::(ser::)?to_string(_pretty)?$|ToString>?::to_string$|fmt::format$|Display>?::fmt$", x[1].split("{")[0]) and contains(x, lambda q: q[0] == "call" and q[1].endswith("get_grid_search"))]
        if ser:
            textual.append(short(d_)[:140])
    ctx.check(not textual, "refusal:independent-of-option-values", "a branch of GridSearchPlugin::process is decided by the serialised text of the grid section (%s): a section whose option values merely contain that text is refused instead of expanded" % "; ".join(textual[:2]), b.where(), detail="no test on to_string(section)")
    # the section that is read is the section that is removed: get_grid_search is a plain lookup of the one key the children lose.
    # (round 6: a spelling-tolerant fallback in get_grid_search expanded queries that have no `grid_search` field, and the
    # children kept the whole section because `remove` still used the exact key)
    gimpl = [p_ for p_ in F.bodies if re.search(r"Value as .*InputJsonExtensions>::get_grid_search$", p_)]
    okg = len(gimpl) == 1
    gt = None
    if okg:
        gb = F.bodies[gimpl[0]]
        gt = norm_adaptors(F, nosite(deep_strip(clean(Terms(gb).return_term()))))
        is_key = lambda k_: contains(k_, lambda s_: s_ == ("agg", "routee_compass::plugin::input::input_field::InputField", "GridSearch", ())) or (k_[0] == "const" and len(k_) > 2 and k_[2] == "grid_search")
        okg = gt[0] == "call" and gt[1].split("{")[0].endswith("Value::get") and len(gt[2]) == 2 and clean(gt[2][0]) == ("arg", 1) and is_key(clean(gt[2][1])) and not [x for x in subterms(clean(gt[2][1])) if x[0] in ("arg", "phi")]
    ctx.check(okg, "section-read=section-removed", "get_grid_search is not a plain lookup of the `grid_search` key (the key the children are stripped of): %s" % (short(gt)[:160] if gt else "%d impls" % len(gimpl)), (F.bodies[gimpl[0]].where() if gimpl else b.where()), detail="self.get(InputField::GridSearch.to_str())")
    # overlay closure
    cl = [x for x in subterms(val) if x[0] == "closure"]
    if outer_loop is not None and not cl:
        # loop form: the per-combination code is the body of the loop over the combinations, in `process` itself
        cl = [("closure", b.path, ())]
    okc = okc_walk = False
    detail = None
    for k in cl:
        if k[1] not in F.bodies:
            continue
        # the closure, its own closures and any helper extracted from it
        tree = tree_of(F, k[1])
        ims, nested, obj_sw, keys_used = [], [], [], []
        for kb in tree:
            ktm = Terms(kb)
            mine = [c for c in kb.calls() if c.func.get("method") == "index_mut" or (c.callee or "").endswith("::index_mut")]
            ims += mine
            # value = multiset_input[set_idx][val_idx] (two Index::index calls on the option lists)
            idxs = [c for c in kb.calls() if (c.callee or "").endswith("::index") and ("Vec" in (c.callee or "") or "[T]" in (c.callee or ""))]
            nested += [c for c in idxs if contains(nosite(deep_strip(ktm.operand(c.args[0], c.bb))), lambda s: (s[0] == "call" and s[1].endswith("::index")) or s[0] == "index")]
            nested += [1 for x in subterms(nosite(deep_strip(ktm.return_term()))) if x[0] == "index" and contains(x[1], lambda s: s[0] == "index" or (s[0] == "call" and s[1].endswith("::index")))] if not kb.natural_loops() else []
            obj_sw += [1 for sbb, dt, names, t in switches(kb, ktm) if names and "Object" in names.values()]
            keys_used += [nosite(deep_strip(ktm.operand(c.args[1], c.bb))) for c in mine]
        if len(ims) < 2:
            continue
        okc = bool(nested) and bool(obj_sw)
        okc_walk = bool(obj_sw)
        detail = [short(x)[:60] for x in keys_used]
    # every combination is overlaid on its own fresh copy of the source: what one combination wrote (the entries of an object
    # option) must not be visible to the next
    roots, fresh = [], True
    for k in cl:
        if k[1] not in F.bodies:
            continue
        for kb in tree_of(F, k[1]):
            for c_ in kb.calls():
                if not (c_.func.get("method") == "index_mut" or (c_.callee or "").endswith("::index_mut")) or "Value" not in (c_.callee or "") + str(c_.func.get("self_ty") or ""):
                    continue
                roots.append((kb, c_, _storage_root(kb, c_.args[0])))
    for kb, c_, (kind_, what_) in roots:
        # a copy made inside the per-combination code (clone / to_owned of the source), or — in an extracted helper — the
        # helper's own parameter (the caller's copy is then checked at the helper's call, which the MIR inliner has merged)
        is_copy = kind_ == "call" and re.search(r"Clone>?::clone$|::to_owned$|::clone\{", what_) is not None
        if is_copy and outer_loop is not None and kb is b:
            # loop form: made on every turn of the loop over the combinations
            is_copy = _root_call_bb(kb, c_.args[0]) in outer_loop[1]
        via_param = kind_ == "param" and "{closure" not in kb.path
        if not (is_copy or via_param):
            fresh = False
            ctx.bad("fresh-copy-per-combination", "the overlay of a combination writes into %s, which is not a copy of the source made for this combination: entries merged in by one combination stay visible in the following ones" % what_[:100], c_.where())
    if fresh and roots:
        ctx.ok("fresh-copy-per-combination", "each combination is overlaid on a clone of the source made inside the per-combination code (%d writes)" % len(roots))
    # the same axis everywhere: read position by position, the loop over the axes stores options[i][combination[i]] under keys[i]
    I = ("i",)
    aligned, why_al = False, "no loop over the axes that writes the chosen option under the axis key was found"
    for k in cl:
        if k[1] not in F.bodies:
            continue
        for kb in tree_of(F, k[1]):
            for h, _bl in kb.natural_loops():
                try:
                    rows_ = [r for r in iteration_table(kb, h, stop_at_exit=True) if r.kind == "back"]
                except Exception:
                    continue
                if not rows_ or not all(r.conds for r in rows_):
                    continue
                d0 = clean(rows_[0].conds[0][0])
                if not (d0[0] == "discr" and d0[1][0] == "call" and re.search(r"::next$", d0[1][1])):
                    continue
                ELEM = d0[1]
                pf = positional_form(F, ELEM[2][0], I)
                # (the loop over the axes pairs several sequences; the loop over the entries of an object choice does not)
                if pf is None or not [n for n, _ in chain_steps(F, ELEM[2][0])[1] if n in ("zip", "enumerate")]:
                    continue
                sub = lambda t: proj_simplify(rewrite(clean(t), lambda y: pf[0] if y == ELEM else None))
                misdisc = None
                for r in rows_ + [r for r in iteration_table(kb, h, stop_at_exit=True) if r.kind == "cycle"]:
                    for dt, lab, _ in r.conds[1:]:
                        names_ = set(lab[1]) if isinstance(lab, tuple) else {lab}
                        if "Object" in names_ or names_ >= {"Null", "Bool", "Number"}:
                            d_ = sub(dt)
                            d_ = d_[1] if d_[0] == "discr" else d_
                            while d_[0] == "call" and len(d_[2]) == 1 and re.search(r"Clone>?::clone$|::to_owned$", d_[1]):
                                d_ = d_[2][0]
                            if contains(d_, lambda q: q == I) and not (d_[0] == "at" and _axis_part(d_[1], I) is not None and _axis_part(d_[2], I) is not None):
                                misdisc = d_
                if misdisc is not None:
                    aligned, why_al = False, "the object/other split looks at %s, not at options[i][combination[i]]" % short(misdisc)[:100]
                    break
                for r in rows_:
                    for ptr, val in r.stores:
                        pt = sub(ptr)
                        if pt[0] != "at":
                            continue
                        K_, V_ = pt[2], sub(val)
                        while V_[0] == "call" and len(V_[2]) == 1 and re.search(r"Clone>?::clone$|::to_owned$", V_[1]):
                            V_ = V_[2][0]
                        if not (contains(K_, lambda q: q == I) or contains(V_, lambda q: q == I)):
                            continue
                        # key = keys[i] (or pairs[i].0), value = options[i][combination[i]] (or pairs[i].1[combination[i]]): every
                        # part is the i-th element of a sequence — or a component of it — and the three parts are different ones
                        while K_[0] == "call" and len(K_[2]) == 1 and re.search(r"::as_str$|::as_ref$|Deref>?::deref$|::to_string$|::borrow$", K_[1].split("{")[0]):
                            K_ = K_[2][0]
                        kp = _axis_part(K_, I)
                        okk = kp is not None
                        okv = V_[0] == "at" and _axis_part(V_[1], I) is not None and _axis_part(V_[2], I) is not None
                        if okk and okv and len({kp, _axis_part(V_[1], I), _axis_part(V_[2], I)}) == 3:
                            aligned = True
                        else:
                            aligned, why_al = False, "a write in the loop over the axes is not options[i][combination[i]] under keys[i]: key %s value %s" % (short(K_)[:80], short(V_)[:100])
                            break
                    else:
                        continue
                    break
    # (options[axis][index] spelled with two index operations, or the option list walked in step with the keys — then the
    # position-by-position reading above has shown it is options[i][combination[i]])
    ctx.check(okc or (okc_walk and aligned), "overlay", "each combination is not overlaid with multiset_input[axis][index] (object choices merged, others under the axis key): %s" % detail, b.where(), detail=str(detail))
    ctx.check(aligned, "overlay:same-axis", "the overlay does not use the same axis index for the key, the option list and the chosen position: %s" % why_al, b.where(), detail="child[keys[i]] = options[i][combination[i]]")


def cleanA(t):
    """clean(), with the array payload of a JSON value spelled one way: `v.as_array()` / `v.as_array_mut()` and the binding of a
    `Value::Array(a)` pattern are the same vector"""
    return rewrite(clean(t), lambda y: ("field", ("variant", cleanA(y[2][0]), "Array"), "0") if y[0] == "call" and len(y[2]) == 1 and re.search(r"Value::as_array(_mut)?$", y[1]) else None)


def _flat_map_form(F, b, tm, TOP, TRUNC):
    """flattened = top.iter_mut().flat_map(|v| match v { Array(sub) => all of sub's elements, other => [other] }).collect()"""
    for c in b.calls():
        if not (c.callee and itm(c.callee, "flat_map")):
            continue
        recv = cleanA(tm.operand(c.args[0], c.bb))
        cl = tm.operand(c.args[1], c.bb)
        if not (recv == ("call", "std::slice::<impl [T]>::iter_mut", (TOP,)) and cl[0] == "closure" and cl[1] in F.bodies):
            return False, "flat_map does not run over every element of the array", None
        cb = F.bodies[cl[1]]
        n_arr = n_other = 0
        for r in table(cb):
            if r.end != "return":
                continue
            kinds = [v for k, v in r.sel.items() if clean(k) == ("arg", 2)]
            if len(kinds) != 1:
                return False, "an element is handled without looking whether it is an array", None
            names_ = set(kinds[0][1]) if isinstance(kinds[0], tuple) else {kinds[0]}
            ret = clean(r.ret)
            if names_ == {"Array"}:
                n_arr += 1
                pf = positional_form(F, ret)
                if pf is None or pf[0] != ("at", ("field", ("variant", ("arg", 2), "Array"), "0"), ("i",)) or [x for x in calls_in(ret) if re.search(TRUNC, x[1])]:
                    return False, "the elements of a nested array are not all yielded", None
            elif "Array" not in names_:
                n_other += 1
                if ret != ("call", "vec!", (("array", (("arg", 2),)),)) and ret != ("call", "std::iter::once", (("arg", 2),)) and ret != ("agg", "std::option::Option", "Some", (("0", ("arg", 2)),)):
                    return False, "an element that is not an array is not yielded as it is", None
            else:
                return False, "an element is handled without looking whether it is an array", None
        if not (n_arr >= 1 and n_other >= 1):
            return False, "expected one arm for nested arrays and one for other elements", None
        out = cleanA(tm.call_term(c.term, c.bb))
        return True, "", out
    return None


def _axis_part(t, I):
    """t is the I-th element of a sequence S that does not itself depend on I, or a tuple component of that element:
    returns (S, component path), else None"""
    path = ()
    while t[0] == "field" and isinstance(t[1], tuple) and t[1][0] in ("field", "at"):
        path = (str(t[2]),) + path
        t = t[1]
    if t[0] == "at" and t[2] == I and not contains(t[1], lambda q: q == I):
        return (t[1], path)
    return None


def _root_call_bb(body, op, depth=0):
    """block of the call whose result is the storage root of `op` (see _storage_root), or None"""
    if op.get("k") not in ("copy", "move") or depth > 12:
        return None
    l = op["place"]["l"]
    ds = [d for d in body.defs.get(l, []) if not d[2]]
    if len(ds) != 1:
        return None
    bb, j, _ = ds[0]
    if j == "term":
        t = body.blocks[bb]["term"]
        ck = callee_key(t["func"]) or ""
        if re.search(r"::index_mut$|::index$|::deref_mut$|::deref$|::as_mut$|::borrow_mut$|::get_mut$|::as_object_mut$|::as_array_mut$", ck.split("{")[0]) and t["args"]:
            return _root_call_bb(body, t["args"][0], depth + 1)
        return bb
    rv = body.blocks[bb]["stmts"][j]["rv"]
    if rv["k"] in ("ref", "rawptr"):
        return _root_call_bb(body, {"k": "copy", "place": rv["place"]}, depth + 1)
    if rv["k"] == "use" and rv["op"]["k"] in ("copy", "move"):
        return _root_call_bb(body, rv["op"], depth + 1)
    return None


def _indices_from_options(F, b, tm, pushes, pair=False):
    """the index lists are not pushed next to the option lists but derived from them afterwards, position by position:
    indices = options.iter().map(|o| (0..o.len()).collect()).collect().  True, or a reason."""
    opts = None
    for c in pushes:
        v = clean(tm.operand(c.args[1], c.bb))
        if not contains(v, lambda q: q[0] == "call" and q[1].endswith("to_string")) and contains(v, lambda q: q[0] == "call" and q[1].endswith("Value::as_array")):
            opts = deep_strip(tm.operand(c.args[0], c.bb))
    froms = [c for c in b.calls() if c.callee and "MultiSet" in c.callee and "::from" in c.callee]
    if opts is None or len(froms) != 1:
        return "no option-list vector / MultiSet::from found"
    while opts[0] == "mut":
        opts = unmut(opts)
    raw = tm.operand(froms[0].args[0], froms[0].bb)
    pf = sequence_form(F, b, raw)
    if pf is None:
        return "the index lists are not built position by position"
    elem, lens = pf
    X = [q for q in subterms(elem) if q[0] == "at" and q[2] == ("i",)]
    if len(X) != 1 or lens != {("len", X[0][1])}:
        return "the index lists do not follow one sequence"
    of = ("field", X[0], pair) if pair else X[0]          # the option list of position i: options[i] / pairs[i].1 / axes[i].options
    want = ("agg", "std::ops::Range", "Range", (("start", ("const", "usize", 0)), ("end", ("call", "std::vec::Vec::<T, A>::len", (of,)))))
    elem = rewrite(elem, lambda y: ("call", "std::vec::Vec::<T, A>::len", y[2]) if y[0] == "call" and len(y[2]) == 1 and re.search(r"slice::<impl \[T\]>::len$", y[1]) else None)
    e = elem
    while e[0] == "call" and len(e[2]) == 1 and re.search(r"Iterator>?::collect|Itertools::collect_vec|::into_iter$", e[1].split("{")[0]):
        e = e[2][0]
    if e != want:
        return "an index list is not 0..len of its option list: %s" % short(elem)[:100]
    # the sequence walked is the option-list vector itself (same creation site, not merely an equal-looking vector)
    srcs = []
    for q in subterms(deep_strip(raw)):
        if q[0] == "call" and len(q[2]) == 1 and re.search(r"::iter$|::into_iter$", q[1].split("{")[0]):
            y = proj_simplify(deep_strip(q[2][0]))
            while y[0] == "mut":
                y = unmut(y)
            srcs.append(y)
    if opts not in srcs:
        return "the index lists are derived from another vector than the option lists"
    return True


def _storage_root(body, op, depth=0):
    """Where the storage an operand points into comes from, followed through borrows, reborrows, moves and nested
    `index_mut` results at the MIR level (the term domain treats clone as the identity, so it cannot answer this):
    ('call', callee) when it is the result of a call (e.g. Clone::clone), ('param', n) for a parameter (a closure's
    parameter 1 is its environment: a captured variable), ('local', n) otherwise."""
    if op.get("k") not in ("copy", "move") or depth > 12:
        return ("local", "?")
    l = op["place"]["l"]
    if 1 <= l <= body.argc:
        if "{closure" in body.path and l == 1:
            # a captured variable: continue at the place the closure was created (a closure nested in the per-combination
            # code may write into that code's own copy)
            fi = [e.get("i") for e in op["place"]["p"] if e["k"] == "field"]
            for cb in body.facts.bodies.values():
                if cb is body:
                    continue
                for blk in cb.blocks:
                    for st_ in blk["stmts"]:
                        if st_["k"] == "assign" and st_["rv"]["k"] == "agg" and st_["rv"].get("agg") == "closure" and st_["rv"].get("closure") == body.path and fi and fi[0] is not None and fi[0] < len(st_["rv"]["fields"]):
                            inner = _storage_root(cb, st_["rv"]["fields"][fi[0]], depth + 1)
                            if inner[0] == "capture" or (inner[0] == "param" and "{closure" in cb.path):
                                return ("capture", inner[1])
                            if "{closure" not in cb.path:
                                return ("capture", "a variable of %s that the per-combination closure captures (it outlives one combination)" % short_fn_name(cb.path))
                            return inner
            return ("capture", "a variable captured from the enclosing function (closure environment)")
        return ("param", "parameter %d" % l)
    ds = [d for d in body.defs.get(l, []) if not d[2]]
    if len(ds) != 1:
        return ("local", "local %d (assigned %d times)" % (l, len(ds)))
    bb, j, _ = ds[0]
    if j == "term":
        t = body.blocks[bb]["term"]
        ck = callee_key(t["func"]) or ""
        if re.search(r"::index_mut$|::index$|::deref_mut$|::deref$|::as_mut$|::borrow_mut$|::get_mut$|::as_object_mut$|::as_array_mut$", ck.split("{")[0]) and t["args"]:
            return _storage_root(body, t["args"][0], depth + 1)
        return ("call", ck)
    rv = body.blocks[bb]["stmts"][j]["rv"]
    if rv["k"] in ("ref", "rawptr"):
        return _storage_root(body, {"k": "copy", "place": rv["place"]}, depth + 1)
    if rv["k"] == "use" and rv["op"]["k"] in ("copy", "move"):
        return _storage_root(body, rv["op"], depth + 1)
    return ("local", "local %d" % l)


def R2_flatten(ctx):
    """C17.R2 flattening"""
    F = ctx.F
    ctx.rule("C17.R2", "json_array_flatten_in_place: returns early only when no element is an array; otherwise every element of every nested array and every other element is pushed in order and swapped in; non-array input => invariant error. json_array_op applies op to every query, packages failures, then flattens. json_array_flatten rejects non-objects", floor=9)
    b = F.need(OPS + "json_array_flatten_in_place")
    tm = Terms(b)
    TOP = ("field", ("variant", ("arg", 1), "Array"), "0")
    OK_UNIT = ("agg", "std::result::Result", "Ok", (("0", ("tuple", ())),))
    TRUNC = r"Iterator>?::(take|skip|filter|step_by|rev|take_while|skip_while|filter_map)$"
    # where the state is replaced: mem::swap(result, &mut flat) or `*result = flat`
    repl = []
    for c in b.calls():
        if (c.callee or "").endswith("mem::swap") or (c.callee or "").endswith("mem::replace"):
            a0, a1 = cleanA(tm.operand(c.args[0], c.bb)), cleanA(tm.operand(c.args[1], c.bb))
            if ("arg", 1) in (a0, a1):
                repl.append((c.bb, a1 if a0 == ("arg", 1) else a0, c.where()))
    for bb_, blk_ in enumerate(b.blocks):
        if blk_["cleanup"]:
            continue
        for pos_, st_ in enumerate(blk_["stmts"]):
            if st_["k"] == "assign" and st_["place"]["l"] == 1 and [e["k"] for e in st_["place"]["p"]] == ["deref"]:
                repl.append((bb_, cleanA(tm.rvalue(st_["rv"], bb_, pos_)), b.where(bb_)))
    # the verdict "no element is an array": all(|v| !v.is_array()) is true / any(|v| v.is_array()) is false
    oka = False
    why = "no test of the elements for arrays found"
    for sbb, dt, names, t in switches(b, tm):
        if names is not None:
            continue
        d = cleanA(dt)
        neg = False
        while d[0] == "un" and d[1] == "Not":
            d, neg = d[2], not neg
        if not (d[0] == "call" and len(d[2]) == 2 and (itm(d[1], "all") or itm(d[1], "any")) and d[2][1][0] in ("closure", "fn")):
            continue
        recv = d[2][0]
        if not (contains(recv, lambda q: q == TOP) and not [x for x in calls_in(recv) if re.search(TRUNC, x[1])]):
            why = "the test does not run over all elements of the array"
            continue
        # (the predicate is a closure, or `Value::is_array` passed by name)
        crt = cleanA(Terms(F.need(d[2][1][1])).return_term()) if d[2][1][0] == "closure" else ("call", d[2][1][1], (("arg", 2),))
        cneg = False
        while crt[0] == "un" and crt[1] == "Not":
            crt, cneg = crt[2], not cneg
        if not (crt[0] == "call" and crt[1].endswith("Value::is_array") and crt[2] == (("arg", 2),)):
            why = "the per-element test is not is_array()"
            continue
        # value of the verdict that means "no element is an array"
        if itm(d[1], "all") and cneg:
            none_nested_when = True
        elif itm(d[1], "any") and not cneg:
            none_nested_when = False
        else:
            why = "the test `%s(|v| %sv.is_array())` does not decide whether some element is an array" % ("all" if itm(d[1], "all") else "any", "!" if cneg else "")
            continue
        if neg:
            none_nested_when = not none_nested_when
        f_, tr_ = bool_targets(t)
        skip_edge = tr_ if none_nested_when else f_
        work_edge = f_ if none_nested_when else tr_
        skip_region = b.reachable(start=skip_edge)
        work_region = b.reachable(start=work_edge)
        skips = not any(bb_ in skip_region for bb_, _, _ in repl) and all(deep_strip(v) == OK_UNIT for _, v in region_value(b, (sbb, skip_edge)))
        works = any(bb_ in work_region for bb_, _, _ in repl)
        oka = skips and works
        if not oka:
            why = "the state is %s when no element is an array and %s otherwise" % ("left alone" if skips else "replaced or an error returned", "replaced" if works else "not replaced")
    ctx.check(oka, "short-circuit", "the early return is not taken exactly when all elements are non-arrays (`all(|v| !v.is_array())` => Ok(())): %s" % why, b.where(), detail="no nested array => unchanged, Ok(())")
    # the flattened vector: one pass over all elements; an array contributes all its elements, anything else itself
    okp, whyp, flat = False, "no loop over the elements of the array", None
    for h, _bl in b.natural_loops():
        rows = [r for r in iteration_table(b, h) if r.kind != "diverge"]
        if not rows or not all(r.conds for r in rows):
            continue
        d0 = cleanA(rows[0].conds[0][0])
        if not (d0[0] == "discr" and d0[1][0] == "call" and re.search(r"::next$", d0[1][1]) and contains(d0[1], lambda q: q == ("call", "std::slice::<impl [T]>::iter_mut", (TOP,)))):
            continue
        if [x for x in calls_in(d0[1]) if re.search(TRUNC, x[1])] or not all(cleanA(r.conds[0][0]) == d0 for r in rows):
            whyp = "the pass does not visit every element"
            continue
        ELEM = d0[1]
        SUB = ("call", "std::slice::<impl [T]>::iter_mut", (("field", ("variant", ELEM, "Array"), "0"),))
        okp, whyp = True, ""
        n_arr = n_other = 0
        for r in rows:
            lab = [l for dt, l, _ in r.conds[:1]]
            some = "Some" in (set(lab[0][1]) if isinstance(lab[0], tuple) else {lab[0]})
            if not some:
                continue
            kind = None
            for dt, l, _ in r.conds[1:]:
                if cleanA(dt) == ("discr", ELEM):
                    names_ = set(l[1]) if isinstance(l, tuple) else {l}
                    kind = "array" if names_ == {"Array"} else ("other" if "Array" not in names_ else None)
            adds = [(k, cleanA(v)) for bb_, k, v in r.sites if k and re.search(r"Vec::<T, A>::push$|Extend<.*>>::extend$|Vec::<T, A>::(append|extend_from_slice)$", k)]
            if kind == "other":
                n_other += 1
                if not (r.kind == "back" and len(adds) == 1 and adds[0][0].endswith("::push") and adds[0][1][2][1] == ELEM):
                    okp, whyp = False, "an element that is not an array is not pushed as it is"
                else:
                    flat = flat or adds[0][1][2][0]
            elif kind == "array":
                n_arr += 1
                if r.kind == "back" and len(adds) == 1 and adds[0][0].endswith("::extend"):
                    src = adds[0][1][2][1]
                    while src[0] == "call" and len(src[2]) == 1 and re.search(r"::into_iter$", src[1]):
                        src = src[2][0]
                    if src != SUB:
                        okp, whyp = False, "a nested array is not appended whole: extend(%s)" % short(src)[:80]
                elif r.kind == "cycle" or (r.kind == "back" and not adds):
                    # an inner loop over the nested array pushing each of its elements
                    inner = [h2 for h2, bl2 in b.natural_loops() if h2 != h and set(bl2) < set(_bl)]
                    oki = False
                    for h2 in inner:
                        irows = [x for x in iteration_table(b, h2) if x.kind != "diverge"]
                        i0 = cleanA(irows[0].conds[0][0]) if irows and irows[0].conds else None
                        if i0 and i0[0] == "discr" and contains(i0[1], lambda q: q == SUB) and not [x for x in calls_in(i0[1]) if re.search(TRUNC, x[1])]:
                            backs = [x for x in irows if x.kind == "back" and x.conds[0][1] == "Some"]
                            oki = bool(backs) and all(len([1 for bb_, k, v in x.sites if k and k.endswith("::push")]) == 1 and [cleanA(v)[2][1] for bb_, k, v in x.sites if k and k.endswith("::push")] == [i0[1]] for x in backs)
                    if not oki:
                        okp, whyp = False, "the elements of a nested array are not all pushed"
                else:
                    okp, whyp = False, "a nested array is not moved into the flattened vector"
            else:
                okp, whyp = False, "an element is handled without looking whether it is an array"
        if okp and not (n_arr >= 1 and n_other >= 1):
            okp, whyp = False, "expected one arm for nested arrays and one for other elements"
        break
    if not okp and flat is None:
        fm = _flat_map_form(F, b, tm, TOP, TRUNC)
        if fm is not None:
            okp, whyp, flat = fm
    ctx.check(okp, "moves-every-element", "nested arrays' elements and plain elements are not all pushed to one flattened vector in order: %s" % whyp, b.where(), detail="for v1 {Array => all of its elements; other => itself}")
    ctx.check(len(repl) == 1 and flat is not None and contains(repl[0][1], lambda q: q == flat), "swapped-in", "the flattened array is not swapped into the query state", b.where())
    # non-array input => invariant error
    okx = False
    for sbb, dt, names, t in switches(b, tm):
        if cleanA(dt) == ("discr", ("arg", 1)) and names and "Array" in names.values():
            arr_t = switch_target(t, names, "Array")
            others = set([x[1] for x in t["targets"]] + [t["otherwise"]]) - {arr_t}
            okx = bool(others)
            for o in others:
                vals = region_value(b, (sbb, o))
                okx = okx and bool(vals) and all(is_err_value(deep_strip(v)) and calls_in(v, OPS + "package_invariant_error") for _, v in vals)
        # `match result.as_array_mut() { Some(a) => a, None => return Err(package_invariant_error(..)) }`
        d_ = cleanA(dt)
        if d_ == ("discr", TOP) and names and set(names.values()) == {"Some", "None"}:
            vals = region_value(b, (sbb, switch_target(t, names, "None")))
            okx = bool(vals) and all(is_err_value(deep_strip(v)) and calls_in(v, OPS + "package_invariant_error") for _, v in vals)
    ctx.check(okx, "non-array=>invariant-error", "a non-array state is not reported with package_invariant_error", b.where())
    # json_array_op
    _json_array_op(ctx, F)
    # json_array_flatten: objects pushed, anything else => error
    fb = F.need(OPS + "json_array_flatten")
    ftm = Terms(fb)
    pushes = [c for c in fb.calls() if c.callee and c.callee.startswith("std::vec::Vec::<T, A>::push")]
    okf = len(pushes) == 1
    if okf:
        sel = [names for sbb, dt, names, t in switches(fb, ftm) if names and "Object" in names.values() and fb.dominates(switch_target(t, names, "Object"), pushes[0].bb)]
        okf = bool(sel)
    errs = [c for c in fb.calls() if c.callee == OPS + "package_invariant_error"]
    ctx.check(okf and len(errs) >= 1, "objects-only", "json_array_flatten does not keep exactly the object elements and report anything else as an invariant error (a dropped arm makes a non-object query vanish)", fb.where(), detail="Object => push; other => error")
    # the `other => error = Some(other)` arm must exist inside the loop
    lp = innermost_loop(fb, pushes[0].bb) if pushes else None
    err_assign = []
    if lp:
        for bb in lp[1]:
            for s in fb.blocks[bb]["stmts"]:
                if s["k"] == "assign" and s["rv"]["k"] == "agg" and s["rv"].get("variant") == "Some" and "Value" in fb.locals[s["place"]["l"]]["ty"]:
                    err_assign.append(bb)
    ctx.check(bool(err_assign), "non-object-recorded", "a non-object element inside the array is not recorded as an error", fb.where())


def _json_array_op(ctx, F):
    """op applied to every query of the array in order, a failure returned as package_error(q, e) of that query, then flatten"""
    ob = F.need(OPS + "json_array_op")
    otm = Terms(ob)
    TOP = ("field", ("variant", ("arg", 1), "Array"), "0")
    TRUNC = r"Iterator>?::(take|skip|filter|step_by|rev|take_while|skip_while|filter_map)$"
    is_op_call = lambda c: (c.callee or "").endswith("Fn::call") or c.callee in ("<indirect>", "<fnptr>") or (c.func.get("method") in ("call", "call_mut", "call_once") and "{closure" not in (c.callee or ""))
    oko = okm = False
    whyo = "the call of the plugin operation was not found"
    for body in tree_of(F, ob.path):
        btm = otm if body is ob else Terms(body)
        calls = [c for c in body.calls() if is_op_call(c)]
        if len(calls) != 1:
            continue
        c = calls[0]
        q = cleanA(btm.operand(c.args[1], c.bb))
        q = q[1][0] if q[0] == "tuple" and len(q[1]) == 1 else q
        if body is ob:
            # loop form: q is the element of queries.iter_mut()
            lp = innermost_loop(ob, c.bb)
            oko = lp is not None and q[0] == "call" and re.search(r"::next$", q[1]) is not None and contains(q, lambda x: x == ("call", "std::slice::<impl [T]>::iter_mut", (TOP,))) and not [x for x in calls_in(q) if re.search(TRUNC, x[1])]
            whyo = "" if oko else "op is not called on each element of queries.iter_mut()"
            me = [m for m in ob.calls() if m.callee and m.callee.endswith("Result::<T, E>::map_err")]
            if len(me) == 1:
                cl = otm.operand(me[0].args[1], me[0].bb)
                crt = cleanA(Terms(F.need(cl[1])).return_term()) if cl[0] == "closure" else None
                recv = cleanA(otm.operand(me[0].args[0], me[0].bb))
                okm = crt is not None and crt[0] == "call" and crt[1].endswith("package_error") and crt[2][1] == ("arg", 2) and recv == cleanA(otm.call_term(c.term, c.bb))
                if okm and cl[2]:
                    okm = cleanA(cl[2][0]) == q and crt[2][0] == ("field", ("arg", 1), "0")
                okm = okm and try_propagation(ob, me[0], otm)["kind"] == "propagated"
            else:
                okm = none_is_fine = False
                rows = [r for r in iteration_table(ob, lp[0]) if r.kind == "return"] if lp else []
                callt = cleanA(otm.call_term(c.term, c.bb))
                errs = [r for r in rows if any(cleanA(dt) == ("discr", callt) and (l == "Err" or (isinstance(l, tuple) and set(l[1]) == {"Err"})) for dt, l, _ in r.conds)]
                okm = bool(errs) and all(_is_packaged(cleanA(r.ret), q) for r in errs)
        else:
            # closure form: queries.iter_mut().try_for_each(|q| ...)
            tf = [x for x in ob.calls() if x.callee and itm(x.callee, "try_for_each")]
            if len(tf) != 1:
                whyo = "op is called in a closure that is not run by try_for_each"
                continue
            recv = cleanA(otm.operand(tf[0].args[0], tf[0].bb))
            cl = otm.operand(tf[0].args[1], tf[0].bb)
            oko = q == ("arg", 2) and cl[0] == "closure" and cl[1] == body.path and contains(recv, lambda x: x == ("call", "std::slice::<impl [T]>::iter_mut", (TOP,))) and not [x for x in calls_in(recv) if re.search(TRUNC, x[1])] and not body.natural_loops()
            whyo = "" if oko else "op is not called on each element of queries.iter_mut()"
            callt = cleanA(btm.call_term(c.term, c.bb))
            rows = [r for r in table(body, max_paths=5000) if r.end == "return"]
            errs = [r for r in rows if any(cleanA(k) == callt and v == "Err" for k, v in r.sel.items())]
            oks = [r for r in rows if any(cleanA(k) == callt and v == "Ok" for k, v in r.sel.items())]
            okm = bool(errs) and all(_is_packaged(cleanA(r.ret), ("arg", 2)) for r in errs) and bool(oks) and all(result_variant(r.ret) == "Ok" for r in oks)
            if not errs and not oks:
                # the closure's value is op(q).map_err(|e| package_error(q, e)) itself
                raw = nosite(btm.return_term())
                while raw[0] == "mut":
                    raw = unmut(raw)
                if raw[0] == "call" and raw[1].endswith("Result::<T, E>::map_err") and cleanA(raw[2][0]) == callt and raw[2][1][0] == "closure" and raw[2][1][1] in F.bodies:
                    crt = cleanA(Terms(F.bodies[raw[2][1][1]]).return_term())
                    caps = [cleanA(x) for x in raw[2][1][2]]
                    okm = crt[0] == "call" and crt[1].endswith("package_error") and len(crt[2]) == 2 and crt[2][1] == ("arg", 2) and crt[2][0] == ("field", ("arg", 1), "0") and caps[:1] == [("arg", 2)]
            okm = okm and try_propagation(ob, tf[0], otm)["kind"] == "propagated"
        break
    ctx.check(oko, "op-on-every-query", "the plugin operation is not applied to every element of the query array: %s" % whyo, ob.where(), detail="for q in queries.iter_mut() { op(q) }")
    ctx.check(okm, "failure=>packaged-with-its-query", "a plugin failure is not packaged with package_error(q, e) of the failing query and returned", ob.where(), detail="map_err(|e| package_error(q, e))?")
    fl = [c for c in ob.calls() if c.callee == OPS + "json_array_flatten_in_place"]
    ctx.check(len(fl) == 1 and cleanA(otm.operand(fl[0].args[0], fl[0].bb)) == ("arg", 1), "then-flatten", "the state is not flattened after the operation", ob.where())


def _is_packaged(ret, q):
    """Err(package_error(q, e))"""
    if ret is None:
        return False
    v = ret
    if v[0] == "agg" and v[2] == "Err" and v[3]:
        v = v[3][0][1]
    return v[0] == "call" and v[1].endswith("package_error") and len(v[2]) == 2 and v[2][0] == q


def R3_odometer(ctx):
    """C17.R3 mixed-radix iterator, structural part"""
    F = ctx.F
    ctx.rule("C17.R3", "MultiSet: final_pos[i] = len_i - 1; start at zeros unless some set is empty (then exhausted); next: None when exhausted, emits sets[i][pos[i]] for all i, increments the first position below its final value by one (and stops), resets passed positions to 0, finishes after the last position or at once when there are no sets", floor=9)
    fp = "<%s<'a, T> as std::convert::From<&'a std::vec::Vec<std::vec::Vec<T>>>>::from" % MS
    b = F.need(fp)
    tm = Terms(b)
    rt = nosite(deep_strip(tm.return_term()))
    ok = rt[0] == "agg" and rt[1] == MS
    if not ok:
        ctx.bad("from:shape", "MultiSet::from does not build a MultiSet in place", b.where())
        return
    f = dict(rt[3])
    ctx.check(f.get("sets") == ("arg", 1), "from:sets", "sets is not the input", b.where())
    fpos = f.get("final_pos")
    cl = [x for x in subterms(fpos) if x[0] == "closure"]
    okf = len(cl) == 1 and bool(calls_in(fpos, "iter")) and contains(fpos, lambda s: s == ("call", "std::slice::<impl [T]>::iter", (("arg", 1),)))
    if okf:
        crt = nosite(deep_strip(Terms(F.need(cl[0][1])).return_term()))
        ln = ("call", "std::vec::Vec::<T, A>::len", (("arg", 2),))
        A = Arith(F, {ln: "n"})
        okf = crt == ("call", "std::num::<impl usize>::saturating_sub", (ln, ("const", "usize", 1))) or A.ev(crt).equals(Ratio(Poly.sym("n")) - Ratio(Poly.const(1)))
    ctx.check(okf, "from:final-pos", "final_pos[i] is not len(sets[i]) - 1 for every set", b.where(), detail="len_i - 1")
    pos = f.get("pos")
    alts = set(pos[1]) if pos[0] == "phi" else {pos}
    none = ("agg", "std::option::Option", "None", ())
    zeros = ("agg", "std::option::Option", "Some", (("0", ("call", "std::vec::from_elem", (("const", "usize", 0), ("call", "std::vec::Vec::<T, A>::len", (("arg", 1),))))),))
    ctx.check(zeros in alts, "from:start-at-zeros", "the counter does not start at all zeros (one per set): %s" % short(pos)[:160], b.where(), detail="vec![0; sets.len()]")
    # None exactly when some set is empty
    cond_ok = False
    for sbb, dt, names, t in switches(b, tm):
        d = nosite(deep_strip(dt))
        if d[0] == "call" and itm(d[1], "any") and d[2][0] == ("call", "std::slice::<impl [T]>::iter", (("arg", 1),)):
            crt = nosite(deep_strip(Terms(F.need(d[2][1][1])).return_term()))
            cond_ok = crt == ("call", "std::vec::Vec::<T, A>::is_empty", (("arg", 2),))
    only = none in alts and len(alts) == 2
    ctx.check(cond_ok and only, "from:empty-set=>exhausted", "the counter is not `None` exactly when some set is empty (the product over zero sets has one combination, over an empty set none): %s" % short(pos)[:160], b.where(), detail="sets.iter().any(is_empty) => None")
    # ---- next
    odometer_next(ctx, F)


SETS = ("field", ("arg", 1), "sets")
POS = ("field", ("arg", 1), "pos")
FINAL = ("field", ("arg", 1), "final_pos")
NSETS = ("call", "std::vec::Vec::<T, A>::len", (SETS,))
NONE_ = ("agg", "std::option::Option", "None", ())


def _some(x):
    return ("agg", "std::option::Option", "Some", (("0", x),))


def _zero_sets_term(t):
    """`sets.is_empty()` / `sets.len() == 0` / `n == 0`"""
    t = clean(t)
    if t[0] == "phi":
        # the flag as seen after the loop: its initial value, or `true` from the path that finished (that path is told apart
        # by its own assignment and never reaches this test with the initial value)
        alts = [a for a in t[1] if a != ("const", "bool", True)]
        return len(alts) == 1 and len(t[1]) == 2 and _zero_sets_term(alts[0])
    if t == ("call", "std::vec::Vec::<T, A>::is_empty", (SETS,)):
        return True
    c = as_cmp(t)
    return bool(c) and c[0] == "Eq" and {clean(c[1]), clean(c[2])} == {NSETS, ("const", "usize", 0)}


def odometer_next(ctx, F):
    """the step function of the iterator, read as a transition system: which of the spellings is used does not matter"""
    nb = F.need("<%s<'_, T> as std::iter::Iterator>::next" % MS)
    ntm = Terms(nb)
    # (1) exhausted => None, state untouched
    sel = None
    for sbb, dt, names, t in switches(nb, ntm):
        d_ = cleanT(dt)
        if d_[0] == "discr" and d_[1][0] == "call" and d_[1][1].endswith("Try>::branch") and len(d_[1][2]) == 1:
            d_ = ("discr", d_[1][2][0])
        if d_ == ("discr", POS) and names:
            vs = set(names.values())
            if "None" in vs:
                sel = (sbb, switch_target(t, names, "None"))
            elif "Break" in vs:
                sel = (sbb, switch_target(t, names, "Break"))
    okn = sel is not None
    if okn:
        vals = region_value(nb, (sel[0], sel[1]))
        region = nb.reachable(start=sel[1])
        writes = [1 for bb in region for st_ in nb.blocks[bb]["stmts"] if st_["k"] == "assign" and st_["place"]["p"] and st_["place"]["p"][0]["k"] == "deref"]
        # (`self.pos.as_ref()?` in a function returning Option: the residual of an Option is always None)
        is_none = lambda v: deep_strip(v) == NONE_ or (deep_strip(v)[0] == "agg" and deep_strip(v)[1].endswith("option::Option") and deep_strip(v)[2] == "None") or (nosite(v)[0] == "call" and re.match(r"<std::option::Option<T> as std::ops::FromResidual", nosite(v)[1]) is not None and nb.locals[0]["ty"].startswith("std::option::Option<"))
        okn = bool(vals) and all(is_none(v) for _, v in vals) and (sel[0] not in region) and not writes
    ctx.check(okn, "next:exhausted=>None", "an exhausted iterator does not return None (leaving its state alone)", nb.where())
    # (2) the emitted combination, read position by position
    oke = False
    got = None
    for e in elementwise_builds(nb):
        if e["form"] != "map":
            continue
        site = e["site"]
        pf = positional_form(F, nosite(deep_strip(ntm.operand(site.args[0], site.bb))))
        if pf is None:
            continue
        pf = (cleanT(pf[0]), {cleanT(x) for x in pf[1]})
        got = pf
        oke = pf[0] == ("at", ("at", SETS, ("i",)), ("at", POS, ("i",))) and pf[1] <= {NSETS, ("len", POS), ("len", SETS)}
    if not oke and got is None:
        # loop form: for i in 0..n { result.push(sets[i][pos[i]]) }
        for e in elementwise_builds(nb):
            if e["form"] == "loop":
                src = positional_form(F, nosite(deep_strip(e["src"])))
                if src is not None and len(e["values"]) == 1:
                    v = proj_simplify(rewrite(clean(e["values"][0]), lambda y: src[0] if y == ("elem",) else None))
                    got = (v, src[1])
                    oke = v == ("at", ("at", SETS, ("i",)), ("at", POS, ("i",))) and src[1] <= {NSETS, ("len", POS), ("len", SETS)}
    ctx.check(oke, "next:emits-current-position", "the emitted combination is not sets[i][pos[i]] for every i: %s" % (short(got[0])[:120] if got else None), nb.where(), detail="sets[i][pos[i]]")
    # (3) the advance loop, in `next` or in a helper extracted from it
    fin_writes = [1 for bb, blk in enumerate(nb.blocks) if not blk["cleanup"] for pos_, st_ in enumerate(blk["stmts"]) if st_["k"] == "assign" and st_["place"]["p"] and st_["place"]["p"][0]["k"] == "deref" and _based_on(clean(ntm.place(st_["place"], bb, pos_)), FINAL)]
    _FINAL_LEN_OK["ok"] = _final_len_invariant(F) and not fin_writes
    place = None
    with no_inline():
        cands = [(nb, None)]
        known = known_functions()
        for c in nb.calls():
            if c.callee in F.bodies and known and c.callee not in known and "{closure" not in c.callee:
                cands.append((F.bodies[c.callee], c))
        for body, via in cands:
            for h, _blocks in body.natural_loops():
                try:
                    rows = iteration_table(body, h)
                except (TooManyPaths, AnchorMissing):
                    continue
                if via is not None:
                    tmc = Terms(nb)
                    actuals = tuple(tmc.operand(a, via.bb) for a in via.args)
                    sub = lambda t, actuals=actuals: substitute_args(t, actuals)
                else:
                    sub = lambda t: t
                idx = _range_index(rows, sub)
                if idx is not None:
                    place = (body, via, h, rows, sub, idx)
        if place is None and _declarative_step(ctx, F, nb, ntm, sel):
            return
        if not ctx.check(place is not None, "next:advance-loop", "no loop over the positions 0..sets.len() found in next (or in a helper it calls)", nb.where(), detail="for idx in 0..sets.len()"):
            return
        _advance_rows(ctx, F, nb, *place)


NFINAL = ("call", "std::vec::Vec::<T, A>::len", (FINAL,))
_FINAL_LEN_OK = {}


def _based_on(place, root):
    """the written place lies inside `root` (root itself, an element or a field of it)"""
    t = place
    while True:
        if t == root:
            return True
        if t[0] in ("at", "field", "index", "deref") and len(t) > 1 and isinstance(t[1], tuple):
            t = t[1]
        else:
            return False


def _is_nsets(t):
    """the number of sets: sets.len(), or final_pos.len() when `from` builds final_pos with one entry per set (and nothing else
    writes it: the field is private and `next` is checked not to store into it)"""
    if t is None:
        return False
    t = clean(t)
    t = rewrite(t, lambda y: ("call", "std::vec::Vec::<T, A>::len", y[2]) if y[0] == "call" and len(y[2]) == 1 and re.search(r"(slice::<impl \[T\]>|Vec::<T, A>)::len$", y[1]) else None)
    return t == NSETS or (t == NFINAL and _FINAL_LEN_OK.get("ok", False))


def _final_len_invariant(F):
    """final_pos has exactly one entry per set: built position by position from `sets` in From::from"""
    fp = "<%s<'a, T> as std::convert::From<&'a std::vec::Vec<std::vec::Vec<T>>>>::from" % MS
    b = F.bodies.get(fp)
    if b is None:
        return False
    rt = nosite(deep_strip(Terms(b).return_term()))
    if not (rt[0] == "agg" and rt[1] == MS):
        return False
    fpos = dict(rt[3]).get("final_pos")
    pf = positional_form(F, fpos) if fpos is not None else None
    return pf is not None and pf[1] == {("len", ("arg", 1))}


def cleanT(t):
    """clean(), reading `self.pos.take()` as self.pos (the caller checks that the state is stored again on every path that took it)"""
    return rewrite(clean(t), lambda y: cleanT(y[2][0]) if y[0] == "call" and len(y[2]) == 1 and re.search(r"Option::<T>::take$|mem::take$", y[1]) and clean(y[2][0]) == POS else None)


def _is_len_of(x, what):
    x = x[1] if x[0] == "len" else x
    return x == what or (x[0] == "call" and re.search(r"::len$", x[1]) is not None and len(x[2]) == 1 and x[2][0] == what)


def _declarative_step(ctx, F, nb, ntm, sel):
    """The step written without a loop over the positions: tick = first i with pos[i] < final_pos[i] (none => finished);
    pos[..tick] = 0; pos[tick] += 1.  Same transition as the loop form: the positions before the first one below its final value
    are exactly those at their final value, and no such position exists iff the last one was passed (or there are no sets).
    Returns False when this shape is not present (the caller then reports the missing loop)."""
    I = ("i",)
    ps = [c for c in nb.calls() if c.callee and (itm(c.callee, "position") or itm(c.callee, "find"))]
    if len(ps) != 1:
        return False
    pc = ps[0]
    recv = cleanT(ntm.operand(pc.args[0], pc.bb))
    cl = ntm.operand(pc.args[1], pc.bb)
    while cl[0] in ("mut", "ref"):
        cl = cl[1]
    pf = positional_form(F, recv, I)
    if pf is None or cl[0] != "closure" or cl[1] not in F.bodies:
        return False
    pf = (pf[0], {("len", POS) if _is_len_of(x, POS) else (("len", FINAL) if _is_len_of(x, FINAL) else x) for x in pf[1]})
    elem = pf[0]
    if itm(pc.callee, "find") and elem != I:
        # `find` yields the element, `position` its index: the same thing only for (0..n).find(..)
        return False
    crt = clean(Terms(F.bodies[cl[1]]).return_term())
    test = proj_simplify(cleanT(substitute_closure(crt, tuple(cleanT(x) for x in cl[2]), (elem,))))
    c = as_cmp(test)
    c = canon_cmp(c) if c else None
    okp = c == ("Lt", ("at", POS, I), ("at", FINAL, I)) and pf[1] <= {("len", POS), ("len", FINAL)} and not [x for x in calls_in(recv) if re.search(r"Iterator>?::(take|skip|filter|step_by|rev|chain)$", x[1])]
    ctx.check(okp, "next:advance-loop", "the position to advance is not the first i with pos[i] < final_pos[i] over all positions: %s" % short(test)[:120], pc.where(), detail="tick = position(pos[i] < final_pos[i])")
    if not okp:
        return True
    TICK = cleanT(ntm.call_term(pc.term, pc.bb))
    # the switch on the search result
    cont = brk = None
    for sbb, dt, names, t in switches(nb, ntm):
        d_ = cleanT(dt)
        if d_[0] == "discr" and d_[1][0] == "call" and d_[1][1].endswith("Try>::branch") and len(d_[1][2]) == 1:
            d_ = ("discr", d_[1][2][0])
        if d_[0] == "discr" and d_[1] == TICK and names:
            vs = set(names.values())
            if vs == {"Continue", "Break"}:
                cont, brk = switch_target(t, names, "Continue"), switch_target(t, names, "Break")
            elif vs == {"Some", "None"}:
                cont, brk = switch_target(t, names, "Some"), switch_target(t, names, "None")
    if cont is None:
        ctx.bad("next:finish-after-last", "the result of the search for the position to advance is not inspected", pc.where())
        return True
    # all writes through pointers, classified
    state, zero, inc, other = [], [], [], []
    loops = nb.natural_loops()
    in_loop = set().union(*[set(bl) for _, bl in loops]) if loops else set()
    for bb, blk in enumerate(nb.blocks):
        if blk["cleanup"]:
            continue
        for pos_, st_ in enumerate(blk["stmts"]):
            if not (st_["k"] == "assign" and st_["place"]["p"] and st_["place"]["p"][0]["k"] == "deref"):
                continue
            pt, v = cleanT(ntm.place(st_["place"], bb, pos_)), cleanT(ntm.rvalue(st_["rv"], bb, pos_))
            if pt == POS:
                state.append((bb, v))
            elif pt == ("at", POS, TICK) and v == ("bin", "Add", pt, ("const", "usize", 1)):
                inc.append(bb)
            elif v == ("const", "usize", 0) and pt[0] == "call" and re.search(r"::next$", pt[1]):
                zero.append((bb, pt))
            else:
                other.append((short(pt)[:60], short(v)[:60]))
    dom = lambda a, b_: nb.dominates(a, b_)
    okinc = len(inc) == 1 and dom(cont, inc[0]) and inc[0] not in in_loop and not other
    ctx.check(okinc, "next:increment-by-one", "the found position is not incremented by exactly 1, once, after the search succeeded (increments %d, other writes %s)" % (len(inc), other[:2]), nb.where(), detail="pos[tick] += 1")
    # the prefix before tick is rewound: for r in pos.iter_mut().take(tick) { *r = 0 } / pos[..tick].fill(0)
    okz = False
    if len(zero) == 1 and zero[0][0] in in_loop and dom(cont, zero[0][0]):
        src, steps = chain_steps(F, zero[0][1][2][0])
        names_ = [n for n, _ in steps]
        okz = src == POS and [n for n in names_ if n not in ("iter_mut", "into_iter")] == ["take"] and [v for n, v in steps if n == "take"] == [TICK]
    fills = [cleanT(ntm.call_term(c_.term, c_.bb)) for c_ in nb.calls() if c_.callee and re.search(r"slice::<impl \[T\]>::fill$", c_.callee)]
    if not zero and len(fills) == 1:
        fv = fills[0]
        okz = fv[2][1] == ("const", "usize", 0) and fv[2][0][0] == "at" and fv[2][0][1] == POS and fv[2][0][2][0] == "agg" and fv[2][0][2][1].endswith("ops::RangeTo") and dict(fv[2][0][2][3]).get("end") == TICK
    ctx.check(okz, "next:reset-lower-to-zero", "the positions before the advanced one are not all rewound to 0 (and only those)", nb.where(), detail="pos[..tick] = 0")
    # the state afterwards: None exactly when no position is below its final value, else the advanced vector; stored on
    # every path that leaves with a combination
    oks, why = len(state) == 1, "self.pos is stored %d times" % len(state)
    if oks:
        sbb_, v = state[0]
        alts = list(v[1]) if v[0] == "phi" else [v]
        nones = [a for a in alts if a == NONE_ or (a[0] == "call" and a[1].endswith("::from_residual"))]
        somes = [a for a in alts if a == _some(POS)]
        oks = len(nones) >= 1 and len(somes) == 1 and len(nones) + len(somes) == len(alts)
        why = "the stored state is not None / Some(advanced position): %s" % short(v)[:120]
        if oks:
            # Some(..) is built only after a successful search; a None only on its failing side
            for bb, blk in enumerate(nb.blocks):
                if blk["cleanup"]:
                    continue
                for pos_, st_ in enumerate(blk["stmts"]):
                    if st_["k"] == "assign" and st_["rv"]["k"] == "agg" and st_["rv"].get("variant") == "Some" and cleanT(ntm.rvalue(st_["rv"], bb, pos_)) == _some(POS) and not dom(cont, bb):
                        oks, why = False, "the advanced position is stored without a successful search"
            if inc and not dom(inc[0], sbb_) and dom(cont, sbb_):
                oks, why = False, "the state is stored before the increment"
        if oks and sel is not None:
            # after `take()`, every way out of the non-exhausted side stores the state again
            live = [t_ for t_ in nb.succ[sel[0]] if t_ != sel[1] and not nb.blocks[t_]["cleanup"]]
            for st_bb in live:
                reach = nb.reachable(start=st_bb, removed_blocks=[sbb_])
                if any(nb.blocks[x]["term"]["k"] == "return" for x in reach):
                    oks, why = False, "a combination is returned without storing the next state"
    ctx.check(oks, "next:finish-after-last", "the iterator does not finish exactly when no position is below its final value: %s" % why, nb.where(), detail="no pos[i] < final_pos[i] => None")
    ctx.check(oks, "next:zero-sets=>one-combination", "the state after a step is not `None if finished else Some(advanced)`: %s" % why, nb.where(), detail="zero sets: the search finds nothing => finished after the one empty combination")
    return True


def _range_index(rows, sub):
    """the loop variable if the loop runs over 0..sets.len(): the term of the range's next() call"""
    found = set()
    for r in rows:
        if r.kind == "diverge" and not r.conds:
            continue
        if not r.conds:
            return None
        # the first decision of every turn is the range's next()
        d = clean(sub(r.conds[0][0]))
        if not (d[0] == "discr" and d[1][0] == "call" and re.search(r"::next$", d[1][1])):
            return None
        rng = [x for x in subterms(d[1]) if x[0] == "agg" and x[1].endswith("ops::Range")]
        if not (rng and dict(rng[0][3]).get("start") == ("const", "usize", 0) and _is_nsets(dict(rng[0][3]).get("end"))) or calls_in(d[1], "take") or calls_in(d[1], "rev") or calls_in(d[1], "skip"):
            return None
        found.add(d[1])
    return list(found)[0] if len(found) == 1 else None


def _advance_rows(ctx, F, nb, body, via, head, rows, sub, idx_call):
    C = lambda t: clean(sub(t))
    IDX = idx_call
    AT_POS, AT_FIN = ("at", POS, IDX), ("at", FINAL, IDX)
    A = Arith(F, {IDX: "i", NSETS: "n"})
    if _FINAL_LEN_OK.get("ok"):
        A.symbols[NFINAL] = "n"
        A.symbols[("call", "std::slice::<impl [T]>::len", (FINAL,))] = "n"
    last_form = Ratio(Poly.sym("i")) - Ratio(Poly.sym("n")) + Ratio(Poly.const(1))

    def classify(r):
        """(range yields an index?, pos[idx] < final[idx]?, idx is the last position?) known on this path; None = unknown"""
        some = lt = last = None
        bad = []
        for dt, label, bb in r.conds:
            d = C(dt)
            if d == ("discr", IDX):
                names = set(label[1]) if isinstance(label, tuple) else {label}
                some = "Some" in names
        for op, a, b in r.facts:
            a, b = C(a), C(b)
            if {a, b} == {AT_POS, AT_FIN}:
                if (op, a, b) == ("Lt", AT_POS, AT_FIN):
                    lt = True
                elif (op, a, b) == ("Le", AT_FIN, AT_POS):
                    lt = False
                else:
                    bad.append((op, short(a), short(b)))
            elif op in ("Eq", "Ne") and (contains(a, lambda q: q == IDX) or contains(b, lambda q: q == IDX)):
                try:
                    dlt = A.ev(a) - A.ev(b)
                except Exception:
                    bad.append((op, short(a)[:60], short(b)[:60]))
                    continue
                if dlt.equals(last_form) or (Ratio(Poly.const(0)) - dlt).equals(last_form):
                    last = op == "Eq"
                else:
                    bad.append((op, short(a)[:60], short(b)[:60]))
        return some, lt, last, bad

    # stores of one row, split into writes into the working vector and the final state update
    def effects(r):
        inc, zero, other, state = [], [], [], []
        for ptr, val in r.stores:
            pt, v = C(ptr), C(val)
            if pt == POS:
                state.append(nosite(sub(val)))
                continue
            if pt[0] == "at" and pt[1] == POS:
                if v == ("const", "usize", 0):
                    zero.append(pt[2])
                elif v == ("bin", "Add", pt, ("const", "usize", 1)) and pt[2] == IDX:
                    inc.append(pt[2])
                    rp = nosite(sub(ptr))
                    if rp[0] == "call" and len(rp[2]) == 2:
                        working.add(rp[2][0])
                else:
                    other.append((short(pt)[:60], short(v)[:60]))
                continue
            # `for r in pos.iter_mut().take(idx + 1) { *r = 0 }`: the pointer is the element of an iterator over the vector
            if v == ("const", "usize", 0) and pt[0] == "call" and re.search(r"::next$", pt[1]) and _prefix_upto(F, pt, IDX):
                zero.append(("prefix", IDX))
                continue
            other.append((short(pt)[:60], short(v)[:60]))
        # `pos[..=idx].fill(0)` / `pos[..idx + 1].fill(0)`
        for _bb, cv in r.calls:
            cv = C(cv)
            if cv[0] == "call" and re.search(r"slice::<impl \[T\]>::fill$", cv[1]) and len(cv[2]) == 2 and contains(cv[2][0], lambda q: q == POS):
                tgt = cv[2][0]
                okp = False
                if cv[2][1] == ("const", "usize", 0) and tgt[0] == "at" and tgt[1] == POS and tgt[2][0] == "agg":
                    flds = dict(tgt[2][3])
                    if tgt[2][1].endswith("RangeToInclusive") and "start" not in flds:
                        okp = flds.get("end") == IDX
                    elif tgt[2][1].endswith("ops::RangeTo"):
                        try:
                            okp = A.ev(flds.get("end")).equals(Ratio(Poly.sym("i")) + Ratio(Poly.const(1)))
                        except Exception:
                            okp = False
                if okp:
                    zero.append(("prefix", IDX))
                else:
                    other.append(("fill", short(cv)[:80]))
        return inc, zero, other, state

    working = set()  # the vector that is advanced in place (raw term, with its mutation marker)
    n_inc = n_fin = n_cont = 0
    bad_rows = []
    flag_rows = []
    for r in rows:
        if r.kind == "diverge":
            continue
        some, lt, last, bad = classify(r)
        inc, zero, other, state = effects(r)
        leaves = r.kind == "return"
        where = "idx=%s lt=%s last=%s kind=%s" % (some, lt, last, r.kind)
        if bad:
            bad_rows.append(("unrecognised comparison %s" % bad[:2], where))
            continue
        if other:
            bad_rows.append(("unexpected write %s" % other[:2], where))
            continue
        if some is None:
            # the inner fill loop's own rows are judged through the outer rows that run into them ('cycle')
            bad_rows.append(("path does not consult the range", where))
            continue
        if not some:
            # range exhausted: nothing may change; the flag keeps its initial value
            if inc or zero or not leaves:
                bad_rows.append(("the position changes after the range is exhausted", where))
            flag_rows.append((r, "exhausted", state))
            continue
        if lt is True:
            if not (inc == [IDX] and not zero and leaves):
                bad_rows.append(("pos[idx] < final[idx] does not lead to exactly pos[idx] += 1 and leaving the loop (inc=%d zero=%d leaves=%s)" % (len(inc), len(zero), leaves), where))
            n_inc += 1
            flag_rows.append((r, "initial", state))
        elif lt is False and last is True:
            if inc or not leaves:
                bad_rows.append(("the last position at its final value does not finish the iterator", where))
            n_fin += 1
            flag_rows.append((r, "finished", state))
        elif lt is False and last is False:
            # continue with the next position: this one is rewound, nothing is incremented
            covers = any(z == IDX or z == ("prefix", IDX) for z in zero)
            if r.kind == "back":
                # the zeroing may have happened in an inner loop on the way (then a sibling 'cycle' row shows it)
                sib = [x for x in rows if x.kind == "cycle" and classify(x)[:3] == (some, lt, last)]
                covers = covers or any(any(z == ("prefix", IDX) for z in effects(x)[1]) and not effects(x)[0] and not effects(x)[2] for x in sib)
            elif r.kind == "cycle":
                covers = covers or True  # judged with its 'back' sibling
            if inc or leaves or not covers:
                bad_rows.append(("a position at its final value (not the last one) is not rewound to 0 before moving on (inc=%d leaves=%s rewound=%s)" % (len(inc), leaves, covers), where))
            n_cont += 1
        else:
            bad_rows.append(("path decides without comparing pos[idx] with final_pos[idx] (and idx with the last index)", where))
    ctx.check(not bad_rows and n_inc >= 1, "next:increment-by-one", "the first position below its final value is not incremented by exactly 1 (`pos[i] < final_pos[i]` => pos[i] += 1; stop): %s" % (bad_rows[:2],), body.where(), detail="pos[i] < final[i] => pos[i] += 1; break")
    ctx.check(not bad_rows and n_fin >= 1, "next:finish-after-last", "the iterator does not finish exactly when the last position (index len-1) is at its final value: %s" % (bad_rows[:2],), body.where(), detail="idx == len - 1 => finished")
    ctx.check(not bad_rows and n_cont >= 1, "next:reset-lower-to-zero", "passed positions are not rewound to 0: %s" % (bad_rows[:2],), body.where(), detail="pos[i] = 0 for the positions passed")
    # (4) the state after the step: None when finished, else the advanced vector; `finished` starts as "there are no sets"
    okz = True
    why = ""
    if via is None:
        for r, flag, state in flag_rows:
            if len(state) != 1:
                okz, why = False, "a path stores self.pos %d times" % len(state)
                continue
            st_ = state[0]
            is_none = nosite(deep_strip(st_)) == NONE_ or st_ == NONE_
            zero_conds = [cond_truth(label) for dt, label, bb in r.conds if not isinstance(label, tuple) and _zero_sets_term(sub(dt))]
            if flag == "finished":
                if not is_none:
                    okz, why = False, "a finished iterator keeps a position"
            else:
                # initial flag: None exactly on the paths where `sets` was found empty.  Without such a test on the path: a turn
                # that incremented a position had a set to work on (Some), an exhausted range without leaving means no sets (None)
                if not zero_conds and is_none == (flag == "exhausted") and (is_none or clean(st_) == _some(POS)):
                    pass
                elif len(zero_conds) != 1 or zero_conds[0] != is_none or (not is_none and clean(st_) != _some(POS)):
                    okz, why = False, "the stored state does not follow `no sets => finished`: tests=%s stores None=%s" % (zero_conds, is_none)
                elif not is_none and not (len(working) == 1 and st_[0] == "agg" and st_[3] and st_[3][0][1] in working):
                    okz, why = False, "the vector stored as the new state is not the one that was advanced"
    else:
        # helper form: it returns (advanced vector, finished); the caller stores None / Some(vector) by that flag
        for r, flag, state in flag_rows:
            rt = nosite(sub(r.ret)) if r.ret is not None else None
            if rt is None or rt[0] != "tuple" or len(rt[1]) != 2:
                okz, why = False, "the helper does not return (position, finished)"
                continue
            fl = rt[1][1]
            if flag == "finished":
                okz = okz and fl == ("const", "bool", True)
            else:
                okz = okz and _zero_sets_term(fl)
            okz = okz and clean(rt[1][0]) == POS and len(working) == 1 and rt[1][0] in working
        if okz:
            okz, why = _caller_stores_by_flag(F, nb, via), "next does not store None when the helper reports finished and Some(position) otherwise"
    ctx.check(okz and bool(flag_rows), "next:zero-sets=>one-combination", "the state after a step is not `None if finished else Some(advanced)` with finished starting as sets.is_empty(): %s" % why, body.where(), detail="finished = sets.is_empty()")


def _prefix_upto(F, ptr, IDX):
    """ptr is the element of `pos.iter_mut().take(idx + 1)` (or of `pos[..=idx].iter_mut()`): a prefix that includes idx"""
    A = Arith(F, {IDX: "i"})
    for x in subterms(ptr):
        if x[0] == "call" and itm(x[1], "take") and len(x[2]) == 2:
            base = x[2][0]
            okb = contains(base, lambda q: q == POS) and not [y for y in calls_in(base) if re.search(r"Iterator>?::(skip|rev|step_by|filter)$", y[1])]
            try:
                return okb and A.ev(x[2][1]).equals(Ratio(Poly.sym("i")) + Ratio(Poly.const(1)))
            except Exception:
                return False
    return False


def _caller_stores_by_flag(F, nb, via):
    tm = Terms(nb)
    call = clean(tm.call_term(via.term, via.bb))
    sw = [(sbb, t) for sbb, dt, names, t in switches(nb, tm) if names is None and clean(dt) == ("field", call, "1")]
    if len(sw) != 1:
        return False
    sbb, t = sw[0]
    f_, tr_ = bool_targets(t)
    if f_ is None or f_ == tr_:
        return False
    ok = True
    for truth, dead in ((True, f_), (False, tr_)):
        ptm = partitioned_terms(nb, [(sbb, dead)])
        vals = []
        for bb, blk in enumerate(nb.blocks):
            if bb not in ptm.live or blk["cleanup"]:
                continue
            for pos, st_ in enumerate(blk["stmts"]):
                if st_["k"] == "assign" and st_["place"]["p"] and st_["place"]["p"][0]["k"] == "deref" and clean(ptm.place(st_["place"], bb, pos)) == POS:
                    v = clean(ptm.rvalue(st_["rv"], bb, pos))
                    if v[0] != "undef":
                        vals.append(v)
        want = NONE_ if truth else _some(("field", call, "0"))
        ok = ok and vals == [want]
    return ok


def R4_product_reaches_the_search(ctx):
    """"exactly n1 x ... x nm queries": the expanded array leaves the input stage as the plugins made it (shared with C06.R8; round 7:
    a cap of 4096 expanded queries per input, applied with `truncate` after flattening)"""
    from props.C06 import R8_expansion_intact
    R8_expansion_intact(ctx)


RULES = [R1_plugin, R2_flatten, R3_odometer, R4_product_reaches_the_search]
