"""C13 — k-shortest-paths returns up to k valid, distinct routes, best first, and ends."""
from core import *
import astar

EXPLANATION = (
    "C13: the 'accept all' similarity never rejects (is_similar is the constant false; threshold variants are similarity >= threshold); "
    "cosine similarity = a.b / (|a| |b|) with each norm taken over its own route; single-via pipeline: the first route is the forward "
    "tree's backtracked route, a candidate is pushed only if it is loop-free, not an exact duplicate and dissimilar to every accepted "
    "route, via vertices are queued only when they can be backtracked in both trees, the loop pops once per turn and ends on the criteria "
    "or an empty queue, the result is take(k); Yen's structure (first route, spur instance = caller's instance with the cut frontier, cut "
    "edge = edge after the root, loop-freedom, dissimilar to every accepted route, one acceptance per outer turn, spur-search failures not "
    "propagated, progress); criteria table and k override. Not decided: route validity on every graph, similarity values."
)

K = astar.A + "ksp::"
SIM = astar.A + "util::route_similarity_function::"
RSF = SIM + "RouteSimilarityFunction"
BT = astar.A + "backtrack::vertex_oriented_route"
OPS = astar.A + "a_star::bidirectional_ops::"


def R1_similarity(ctx):
    """C13.R1 'accept all' rejects nothing; thresholds; cosine"""
    F = ctx.F
    ctx.rule("C13.R1", "is_similar: AcceptAll => false (never 'too similar'), threshold variants => similarity >= threshold; test_similarity = is_similar(rank_similarity(a,b)); rank(AcceptAll) constant; Default = AcceptAll; cosine = a.b/(|a||b|) with |a| over a's own map and |b| over b's", floor=9)
    b = F.need(RSF + "::is_similar")
    got = {}
    for r in table(b):
        if r.end == "return":
            got[r.sel.get(("arg", 1))] = r.ret
    ctx.check(got.get("AcceptAll") == ("const", "bool", False), "is_similar:AcceptAll", "AcceptAll.is_similar(_) is %s; both k-shortest-path algorithms reject a candidate when is_similar is true, so 'accept all' must be the constant false" % (short(got.get("AcceptAll")) if got.get("AcceptAll") else None), b.where(), detail="false")
    for v in ("EdgeIdCosineSimilarity", "DistanceWeightedCosineSimilarity"):
        c = as_cmp(got[v]) if v in got else None
        ok = bool(c) and canon_cmp(c) == ("Le", ("field", ("variant", ("arg", 1), v), "threshold"), ("arg", 2))
        ctx.check(ok, "is_similar:%s" % v, "%s is not `similarity >= threshold`: %s" % (v, short(got.get(v)) if v in got else None), b.where(), detail="similarity >= threshold")
    variants = {v["name"] for v in F.adts[RSF]["variants"]}
    ctx.check(variants == set(got), "is_similar:variants", "variants %s vs decided %s" % (sorted(variants), sorted(map(str, got))), b.where())
    tb = F.need(RSF + "::test_similarity")
    oks = [r for r in table(tb) if r.end == "return" and result_variant(r.ret) == "Ok"]
    want = ("call", RSF + "::is_similar", (("arg", 1), ("call", RSF + "::rank_similarity", (("arg", 1), ("arg", 2), ("arg", 3), ("arg", 4)))))
    ctx.check(len(oks) == 1 and unmut(agg_payload(oks[0].ret)) == want, "test_similarity", "test_similarity is not is_similar(rank_similarity(a, b, si))", tb.where(), detail="is_similar(rank(a,b))")
    rb = F.need(RSF + "::rank_similarity")
    rows = [r for r in table(rb) if r.end == "return" and r.sel.get(("arg", 1)) == "AcceptAll"]
    ctx.check(len(rows) == 1 and result_variant(rows[0].ret) == "Ok" and agg_payload(rows[0].ret)[0] == "const", "rank:AcceptAll", "rank_similarity(AcceptAll) is not a constant", rb.where())
    for v in ("EdgeIdCosineSimilarity", "DistanceWeightedCosineSimilarity"):
        rows = [r for r in table(rb) if r.end == "return" and r.sel.get(("arg", 1)) == v]
        ok = len(rows) == 1 and rows[0].ret[0] == "call" and rows[0].ret[1] == SIM + "cos_similarity" and rows[0].ret[2][:2] == (("arg", 2), ("arg", 3))
        ctx.check(ok, "rank:%s" % v, "%s is not cos_similarity(a, b, weight function)" % v, rb.where(), detail="cos_similarity(a, b, ..)")
    db = [p for p in F.bodies if p.startswith("<%s as std::default::Default>::default" % RSF)]
    okd = bool(db) and nosite(deep_strip(Terms(F.bodies[db[0]]).return_term())) == ("agg", RSF, "AcceptAll", ())
    ctx.check(okd, "default=AcceptAll", "the default similarity function is not AcceptAll", None)
    # cosine
    cb = F.need(SIM + "cos_similarity")
    oks = [r for r in table(cb) if r.end == "return" and result_variant(r.ret) == "Ok"]
    okc = len(oks) == 1
    if okc:
        v = agg_payload(oks[0].ret)
        okc = v[0] == "bin" and v[1] == "Div" and v[3][0] == "bin" and v[3][1] == "Mul"
        if okc:
            def norm_src(t):
                # sqrt(sum(map(values(MAP), sq)))  -> which argument MAP was built from
                if not (t[0] == "call" and t[1].endswith("::sqrt")):
                    return None
                vals = [x for x in calls_in(t) if x[1].endswith("HashMap::<K, V, S, A>::values")]
                if len(vals) != 1:
                    return None
                its = [x for x in calls_in(vals[0]) if x[1] == "std::slice::<impl [T]>::iter"]
                sq = [x for x in subterms(t) if x[0] == "closure"]
                sq_ok = False
                for k in sq:
                    kb = F.bodies.get(k[1])
                    if kb is not None:
                        rt = nosite(deep_strip(Terms(kb).return_term()))
                        A = Arith(F, {("arg", 2): "d"})
                        if A.ev(rt).equals(Ratio(Poly.sym("d")) * Ratio(Poly.sym("d"))):
                            sq_ok = True
                return its[0][2][0] if len(its) == 1 and sq_ok else None
            na, nb = norm_src(v[3][2]), norm_src(v[3][3])
            okc = {repr(na), repr(nb)} == {repr(("arg", 1)), repr(("arg", 2))}
            ctx.check(okc, "cosine:norms", "the denominator is not |a|*|b| with each norm (sqrt of the sum of squares) over its own route: norms are over %s and %s" % (short(na) if na else None, short(nb) if nb else None), cb.where(), detail="sqrt(sum a^2) * sqrt(sum b^2)")
            num = v[2]
            un = [x for x in calls_in(num) if x[1].endswith("HashSet::<T, S>::union") or x[1].endswith("::union")]
            cl = [x for x in subterms(num) if x[0] == "closure"]
            okn = len(un) >= 1
            prod = False
            for k in cl:
                kb = F.bodies.get(k[1])
                if kb is None:
                    continue
                rt = nosite(deep_strip(Terms(kb).return_term()))
                if rt[0] == "bin" and rt[1] == "Mul":
                    gets = [x for x in calls_in(rt) if x[1].endswith("HashMap::<K, V, S, A>::get")]
                    if len(gets) == 2 and gets[0][2][0] != gets[1][2][0] and gets[0][2][1] == gets[1][2][1]:
                        prod = True
            ctx.check(okn and prod, "cosine:dot-product", "the numerator is not the sum over the union of edges of a[e]*b[e]", cb.where(), detail="sum_e a[e]*b[e]")
    else:
        ctx.bad("cosine:shape", "cos_similarity has no single Ok path", cb.where())


def gate_var_analysis(b, tm, push):
    """the push is guarded by a bool local: returns (local, false_assign_blocks)"""
    for sbb, dt, names, t in switches(b, tm):
        if sbb in b.dom.get(push.bb, ()):
            d = tm.operand(t["discr"], sbb)
            op = t["discr"]
            if op["k"] in ("copy", "move") and not op["place"]["p"]:
                l = op["place"]["l"]
                # follow one copy
                ds = [x for x in b.defs.get(l, []) if not x[2]]
                if len(ds) == 1 and ds[0][1] != "term":
                    rv = b.blocks[ds[0][0]]["stmts"][ds[0][1]]["rv"]
                    if rv["k"] == "use" and rv["op"]["k"] in ("copy", "move") and not rv["op"]["place"]["p"]:
                        l = rv["op"]["place"]["l"]
                        ds = [x for x in b.defs.get(l, []) if not x[2]]
                consts = []
                for (bb, pos, _) in ds:
                    if pos == "term":
                        consts = None
                        break
                    rv = b.blocks[bb]["stmts"][pos]["rv"]
                    if rv["k"] == "use" and rv["op"]["k"] == "const" and "bool" in rv["op"]:
                        consts.append((bb, rv["op"]["bool"]))
                    else:
                        consts = None
                        break
                if consts and any(v for _, v in consts) and any(not v for _, v in consts):
                    f, tr = bool_targets(t)
                    if must_pass_edge(b, 0, (sbb, tr), push.bb):
                        return l, [bb for bb, v in consts if not v], sbb
    return None


def controlling_true(b, tm, block):
    """stripped terms of the bool switches whose *true* edge dominates `block`"""
    out = []
    for sbb, dt, names, t in switches(b, tm):
        if names is not None:
            continue
        f, tr = bool_targets(t)
        if tr is not None and tr != f and b.dominates(tr, block) and sbb in b.dom.get(block, ()):
            out.append((sbb, nosite(deep_strip(dt))))
    return out


def R2_single_via(ctx):
    """C13.R2 acceptance pipeline (single-via)"""
    F = ctx.F
    ctx.rule("C13.R2", "single-via: solution[0] = backtrack(source, target, forward tree); a candidate is pushed only when loop-free, not a duplicate and dissimilar to every accepted route; via vertices are queued only if backtrackable in both trees; one pop per turn, exits on criteria / empty queue; result = take(k)", floor=11)
    b = F.need(K + "single_via_paths_algorithm::run")
    tm = Terms(b)
    pushes = [c for c in b.calls() if c.callee and c.callee.startswith("std::vec::Vec::<T, A>::push") and innermost_loop(b, c.bb) is not None]
    if len(pushes) != 1:
        raise AnchorMissing("single solution.push in the single-via loop (found %d)" % len(pushes))
    push = pushes[0]
    sol = deep_strip(tm.operand(push.args[0], push.bb))
    cand = nosite(deep_strip(tm.operand(push.args[1], push.bb)))
    # first route
    firsts = [c for c in b.calls_to(BT) if innermost_loop(b, c.bb) is None]
    okf = len(firsts) == 1
    if okf:
        a = [nosite(deep_strip(tm.operand(x, firsts[0].bb))) for x in firsts[0].args]
        okf = a[0] == ("field", ("arg", 1), "source") and a[1] == ("field", ("arg", 1), "target") and bool(calls_in(a[2], "first")) and contains(a[2], lambda s: s == ("agg", astar.A + "direction::Direction", "Forward", ()))
    ctx.check(okf, "first-route", "solution[0] is not the forward tree's backtracked route from source to target", b.where(), detail="backtrack(source, target, fwd_tree)")
    # gate variable
    ga = gate_var_analysis(b, tm, push)
    if ga is None:
        ctx.bad("push-gated", "the push of a candidate is not guarded by an acceptance flag", push.where())
        return
    flag, false_blocks, gsw = ga
    ctx.ok("push-gated", "flag local %d" % flag)
    loopc = b.calls_to(OPS + "route_contains_loop")
    dupc = b.calls_to(K + "single_via_paths_algorithm::test_id_similarity")
    simc = b.calls_to(RSF + "::test_similarity")
    reasons = {"loop": False, "similar": False}
    for fb in false_blocks:
        ctl = controlling_true(b, tm, fb)
        terms = [t for _, t in ctl]
        for t in terms:
            if t[0] == "call" and t[1] == OPS + "route_contains_loop" and t[2][0] == cand:
                reasons["loop"] = True
            has_dup = contains(t, lambda s: s[0] == "call" and s[1].endswith("test_id_similarity")) or any(contains(x, lambda s: s[0] == "call" and s[1].endswith("test_id_similarity")) for x in terms)
        # `duplicate || too_similar` inside a loop over all accepted routes; the clearing block itself has
        # left the natural loop (break), so membership is decided by dominance of the loop head
        for h, blocks in b.natural_loops():
            nx = [c for c in b.calls() if c.func.get("method") == "next" and c.bb in blocks and innermost_loop(b, c.bb) == (h, blocks)]
            if not nx or not dupc or not simc:
                continue
            recv = deep_strip(tm.operand(nx[0].args[0], nx[0].bb))
            over_all = contains(recv, lambda s: s == sol) and not [x for x in calls_in(recv) if re.search(r"Iterator>?::(take|skip|filter|step_by|rev)$", x[1])]
            if not over_all or not all(c.bb in blocks for c in dupc + simc) or not b.dominates(nx[0].bb, fb):
                continue
            hits = 0
            for c in (dupc[0], simc[0]):
                verdict = nosite(strip_try(deep_strip(tm.call_term(c.term, c.bb))))
                for sbb, dt, names, t in switches(b, tm):
                    if sbb in blocks and nosite(deep_strip(dt)) == verdict:
                        f_, tr_ = bool_targets(t)
                        if fb in b.reachable(start=tr_, removed_blocks=[nx[0].bb]) and fb not in b.reachable(start=f_, removed_blocks=[nx[0].bb, tr_]) or (fb in b.reachable(start=tr_, removed_blocks=[nx[0].bb])):
                            hits += 1
                        break
            if hits == 2:
                reasons["similar"] = True
    ctx.check(reasons["loop"], "reject:loop", "a candidate containing a loop is not rejected (flag cleared when route_contains_loop(candidate) is true)", push.where(), detail="route_contains_loop(candidate) => reject")
    ctx.check(reasons["similar"], "reject:duplicate-or-similar", "the candidate is not compared (exact duplicate and similarity) with every already accepted route", push.where(), detail="for each accepted: duplicate || too_similar => reject")
    if dupc and simc:
        a = [nosite(deep_strip(tm.operand(x, dupc[0].bb))) for x in dupc[0].args]
        ctx.check(a[0] == cand, "duplicate-test-on-candidate", "duplicate test is not applied to the candidate", dupc[0].where())
        s = [nosite(deep_strip(tm.operand(x, simc[0].bb))) for x in simc[0].args]
        ctx.check(contains(s[1], lambda x: x == cand) and s[3] == ("arg", 4) and unmut(s[0]) == ("arg", 3), "similarity-test-on-candidate", "similarity test is not applied to (candidate, accepted route) with the configured function", simc[0].where())
        pr = try_propagation(b, simc[0], tm)
        ctx.check(pr["kind"] == "propagated", "similarity-error", "Err of test_similarity not propagated", simc[0].where())
    # the two tests
    tid = F.need(K + "single_via_paths_algorithm::test_id_similarity")
    rows = [r for r in table(tid, max_paths=100000) if r.end == "return"]
    la, lb = ("call", "std::slice::<impl [T]>::len", (("arg", 1),)), ("call", "std::slice::<impl [T]>::len", (("arg", 2),))
    ok_len = any(("Ne", la, lb) in r.facts or ("Ne", lb, la) in r.facts for r in rows if r.ret == ("const", "bool", False))
    ctx.check(ok_len, "duplicate:length", "routes of different length are not reported as different", tid.where())
    # queue population guard
    qp = [c for c in b.calls() if c.callee and "PriorityQueue" in c.callee and c.callee.endswith("::push")]
    okq = len(qp) == 1
    if okq:
        ctl = [t for _, t in controlling_true(b, tm, qp[0].bb)]
        sel = [dt for sbb, dt, names, t in switches(b, tm) if names and b.dominates(switch_target(t, names, "Some"), qp[0].bb) and sbb in b.dom.get(qp[0].bb, ())]
        v = nosite(deep_strip(tm.operand(qp[0].args[1], qp[0].bb)))
        has_ck = any(t[0] == "call" and t[1].endswith("contains_key") and contains(t[2][1], lambda s: s == v) or (t[0] == "call" and t[1].endswith("contains_key") and nosite(t[2][1]) == nosite(v)) for t in ctl)
        has_get = any(contains(nosite(deep_strip(d)), lambda s: s[0] == "call" and s[1].endswith("HashMap::<K, V, S, A>::get")) for d in sel)
        ctx.check(has_ck, "queue:via-in-reverse-tree", "a via vertex is queued without checking that the reverse tree can be backtracked from it (rev tree contains the vertex): its backtrack error would abort an answerable query", qp[0].where(), detail="rev_vertices.contains_key(vertex)")
        ctx.check(has_get, "queue:parent-in-reverse-tree", "a via vertex is queued without its parent appearing in the reverse tree", qp[0].where())
    else:
        ctx.bad("queue:push", "expected one push into the intersection queue, found %d" % len(qp), b.where())
    # loop exits: criteria true, or pop() == None ; one pop per turn
    loop = innermost_loop(b, [c for c in b.calls() if c.callee and "PriorityQueue" in c.callee and c.callee.endswith("::pop")][0].bb)
    outer = outermost_loop(b, push.bb)
    pops = [c for c in b.calls() if c.callee and "PriorityQueue" in c.callee and c.callee.endswith("::pop") and c.bb in outer[1]]
    ctx.check(len(pops) == 1 and pops[0].bb not in b.reach_from_succs(pops[0].bb, removed_blocks=[outer[0]]), "one-pop-per-turn", "the via queue is not popped exactly once per turn", b.where())
    tcs = [c for c in b.calls() if c.callee == K + "ksp_termination_criteria::KspTerminationCriteria::terminate_search" and c.bb in outer[1]]
    okt = len(tcs) == 1
    if okt:
        a = [nosite(deep_strip(tm.operand(x, tcs[0].bb))) for x in tcs[0].args]
        okt = a[1] == ("field", ("arg", 1), "k") and a[2][0] == "call" and a[2][1].endswith("::len") and a[2][2][0] == nosite(sol) and b.dominates(tcs[0].bb, pops[0].bb)
    ctx.check(okt, "criteria-each-turn", "the termination criteria are not tested with (k, number of accepted routes) before every pop", b.where())
    tk = [c for c in b.calls() if c.callee and itm(c.callee, "take")]
    okk = len(tk) == 1 and nosite(deep_strip(tm.operand(tk[0].args[1], tk[0].bb))) == ("field", ("arg", 1), "k") and contains(deep_strip(tm.operand(tk[0].args[0], tk[0].bb)), lambda s: s == sol)
    ctx.check(okk, "take-k", "the result is not the accepted routes truncated to k", b.where(), detail="solution.into_iter().take(k)")


def R2b_loop_test(ctx):
    from props.C01 import loop_test_rule
    loop_test_rule(ctx, "C13.R2b")


def R2c_reorient(ctx):
    from props.C01 import R5_reorient
    R5_reorient(ctx, "C13.R2c")


def R3_yens(ctx):
    """C13.R3 Yen's structure"""
    F = ctx.F
    ctx.rule("C13.R3", "Yen's: first accepted = underlying first route; spur instance = caller's fields with EdgeCutFrontierModel(si.frontier_model, cut_edges); cut edge = accepted_path[spur_idx+1]; loop-free candidates; dissimilar to every accepted; one acceptance per outer turn; spur failures not propagated; progress; spur range guarded", floor=10)
    b = F.need(K + "yens_algorithm::run")
    tm = Terms(b)
    runs = [c for c in b.calls() if c.callee == astar.A + "search_algorithm::SearchAlgorithm::run_vertex_oriented"]
    first = [c for c in runs if innermost_loop(b, c.bb) is None]
    spur = [c for c in runs if innermost_loop(b, c.bb) is not None]
    ctx.check(len(first) == 1 and len(spur) == 1, "searches", "expected one initial and one spur search (found %d/%d)" % (len(first), len(spur)), b.where())
    if len(first) != 1 or len(spur) != 1:
        return
    first, spur = first[0], spur[0]
    a = [nosite(deep_strip(tm.operand(x, first.bb))) for x in first.args]
    ctx.check(a[1] == ("field", ("arg", 1), "source") and a[2] == ("agg", "std::option::Option", "Some", (("0", ("field", ("arg", 1), "target")),)) and a[5] == ("arg", 4), "first-search", "the initial search is not source -> target on the caller's instance", first.where())
    # spur instance
    aggs = [(bb, pos, s) for bb, blk in enumerate(b.blocks) for pos, s in enumerate(blk["stmts"]) if s["k"] == "assign" and s["rv"]["k"] == "agg" and s["rv"].get("adt", "").endswith("search_instance::SearchInstance")]
    oki = len(aggs) == 1
    if oki:
        bb, pos, s = aggs[0]
        f = dict(nosite(deep_strip(tm.rvalue(s["rv"], bb, pos)))[3])
        same = all(f.get(n) == ("field", ("arg", 4), n) for n in ("directed_graph", "state_model", "traversal_model", "access_model", "cost_model", "termination_model"))
        fm = f.get("frontier_model")
        cut = fm is not None and fm[0] == "call" and fm[1].endswith("EdgeCutFrontierModel::new") and fm[2][0] == ("field", ("arg", 4), "frontier_model")
        ctx.check(same, "spur-instance:fields", "the spur SearchInstance does not reuse the caller's graph/state/traversal/access/cost/termination models", b.where(bb))
        ctx.check(cut, "spur-instance:cut-frontier", "the spur frontier is not EdgeCutFrontierModel::new(si.frontier_model, cut_edges)", b.where(bb), detail="EdgeCut(si.frontier_model, cut)")
        sa = [nosite(deep_strip(tm.operand(x, spur.bb))) for x in spur.args]
        ctx.check(contains(sa[5], lambda x: x[0] == "agg" and x[1].endswith("SearchInstance")) or root_local(b, spur.args[5]) == s["place"]["l"], "spur-search:instance", "the spur search does not run on the cut instance", spur.where())
        ctx.check(sa[2] == ("agg", "std::option::Option", "Some", (("0", ("field", ("arg", 1), "target")),)), "spur-search:target", "the spur search does not go to the query's target", spur.where())
    else:
        ctx.bad("spur-instance", "expected one SearchInstance construction, found %d" % len(aggs), b.where())
    # cut edge index
    cuts = [c for c in b.calls() if c.callee and c.callee.startswith("std::collections::HashSet::<T, S, A>::insert")]
    okc = len(cuts) == 1
    if okc:
        v = nosite(deep_strip(tm.operand(cuts[0].args[1], cuts[0].bb)))
        gets = [x for x in calls_in(v) if x[1] == "std::slice::<impl [T]>::get"]
        okc = len(gets) == 1
        if okc:
            A = Arith(F)
            idx = A.ev(gets[0][2][1])
            syms = idx.p.symbols()
            okc = len(syms) == 1 and idx.equals(Ratio(Poly.sym(next(iter(syms)))) + Ratio(Poly.const(1)))
    ctx.check(okc, "cut-edge:index", "the cut edge is not accepted_path[spur_idx + 1] (the edge after the shared root)", b.where(), detail="get(spur_idx + 1)")
    # accepted.push
    pushes = [c for c in b.calls() if c.callee and c.callee.startswith("std::vec::Vec::<T, A>::push") and innermost_loop(b, c.bb) is not None]
    outer = outermost_loop(b, spur.bb)
    spur_loop = None
    for h, blocks in b.natural_loops():
        if spur.bb in blocks and (h, blocks) != outer and (spur_loop is None or len(blocks) > len(spur_loop[1])):
            spur_loop = (h, blocks)
    if len(pushes) != 1 or spur_loop is None or outer is None:
        ctx.bad("accept-site", "cannot locate the acceptance push / spur loop", b.where())
        return
    push = pushes[0]
    # (c) loop freedom
    lt = b.calls_to(OPS + "route_contains_loop")
    ctx.check(bool(lt) and all(b.dominates(c.bb, push.bb) for c in lt), "yens_algorithm::run:no-loop-test", "a candidate (root ++ spur route) is accepted without a loop test and the spur search does not exclude the root path's vertices: a route revisiting a root vertex can be returned", push.where())
    # (d) one acceptance per outer iteration
    ctx.check(push.bb not in spur_loop[1], "yens_algorithm::run:push-inside-spur-loop", "accepted.push(best) sits inside the loop over spur indices: the same best candidate is pushed once per remaining spur index (duplicates) and more than k routes can be returned", push.where())
    # (d2) dissimilar to every accepted route
    sims = [c for c in b.calls_to(RSF + "::test_similarity")]
    oks = len(sims) == 1
    if oks:
        simloop = innermost_loop(b, sims[0].bb)
        # where is best_candidate assigned Some(..)?  must not be inside the loop over accepted
        some_assign = []
        for bb, blk in enumerate(b.blocks):
            for pos, s in enumerate(blk["stmts"]):
                if s["k"] == "assign" and s["rv"]["k"] == "agg" and s["rv"].get("adt") == "std::option::Option" and s["rv"]["variant"] == "Some" and "Cost" in b.locals[s["place"]["l"]]["ty"] and "Vec" in b.locals[s["place"]["l"]]["ty"]:
                    some_assign.append(bb)
        inside = [bb for bb in some_assign if simloop and bb in simloop[1]]
        ctx.check(bool(some_assign) and not inside, "yens_algorithm::run:dissimilar-to-some", "the candidate is recorded as best inside the loop over accepted routes on the first dissimilar one: it only has to differ from *some* accepted route, not from every one", sims[0].where())
    # (e) spur failures must not fail the query
    ef = error_flow(F, b, spur, tm)
    ctx.check(not ef["ok"], "yens_algorithm::run:spur-error-propagated", "the Err of a spur search (e.g. no path from a dead-end spur vertex) is propagated with `?`: an answerable query is turned into an error because one alternative search failed", spur.where())
    # (f) progress
    hdr = outer[0]
    cyc = hdr in b.reach_from_succs(hdr, removed_blocks=[push.bb])
    ctx.check(not cyc, "yens_algorithm::run:no-progress-exit", "the outer `while accepted.len() < k` loop can complete a turn without accepting a route and without leaving: when no dissimilar candidate exists it never terminates", b.where(hdr))
    # (g) spur range
    unguarded = []
    for bb, blk in enumerate(b.blocks):
        t = blk["term"]
        if t["k"] == "assert" and t.get("msg") == "Overflow" and t.get("op") == "Sub" and not blk["cleanup"]:
            a0 = nosite(deep_strip(tm.operand(t["a"], bb)))
            if calls_in(a0, "len") and innermost_loop(b, bb) is not None:
                c1 = nosite(deep_strip(tm.operand(t["b"], bb)))
                guards = [tt for _, tt in controlling_true(b, tm, bb) if as_cmp(tt) and (contains(tt, lambda s: s == a0))]
                if not guards:
                    unguarded.append((bb, short(a0)[:60], short(c1)))
    ctx.check(not unguarded, "yens_algorithm::run:spur-range-underflow", "`prev_accepted_path.len() - 2` is computed without a guard: a one-edge shortest path underflows (panic in debug, astronomically long loop in release) %s" % unguarded[:1], b.where())
    # helper tables
    sp = F.need(K + "yens_algorithm::same_path")
    rows = [r for r in table(sp, max_paths=100000) if r.end == "return"]
    la, lb = ("call", "std::slice::<impl [T]>::len", (("arg", 1),)), ("call", "std::slice::<impl [T]>::len", (("arg", 2),))
    ctx.check(any((("Ne", la, lb) in r.facts or ("Ne", lb, la) in r.facts) and r.ret == ("const", "bool", False) for r in rows), "same_path:length", "same_path does not report routes of different length as different", sp.where())


def R4_criteria(ctx):
    """C13.R4 termination criteria and k override"""
    F = ctx.F
    ctx.rule("C13.R4", "KspTerminationCriteria::Exact => solution_size == k; KspQuery::new takes k from the query when present, else the configured one", floor=3)
    b = F.need(K + "ksp_termination_criteria::KspTerminationCriteria::terminate_search")
    rows = [r for r in table(b) if r.end == "return" and r.sel.get(("arg", 1)) == "Exact"]
    ok = len(rows) == 1 and as_cmp(rows[0].ret) and as_cmp(rows[0].ret)[0] == "Eq" and {as_cmp(rows[0].ret)[1], as_cmp(rows[0].ret)[2]} == {("arg", 2), ("arg", 3)}
    ctx.check(bool(ok), "Exact", "Exact is not `solution_size == k`", b.where(), detail="size == k")
    qb = F.need(K + "ksp_query::KspQuery::<'a>::new")
    oks = [r for r in table(qb) if r.end == "return" and result_variant(r.ret) == "Ok"]
    ks = set()
    for r in oks:
        f = dict(agg_payload(r.ret)[3])
        ks.add(f.get("k"))
        ctx.check(f.get("source") == ("arg", 1) and f.get("target") == ("arg", 2) and f.get("user_query") == ("arg", 3), "query-fields", "KspQuery fields are not (source, target, query)", qb.where())
    flat = set()
    for k in ks:
        flat |= set(k[1]) if k[0] == "phi" else {k}
    has_q = any(contains(k, lambda s: s[0] == "const" and s[2] == "k") for k in flat)
    has_d = any(k == ("arg", 4) or contains(k, lambda s: s == ("arg", 4)) for k in flat)
    ctx.check(has_q and has_d, "k-override", "k is not query[\"k\"] when present and the configured default otherwise: %s" % [short(k)[:80] for k in flat], qb.where(), detail="query.k or default")


RULES = [R1_similarity, R2_single_via, R2b_loop_test, R2c_reorient, R3_yens, R4_criteria]
